#!/bin/bash
# Offline setup: make sure hypothesis (and optionally atheris) import under the repo's interpreter.
set -u
HERE="$(cd "$(dirname "${BASH_SOURCE[0]}")" && pwd)"
PY="${VERIF_PYTHON:-/venv/bin/python}"
export PIP_NO_INDEX=1
if ! PYTHONPATH="$HERE/.deps" "$PY" -W ignore -c "import hypothesis" 2>/dev/null; then
    "$PY" -m pip install --no-index --find-links /opt/veriftools/wheels --target "$HERE/.deps" hypothesis || exit 1
fi
if ! PYTHONPATH="$HERE/.deps" "$PY" -W ignore -c "import atheris" 2>/dev/null; then
    "$PY" -m pip install --no-index --find-links /opt/veriftools/wheels --target "$HERE/.deps" atheris >/dev/null 2>&1 \
        || echo "note: atheris not installable for this interpreter; fuzz campaigns fall back to Hypothesis only"
fi
PYTHONPATH="$HERE/.deps:/repo" "$PY" -W ignore -c "import hypothesis, forml; print('setup ok: hypothesis', hypothesis.__version__)" || exit 1
chmod +x "$HERE/check" "$HERE"/tools/*.sh 2>/dev/null
exit 0
