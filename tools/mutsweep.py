#!/venv/bin/python
"""tools/mutsweep.py <ID> <repo-relative source file> <tests path>[,<tests path>...] [--jobs N] [--max M] [--only lo-hi]
                     [--funcs name,name] [--out file]

Systematic sensitivity measurement of one check: every single-point mutant of the given source file (comparison /
boolean / arithmetic operator swaps, negated conditions, small-constant shifts, swapped call arguments, dropped
statements, dropped `not`) is written into a scratch worktree of /repo HEAD; mutants the repository's own tests (the given
paths) still accept are then given to `./check <ID> quick` (run from a scratch copy of /verif, so evidence/ and replays/
of the real tree stay untouched). Output: one line per mutant - `killed-by-tests`, `killed-by-check`, `SURVIVED`,
`check-error` (exit 2: the check broke instead of reporting) - and a summary. Survivors are the work list: each is either
equivalent under the property (say why) or a blind spot of the generator / oracle.

Nothing is kept: worktrees and the scratch copy live under a fresh temp dir that is removed at the end.
"""
import argparse
import ast
import concurrent.futures as cf
import copy
import os
import shutil
import subprocess
import sys
import tempfile

CMP = {ast.Eq: ast.NotEq, ast.NotEq: ast.Eq, ast.Lt: ast.LtE, ast.LtE: ast.Lt, ast.Gt: ast.GtE, ast.GtE: ast.Gt,
       ast.Is: ast.IsNot, ast.IsNot: ast.Is, ast.In: ast.NotIn, ast.NotIn: ast.In}
BIN = {ast.Add: ast.Sub, ast.Sub: ast.Add, ast.BitXor: ast.BitOr, ast.BitOr: ast.BitAnd, ast.BitAnd: ast.BitOr}


def sites(tree, funcs):
    """Enumerate (description, path) of mutation sites; path = list of (field, index|None) from the module root."""
    out = []

    def walk(node, path, infunc, depthdoc):
        if isinstance(node, (ast.FunctionDef, ast.AsyncFunctionDef)):
            infunc = infunc + [node.name]
        active = (not funcs) or any(f in funcs for f in infunc)
        ln = getattr(node, 'lineno', 0)
        where = f"{'.'.join(infunc) or '<module>'}:{ln}"
        if active and infunc:
            if isinstance(node, ast.Compare):
                for i, op in enumerate(node.ops):
                    if type(op) in CMP:
                        out.append((f'{where} cmp[{i}] {type(op).__name__}->{CMP[type(op)].__name__}', path, ('cmp', i)))
            elif isinstance(node, ast.BoolOp):
                out.append((f'{where} bool {type(node.op).__name__} swapped', path, ('bool',)))
                if len(node.values) >= 2:
                    for i in range(len(node.values)):
                        out.append((f'{where} bool operand {i} dropped', path, ('booldrop', i)))
            elif isinstance(node, ast.UnaryOp) and isinstance(node.op, ast.Not):
                out.append((f'{where} not dropped', path, ('notdrop',)))
            elif isinstance(node, ast.BinOp) and type(node.op) in BIN:
                out.append((f'{where} binop {type(node.op).__name__}->{BIN[type(node.op)].__name__}', path, ('bin',)))
            elif isinstance(node, ast.Constant) and isinstance(node.value, bool):
                out.append((f'{where} const {node.value}->{not node.value}', path, ('constbool',)))
            elif isinstance(node, ast.Constant) and type(node.value) is int and -2 <= node.value <= 8:
                out.append((f'{where} const {node.value}->{node.value + 1}', path, ('constint', 1)))
                if node.value > 0:
                    out.append((f'{where} const {node.value}->{node.value - 1}', path, ('constint', -1)))
            elif isinstance(node, (ast.If, ast.While, ast.IfExp)):
                out.append((f'{where} {type(node).__name__} test negated', path, ('negtest',)))
            elif isinstance(node, ast.comprehension):
                for i in range(len(node.ifs)):
                    out.append((f'{where} comprehension filter {i} dropped', path, ('compif', i)))
            elif isinstance(node, ast.Call):
                npos = [a for a in node.args if not isinstance(a, ast.Starred)]
                if len(node.args) >= 2 and len(npos) == len(node.args):
                    out.append((f'{where} call args 0,1 swapped', path, ('swapargs',)))
            elif isinstance(node, ast.Subscript) and isinstance(node.slice, ast.Slice):
                out.append((f'{where} slice dropped', path, ('slice',)))
            if isinstance(node, (ast.Expr, ast.Assign, ast.AugAssign, ast.Raise, ast.Return, ast.Continue, ast.Break)) and not (
                isinstance(node, ast.Expr) and isinstance(node.value, ast.Constant)
            ):
                if isinstance(node, ast.Return) and node.value is None:
                    pass
                else:
                    out.append((f'{where} stmt {type(node).__name__} dropped', path, ('dropstmt',)))
        for field, value in ast.iter_fields(node):
            if isinstance(value, list):
                for i, item in enumerate(value):
                    if isinstance(item, ast.AST):
                        walk(item, path + [(field, i)], infunc, depthdoc)
            elif isinstance(value, ast.AST):
                walk(value, path + [(field, None)], infunc, depthdoc)

    walk(tree, [], [], 0)
    return out


def get(node, path):
    for field, idx in path:
        node = getattr(node, field)
        if idx is not None:
            node = node[idx]
    return node


def setat(root, path, new):
    parent = get(root, path[:-1])
    field, idx = path[-1]
    if idx is None:
        setattr(parent, field, new)
    else:
        getattr(parent, field)[idx] = new


def mutate(tree, path, op):
    root = copy.deepcopy(tree)
    node = get(root, path)
    kind = op[0]
    if kind == 'cmp':
        node.ops[op[1]] = CMP[type(node.ops[op[1]])]()
    elif kind == 'bool':
        node.op = ast.Or() if isinstance(node.op, ast.And) else ast.And()
    elif kind == 'booldrop':
        vals = [v for i, v in enumerate(node.values) if i != op[1]]
        setat(root, path, vals[0] if len(vals) == 1 else ast.BoolOp(op=node.op, values=vals))
    elif kind == 'notdrop':
        setat(root, path, node.operand)
    elif kind == 'bin':
        node.op = BIN[type(node.op)]()
    elif kind == 'constbool':
        node.value = not node.value
    elif kind == 'constint':
        node.value = node.value + op[1]
    elif kind == 'negtest':
        node.test = ast.UnaryOp(op=ast.Not(), operand=node.test)
    elif kind == 'compif':
        del node.ifs[op[1]]
    elif kind == 'swapargs':
        node.args[0], node.args[1] = node.args[1], node.args[0]
    elif kind == 'slice':
        setat(root, path, node.value)
    elif kind == 'dropstmt':
        setat(root, path, ast.Pass())
    ast.fix_missing_locations(root)
    return ast.unparse(root)


DESELECT = []  # tests failing on the unmutated tree (pandas 3 / flaky ones): not a verdict on a mutant


def baseline(wt, tests, base):
    env = dict(os.environ, PYTHONPATH=wt, PYTHONDONTWRITEBYTECODE='1', TMPDIR=os.path.join(base, 'tmp'))
    failing = set()
    for _ in range(2):
        r = subprocess.run(['/venv/bin/python', '-m', 'pytest', '-q', '-p', 'no:cacheprovider', '--timeout=300', '-rfE'] + tests,
                           cwd=wt, env=env, capture_output=True, timeout=3000)
        for line in r.stdout.decode(errors='replace').splitlines():
            if line.startswith(('FAILED ', 'ERROR ')):
                failing.add(line.split()[1])
    # known flaky tests of the repository (fail intermittently on the unchanged tree)
    failing.update(['tests/pipeline/wrap/test_actor.py::TestStateless::test_signature',
                    'tests/provider/runner/test_dask.py::TestRunner::test_apply[distributed]',
                    'tests/provider/runner/test_dask.py::TestRunner::test_train[distributed]'])
    return [f'--deselect={t}' for t in sorted(failing)]


def run_one(args):
    idx, desc, code, wt, vcopy, relfile, tests, pid, base = args
    target = os.path.join(wt, relfile)
    with open(target, 'w') as fh:
        fh.write(code)
    env = dict(os.environ, PYTHONPATH=wt, PYTHONDONTWRITEBYTECODE='1', TMPDIR=os.path.join(base, 'tmp'))
    try:
        try:
            r = subprocess.run(['/venv/bin/python', '-W', 'ignore', '-c', 'import forml, forml.flow, forml.io, forml.project, forml.runtime, forml.application'],
                               cwd=wt, env=env, capture_output=True, timeout=120)
            if r.returncode != 0:
                return idx, desc, 'stillborn'
            r = subprocess.run(['/venv/bin/python', '-m', 'pytest', '-q', '-x', '-p', 'no:cacheprovider', '--timeout=300'] + DESELECT + tests,
                               cwd=wt, env=env, capture_output=True, timeout=1500)
        except subprocess.TimeoutExpired:
            return idx, desc, 'killed-by-tests(timeout)'
        if r.returncode != 0:
            return idx, desc, 'killed-by-tests'
        env2 = dict(os.environ, VERIF_REPO=wt, VERIF_NOSHRINK='1', VERIF_SCRATCH_BASE=os.path.join(base, 'tmp'))
        env2.pop('PYTHONPATH', None)
        try:
            r = subprocess.run(['./check', pid, 'quick'], cwd=vcopy, env=env2, capture_output=True, timeout=1800)
        except subprocess.TimeoutExpired:
            return idx, desc, 'check-timeout'
        out = r.stdout.decode(errors='replace')
        bucket = next((l.strip()[:110] for l in out.splitlines() if 'bucket:' in l), '')
        if r.returncode == 1 and 'VIOLATION' in out:
            return idx, desc, 'killed-by-check ' + bucket
        if r.returncode == 0:
            return idx, desc, 'SURVIVED'
        tail = (out + r.stderr.decode(errors='replace')).strip().splitlines()[-1:]
        return idx, desc, f'check-error rc={r.returncode} {tail}'
    finally:
        subprocess.run(['git', 'checkout', '--', relfile], cwd=wt, capture_output=True)


def main():
    ap = argparse.ArgumentParser()
    ap.add_argument('pid')
    ap.add_argument('relfile')
    ap.add_argument('tests')
    ap.add_argument('--jobs', type=int, default=4)
    ap.add_argument('--max', type=int, default=0)
    ap.add_argument('--only', default='')
    ap.add_argument('--funcs', default='')
    ap.add_argument('--out', default='')
    ap.add_argument('--list', action='store_true')
    a = ap.parse_args()
    here = os.path.dirname(os.path.dirname(os.path.abspath(__file__)))
    src = open(os.path.join('/repo', a.relfile)).read()
    tree = ast.parse(src)
    funcs = set(filter(None, a.funcs.split(',')))
    todo = sites(tree, funcs)
    if a.only:
        lo, hi = map(int, a.only.split('-'))
        todo = todo[lo:hi]
    if a.max and len(todo) > a.max:
        step = len(todo) / a.max
        todo = [todo[int(i * step)] for i in range(a.max)]
    if a.list:
        for i, (d, _, _) in enumerate(todo):
            print(i, d)
        return 0
    base = tempfile.mkdtemp(prefix='vf-mutsweep-')
    os.makedirs(os.path.join(base, 'tmp'))
    results = []
    try:
        wts, vcs = [], []
        for j in range(a.jobs):
            wt = os.path.join(base, f'wt{j}')
            subprocess.run(['git', '-C', '/repo', 'worktree', 'add', '--detach', wt, 'HEAD'], capture_output=True, check=True)
            wts.append(wt)
            vc = os.path.join(base, f'v{j}')
            subprocess.run(['rsync', '-a', '--exclude', '.git', '--exclude', 'seeded', here + '/', vc + '/'], check=True)
            vcs.append(vc)
        # sanity: the unparsed but unmutated file must pass like the original (formatting-only change)
        tests = a.tests.split(',')
        with open(os.path.join(wts[0], a.relfile), 'w') as fh:
            fh.write(ast.unparse(tree))
        DESELECT.extend(baseline(wts[0], tests, base))
        subprocess.run(['git', 'checkout', '--', a.relfile], cwd=wts[0], capture_output=True)
        print('baseline deselects', len(DESELECT), flush=True)
        jobs = []
        for i, (desc, path, op) in enumerate(todo):
            try:
                code = mutate(tree, path, op)
                compile(code, a.relfile, 'exec')
            except Exception as exc:  # pylint: disable=broad-except
                results.append((i, desc, f'unbuildable {type(exc).__name__}'))
                continue
            jobs.append((i, desc, code))
        tests = a.tests.split(',')
        with cf.ThreadPoolExecutor(a.jobs) as pool:
            free = list(range(a.jobs))
            import threading

            lock = threading.Lock()

            def task(job):
                with lock:
                    j = free.pop()
                try:
                    return run_one((job[0], job[1], job[2], wts[j], vcs[j], a.relfile, tests, a.pid, base))
                finally:
                    with lock:
                        free.append(j)

            for res in pool.map(task, jobs):
                results.append(res)
                print(f'{res[0]:4d} {res[2][:130]:<60s} | {res[1]}', flush=True)
    finally:
        for j in range(a.jobs):
            subprocess.run(['git', '-C', '/repo', 'worktree', 'remove', '--force', os.path.join(base, f'wt{j}')], capture_output=True)
        shutil.rmtree(base, ignore_errors=True)
    cats = {}
    for _, _, r in results:
        k = r.split()[0]
        cats[k] = cats.get(k, 0) + 1
    print('SUMMARY', a.pid, a.relfile, ' '.join(f'{k}={v}' for k, v in sorted(cats.items())))
    if a.out:
        with open(a.out, 'w') as fh:
            for i, d, r in sorted(results):
                fh.write(f'{i}\t{r}\t{d}\n')
            fh.write('SUMMARY ' + ' '.join(f'{k}={v}' for k, v in sorted(cats.items())) + '\n')
    return 0


if __name__ == '__main__':
    sys.exit(main())
