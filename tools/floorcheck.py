#!/usr/bin/env python3
"""Compare FLOORS of each claimed check with the class fractions of the current evidence file (margin report)."""
import ast, json, os
ROOT = os.path.dirname(os.path.dirname(os.path.abspath(__file__)))
for pid in open(os.path.join(ROOT, 'claimed.txt')).read().split():
    src = open(os.path.join(ROOT, 'vf', 'checks', pid.lower() + '.py')).read()
    floors = {}
    for node in ast.parse(src).body:
        if isinstance(node, ast.Assign) and getattr(node.targets[0], 'id', '') == 'FLOORS':
            floors = ast.literal_eval(node.value)
    ev = json.load(open(os.path.join(ROOT, 'evidence', pid + '.json')))
    cov = ev['coverage']
    total = max(cov['evaluations'] - cov.get('replays_executed', 0), 1)
    for cls, fl in floors.items():
        have = cov['classes'].get(cls, 0) / total
        flag = '  <-- TIGHT' if have < 1.5 * fl else ''
        print(f'{pid} {cls}: floor {fl} have {have:.3f}{flag}')
