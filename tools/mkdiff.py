#!/usr/bin/env python3
"""tools/mkdiff.py <repo-relative-file> <old-snippet> <new-snippet> [count]  -> unified diff on stdout (against /repo HEAD)."""
import difflib
import subprocess
import sys

path, old, new = sys.argv[1:4]
src = subprocess.run(['git', '-C', '/repo', 'show', f'HEAD:{path}'], capture_output=True, text=True, check=True).stdout
n = src.count(old)
if n != 1:
    sys.exit(f'snippet occurs {n} times in {path}')
dst = src.replace(old, new)
sys.stdout.writelines(difflib.unified_diff(src.splitlines(True), dst.splitlines(True), f'a/{path}', f'b/{path}'))
