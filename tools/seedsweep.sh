#!/bin/bash
# tools/seedsweep.sh [jobs] : confirm that every kept seeded change (seeded/<ID>-<k>/patch.diff) is reported by the quick
# tier of its property's check. Each job applies one patch to a fresh scratch worktree of /repo HEAD and runs the check
# from a scratch copy of /verif (so evidence/ and replays/ of the real tree are untouched). Prints one line per seed;
# exit 0 iff all were detected (check exit 1 with a VIOLATION line).
set -u
JOBS="${1:-6}"
HERE="$(cd "$(dirname "$0")/.." && pwd)"
SCR="$(mktemp -d /tmp/vf-sweep-XXXXXX)"
trap 'rm -rf "$SCR"' EXIT
rsync -a --exclude .git --exclude evidence "$HERE/" "$SCR/verif/"; mkdir -p "$SCR/verif/evidence" "$SCR/out"
one() {
  d="$1"; name="$(basename "$d")"; id="${name%%-*}"
  alt="$(python3 -c "import json,sys; print(json.load(open(sys.argv[1])).get('check_property',''))" "$d/meta.json" 2>/dev/null)"
  [ -n "$alt" ] && id="$alt"   # a change kept under one property but reported by another property's check
  wt="$SCR/wt-$name"
  git -C /repo worktree add --detach "$wt" HEAD >/dev/null 2>&1 || { echo "$name worktree-failed"; return; }
  if git -C "$wt" apply "$d/patch.diff" 2>/dev/null; then
    cp -r "$SCR/verif" "$SCR/v-$name"
    ( cd "$SCR/v-$name" && VERIF_REPO="$wt" VERIF_NOSHRINK=1 ./check "$id" quick > "$SCR/out/$name.log" 2>&1 ); rc=$?
    b="$(grep -m1 'bucket:' "$SCR/out/$name.log" | sed 's/^ *bucket: //' | cut -c1-90)"
    echo "$name check=$rc $b"
    rm -rf "$SCR/v-$name"
  else
    echo "$name patch-does-not-apply"
  fi
  git -C /repo worktree remove --force "$wt" >/dev/null 2>&1; rm -rf "$wt"
}
export -f one; export SCR
ls -d "$HERE"/seeded/C??-* | xargs -P "$JOBS" -I{} bash -c 'one {}' | sort | tee "$SCR/summary"
missed=$(grep -vc 'check=1' "$SCR/summary")
echo "seeds=$(wc -l < "$SCR/summary") not-detected=$missed"
[ "$missed" = 0 ]
