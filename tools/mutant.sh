#!/bin/bash
# tools/mutant.sh <patch.diff|sed-expr-file> <ID> [tier]  -- run a check against a scratch worktree of /repo carrying a patch
# Expectation: exit 1 (VIOLATION) => mutant killed. Scratch worktree is removed afterwards.
set -u
PATCH="$(readlink -f "$1")"; ID="$2"; TIER="${3:-quick}"
WT="$(mktemp -d /tmp/vf-mut-XXXXXX)"
rmdir "$WT"
git -C /repo worktree add --detach "$WT" HEAD >/dev/null 2>&1 || { echo "worktree failed"; exit 2; }
trap 'git -C /repo worktree remove --force "$WT" >/dev/null 2>&1; rm -rf "$WT"' EXIT
# carry over uncommitted changes of /repo? no: mutants are relative to HEAD
if ! git -C "$WT" apply "$PATCH"; then echo "patch does not apply"; exit 2; fi
cd /verif
VERIF_REPO="$WT" VERIF_NOSHRINK="${VERIF_NOSHRINK:-1}" ./check "$ID" "$TIER" 2>&1 | grep -v "conda\|^WARNING" | grep -E "VIOLATION|KNOWN|bucket:|detail:|HARNESS|cases," | cut -c1-300
exit ${PIPESTATUS[0]}
