#!/bin/bash
# tools/seedtests.sh <name> <patch.diff|-> : run the repo's full test-suite on a scratch worktree (optionally patched),
# writing the sorted list of failing/erroring test ids to /tmp/seedtests/<name>.fail
set -u
NAME="$1"; PATCH="${2:--}"
mkdir -p /tmp/seedtests
WT="$(mktemp -d /tmp/vf-st-XXXXXX)"; rmdir "$WT"
git -C /repo worktree add --detach "$WT" HEAD >/dev/null 2>&1 || exit 2
trap 'git -C /repo worktree remove --force "$WT" >/dev/null 2>&1; rm -rf "$WT"' EXIT
if [ "$PATCH" != "-" ]; then git -C "$WT" apply "$PATCH" || { echo "patch failed" > /tmp/seedtests/$NAME.fail; exit 2; }; fi
cd "$WT"
PYTHONPATH="$WT" nice -n 5 timeout 3600 /venv/bin/python -m pytest -q -p no:cacheprovider --timeout=900 tests -q -rfE 2>&1 | grep -E "^FAILED|^ERROR" | sed 's/ - .*//' | sort > /tmp/seedtests/$NAME.fail
echo "finished" >> /tmp/seedtests/$NAME.done
