#!/usr/bin/env python3
"""Fold the per-property fragments known_findings.d/*.json into the single known_findings.json (and empty the fragments)."""
import glob
import json
import os

ROOT = os.path.dirname(os.path.dirname(os.path.abspath(__file__)))
main = os.path.join(ROOT, 'known_findings.json')
doc = json.load(open(main))
seen_f = {f['id'] for f in doc['findings']}
for path in sorted(glob.glob(os.path.join(ROOT, 'known_findings.d', '*.json'))):
    part = json.load(open(path))
    for f in part.get('findings', []):
        if f['id'] not in seen_f:
            doc['findings'].append(f)
            seen_f.add(f['id'])
    for f in part.get('fixed', []):
        if f not in doc['fixed']:
            doc['fixed'].append(f)
    os.remove(path)
doc['findings'].sort(key=lambda f: (f['property'], f['id']))
doc['fixed'].sort(key=lambda f: (f['property'], f['commit']))
json.dump(doc, open(main, 'w'), indent=1)
print(len(doc['findings']), 'findings,', len(doc['fixed']), 'fixed entries')
