#!/bin/bash
# tools/seedcheck.sh <dir with patch.diff demo.py> <ID> [tier] : verify a seeded change in a fresh scratch worktree
# prints: demo_clean=<rc> demo_patched=<rc> check=<rc>
set -u
SEED="$(readlink -f "$1")"; ID="$2"; TIER="${3:-quick}"
WT="$(mktemp -d /tmp/vf-seed-XXXXXX)"; rmdir "$WT"
git -C /repo worktree add --detach "$WT" HEAD >/dev/null 2>&1 || { echo "worktree failed"; exit 2; }
trap 'git -C /repo worktree remove --force "$WT" >/dev/null 2>&1; rm -rf "$WT"' EXIT
cd "$WT"
PYTHONPATH="$WT" timeout 600 /venv/bin/python -W ignore "$SEED/demo.py" >/tmp/seedcheck.$$.clean 2>&1; C=$?
git apply "$SEED/patch.diff" || { echo "patch does not apply"; exit 2; }
PYTHONPATH="$WT" timeout 600 /venv/bin/python -W ignore "$SEED/demo.py" >/tmp/seedcheck.$$.patched 2>&1; P=$?
VC="$(mktemp -d /tmp/vf-seedv-XXXXXX)"   # scratch copy of /verif: evidence/ and replays/ of the real tree stay untouched
rsync -a --exclude .git --exclude seeded /verif/ "$VC/"
cd "$VC"
VERIF_REPO="$WT" VERIF_NOSHRINK=1 ./check "$ID" "$TIER" > /tmp/seedcheck.$$.check 2>&1; K=$?
cd /verif; rm -rf "$VC"
grep -E "VIOLATION|bucket:|cases,|HARNESS" /tmp/seedcheck.$$.check | cut -c1-220 | head -12
if [ "${SEED_TESTS:-}" != "" ]; then
  cd "$WT"; PYTHONPATH="$WT" timeout 2400 /venv/bin/python -m pytest -q -p no:cacheprovider --timeout=900 $SEED_TESTS -q 2>&1 | grep -E "^FAILED|^ERROR" | sort > /tmp/seedcheck.$$.tests
  echo "tests_failing=$(wc -l < /tmp/seedcheck.$$.tests)"; cat /tmp/seedcheck.$$.tests | cut -c1-150
fi
echo "demo_clean=$C demo_patched=$P check=$K"
rm -f /tmp/seedcheck.$$.*
