#!/bin/bash
# tools/seedintake.sh <ID> <A|B> <k> [srcdir] : store a delivered change (patch_X.diff demo_X.py meta_X.json from srcdir,
# default /tmp/s4/<ID>/out) as seeded/<ID>-<k>/ and confirm it (demo clean/patched, quick check) in a scratch worktree
set -u
ID="$1"; X="$2"; K="$3"; SRC="${4:-/tmp/s4/$ID/out}"
HERE="$(cd "$(dirname "$0")/.." && pwd)"
D="$HERE/seeded/$ID-$K"; mkdir -p "$D"
cp "$SRC/patch_$X.diff" "$D/patch.diff"; cp "$SRC/demo_$X.py" "$D/demo.py"
R="$("$HERE/tools/seedcheck.sh" "$D" "$ID" 2>&1)"; echo "$R"
python3 - "$D" "$SRC/meta_$X.json" "$ID" "${ROUND:-4}" "$R" <<'PY'
import json, sys, re
d, src, pid, rnd, res = sys.argv[1:6]
try: m = json.load(open(src))
except Exception as e: m = {'summary': f'(meta unreadable: {e})'}
last = res.strip().splitlines()[-1] if res.strip() else ''
g = dict(re.findall(r'(\w+)=(\d+)', last))
out = {'property': pid, 'round': int(rnd), 'summary': m.get('summary'), 'needs_to_manifest': m.get('needs_to_manifest'),
       'files_changed': m.get('files_changed'), 'author_tests_run': m.get('tests_run'),
       'author': 'independent sub-agent given only the property text (plus short descriptions of the changes already seeded for it, to avoid duplicates) and a scratch worktree',
       'confirmed_by_me': {'demo_clean_exit': int(g.get('demo_clean', -1)), 'demo_patched_exit': int(g.get('demo_patched', -1)),
                           'how': 'tools/seedcheck.sh <dir> <ID> in a fresh scratch worktree of /repo HEAD'},
       'first_try_check_exit': int(g.get('check', -1)),
       'first_try_output': [l[:200] for l in res.strip().splitlines()[:-1]][:6]}
json.dump(out, open(d + '/meta.json', 'w'), indent=1)
PY
