#!/usr/bin/env python3
"""Regenerate /verif/MANIFEST.json from the metadata in vf/checks/cXX.py (static parse; nothing is imported)."""
import ast
import json
import os

ROOT = os.path.dirname(os.path.dirname(os.path.abspath(__file__)))


def consts(path):
    out = {}
    tree = ast.parse(open(path).read())
    for node in tree.body:
        if isinstance(node, ast.Assign) and len(node.targets) == 1 and isinstance(node.targets[0], ast.Name):
            try:
                out[node.targets[0].id] = ast.literal_eval(node.value)
            except Exception:
                pass
    return out


props = [json.loads(l) for l in open(os.path.join(ROOT, 'properties.jsonl'))]
checks, na = [], []
CLAIMED = set(open(os.path.join(ROOT, 'claimed.txt')).read().split())
for p in props:
    pid = p['id']
    path = os.path.join(ROOT, 'vf', 'checks', f'{pid.lower()}.py')
    meta = consts(path) if os.path.exists(path) else {}
    if not meta or pid not in CLAIMED:
        na.append({'property_id': pid, 'reason': meta.get('NA_REASON', 'check not built yet (work in progress); design in DESIGN.md section 3')})
        continue
    checks.append(
        {
            'property_id': pid,
            'quick_cmd': f'./check {pid} quick',
            'thorough_cmd': f'./check {pid} thorough',
            'evidence_file': f'/verif/evidence/{pid}.json',
            'replay_cmd_template': f'./check {pid} --replay {{path}}',
            'engine': 'vf',
            'level_claimed': {
                'category': meta.get('LEVEL', 'exploration'),
                'text': meta['LEVEL_TEXT'],
                'design_ref': f'DESIGN.md section 3, {pid}',
            },
            'level_note': meta['LEVEL_NOTE'],
            'technique': meta['TECHNIQUE'],
        }
    )
doc = {
    'version': 1,
    'setup_cmd': './setup.sh',
    'hooks': {
        'guard': 'FORMLIO_FORML_VERIF',
        'enable': 'export FORMLIO_FORML_VERIF=1 (done by ./check); forml is pure Python and imported from /repo working tree, no build step',
        'baseline_off_cmd': 'cd /repo && env -u FORMLIO_FORML_VERIF /venv/bin/python -m pytest -ra -q -p no:cacheprovider --timeout=900 --continue-on-collection-errors',
        'source_commits': json.load(open(os.path.join(ROOT, 'hooks.json'))) if os.path.exists(os.path.join(ROOT, 'hooks.json')) else [],
        'add_only': True,
    },
    'engines': [
        {
            'name': 'vf',
            'path': '/verif/vf',
            'serves_properties': [c['property_id'] for c in checks],
            'kind_free_text': 'Hypothesis-driven generated-input search (collect -> bucket -> known-findings triage) with explicit reference oracles; run by ./check',
        }
    ],
    'checks': checks,
    'notes': 'All checks: property-based testing / fuzzing family. Known genuine defects are listed in known_findings.json. See DESIGN.md.',
    'not_applicable': na,
}
json.dump(doc, open(os.path.join(ROOT, 'MANIFEST.json'), 'w'), indent=1)
print(f'{len(checks)} checks claimed, {len(na)} not applicable')
