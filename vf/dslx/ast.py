"""JSON AST of DSL statements - documentation and pure helpers (no forml import).

Every node is a JSON-able dict. *Sources* carry the key ``'t'``, *features* the key ``'f'``.

Sources
-------
``{'t':'table','name':'A'}``                                    catalog table (``vf.dslx.catalog.TABLES``)
``{'t':'ref','src':<source>,'name':'r1'}``                      *named* reference of any source (never anonymous: forml
                                                                would invent a random name)
``{'t':'join','left':<origin>,'right':<origin>,'kind':K,'cond':<feature>|None}``   K in inner|left|right|full|cross
``{'t':'query','src':<source>,'select':[features],'where':f|None,'groupby':[features],'having':f|None,
  'orderby':[[feature,'asc'|'desc'],...],'limit':[count,offset]|None}``
``{'t':'set','left':<statement>,'right':<statement>,'kind':K}``  K in union|intersection|difference

Features
--------
``{'f':'col','table':'A','name':'x'}``          column of a catalog table, addressed by its *field name*
``{'f':'elem','ref':'r1','name':'x'}``          element of a named reference; the reference normally is part of the
                                                source the feature is used with. A feature that refers to a reference
                                                which is *not* part of the statement carries its definition inline:
                                                ``{'f':'elem','ref':'rx','name':'x','of':<source>}``
``{'f':'lit','kind':'int|float|str|bool|date|timestamp','v':...}``   date = 'YYYY-MM-DD', timestamp = ISO seconds
``{'f':'alias','of':f,'name':'n'}``
``{'f':'cmp','op':'eq|ne|lt|le|gt|ge','l':f,'r':f}``
``{'f':'and'|'or','l':f,'r':f}``, ``{'f':'not','x':f}``
``{'f':'arith','op':'add|sub|mul|div|mod','l':f,'r':f}``
``{'f':'agg','fn':'count|sum|avg|min|max','x':f}``
``{'f':'cast','x':f,'kind':K}``
``{'f':'isnull'|'notnull','x':f}``
``{'f':'abs'|'ceil'|'floor'|'year','x':f}``      the univariate functions of ``forml.io.dsl.function``
``{'f':'win','fn':<agg feature>|{'f':'rownumber'},'partition':[features]}``    window (experimental in forml; only
                                                used by C07 for the "window in having" rule and as a select item)

Conventions of the generator (normal forms, so that different ASTs denote different structures): no alias of an alias,
no reference of a reference, set operands are queries, reference names are unique within a statement, nested queries
and sets are queried through a named reference.

Analysis helpers take an optional *scope*: a mapping ``element key -> kind`` where the element key is
``('col', table, name)`` or ``('elem', ref, name)``; ``scope_of(source)`` computes "the elements of a source".
"""
import copy
import typing

from .catalog_data import TABLES

KINDS = ('int', 'float', 'str', 'bool', 'date', 'timestamp')
NUMERIC = ('int', 'float')
JOIN_KINDS = ('inner', 'left', 'right', 'full', 'cross')
SET_KINDS = ('union', 'intersection', 'difference')
CMP_OPS = ('eq', 'ne', 'lt', 'le', 'gt', 'ge')
ARITH_OPS = ('add', 'sub', 'mul', 'div', 'mod')
AGG_FNS = ('count', 'sum', 'avg', 'min', 'max')
UNARY = ('not', 'isnull', 'notnull', 'abs', 'ceil', 'floor', 'year', 'cast', 'agg')
BINARY = ('cmp', 'and', 'or', 'arith')


# ---- constructors --------------------------------------------------------------------------------------------------
def table(name):
    return {'t': 'table', 'name': name}


def ref(src, name):
    return {'t': 'ref', 'src': src, 'name': name}


def join(left, right, kind, cond=None):
    return {'t': 'join', 'left': left, 'right': right, 'kind': kind, 'cond': cond}


def query(src, select=(), where=None, groupby=(), having=None, orderby=(), limit=None):
    return {
        't': 'query',
        'src': src,
        'select': list(select),
        'where': where,
        'groupby': list(groupby),
        'having': having,
        'orderby': [list(o) for o in orderby],
        'limit': list(limit) if limit is not None else None,
    }


def setop(left, right, kind):
    return {'t': 'set', 'left': left, 'right': right, 'kind': kind}


def col(tab, name):
    return {'f': 'col', 'table': tab, 'name': name}


def elem(refname, name, of=None):
    node = {'f': 'elem', 'ref': refname, 'name': name}
    if of is not None:
        node['of'] = of
    return node


def lit(value, kind=None):
    if kind is None:
        kind = {bool: 'bool', int: 'int', float: 'float', str: 'str'}[type(value)]
    return {'f': 'lit', 'kind': kind, 'v': value}


def alias(of, name):
    return {'f': 'alias', 'of': of, 'name': name}


def cmp(op, left, right):
    return {'f': 'cmp', 'op': op, 'l': left, 'r': right}


def and_(left, right):
    return {'f': 'and', 'l': left, 'r': right}


def or_(left, right):
    return {'f': 'or', 'l': left, 'r': right}


def not_(x):
    return {'f': 'not', 'x': x}


def arith(op, left, right):
    return {'f': 'arith', 'op': op, 'l': left, 'r': right}


def agg(fn, x):
    return {'f': 'agg', 'fn': fn, 'x': x}


def cast(x, kind):
    return {'f': 'cast', 'x': x, 'kind': kind}


def unary(fn, x):
    return {'f': fn, 'x': x}


def win(fn, partition):
    return {'f': 'win', 'fn': fn, 'partition': list(partition)}


# ---- traversal -----------------------------------------------------------------------------------------------------
def is_source(node) -> bool:
    return isinstance(node, dict) and 't' in node


def is_feature(node) -> bool:
    return isinstance(node, dict) and 'f' in node


def children(node) -> list:
    """Direct child nodes as ``(path fragment, child)`` pairs in evaluation order (sources before features)."""
    out = []
    if is_source(node):
        t = node['t']
        if t == 'ref':
            out.append((['src'], node['src']))
        elif t == 'join':
            out.append((['left'], node['left']))
            out.append((['right'], node['right']))
            if node.get('cond') is not None:
                out.append((['cond'], node['cond']))
        elif t == 'set':
            out.append((['left'], node['left']))
            out.append((['right'], node['right']))
        elif t == 'query':
            out.append((['src'], node['src']))
            for i, f in enumerate(node.get('select') or []):
                out.append((['select', i], f))
            if node.get('where') is not None:
                out.append((['where'], node['where']))
            for i, f in enumerate(node.get('groupby') or []):
                out.append((['groupby', i], f))
            if node.get('having') is not None:
                out.append((['having'], node['having']))
            for i, term in enumerate(node.get('orderby') or []):
                out.append((['orderby', i, 0], term[0]))
    elif is_feature(node):
        f = node['f']
        if f == 'alias':
            out.append((['of'], node['of']))
        elif f in BINARY:
            out.append((['l'], node['l']))
            out.append((['r'], node['r']))
        elif f in UNARY:
            out.append((['x'], node['x']))
        elif f == 'win':
            out.append((['fn'], node['fn']))
            for i, p in enumerate(node.get('partition') or []):
                out.append((['partition', i], p))
        elif f == 'elem' and node.get('of') is not None:
            out.append((['of'], node['of']))
    return out


def walk_paths(node, path=()) -> typing.Iterator[tuple]:
    """Pre-order ``(path, node)`` pairs of all source and feature nodes."""
    yield tuple(path), node
    for frag, child in children(node):
        yield from walk_paths(child, tuple(path) + tuple(frag))


def walk(node) -> typing.Iterator[dict]:
    """Pre-order iteration over all source and feature nodes."""
    for _, sub in walk_paths(node):
        yield sub


def size(node) -> int:
    """Number of nodes."""
    return sum(1 for _ in walk(node))


def depth(node) -> int:
    """Source nesting depth (a table is 1)."""
    if not is_source(node):
        return 0
    return 1 + max([depth(c) for _, c in children(node) if is_source(c)] or [0])


def tables_of(node) -> list:
    """Sorted names of the catalog tables appearing anywhere in the node (sources and column features)."""
    out = set()
    for sub in walk(node):
        if sub.get('t') == 'table':
            out.add(sub['name'])
        elif sub.get('f') == 'col':
            out.add(sub['table'])
    return sorted(out)


def refs_of(node) -> dict:
    """``name -> ref node`` of all named references defined in the node (inline definitions of elements included)."""
    out = {}
    for sub in walk(node):
        if sub.get('t') == 'ref':
            out.setdefault(sub['name'], sub)
        elif sub.get('f') == 'elem' and sub.get('of') is not None:
            out.setdefault(sub['ref'], ref(sub['of'], sub['ref']))
    return out


def get(node, path):
    for key in path:
        node = node[key]
    return node


def replace(node, path, new):
    """Copy of ``node`` with the sub-node at ``path`` replaced (``path=()`` returns ``new``)."""
    if not path:
        return copy.deepcopy(new)
    root = copy.deepcopy(node)
    cur = root
    for key in path[:-1]:
        cur = cur[key]
    cur[path[-1]] = copy.deepcopy(new)
    return root


# ---- analysis ------------------------------------------------------------------------------------------------------
def name_of(feature) -> typing.Optional[str]:
    """Output name of a feature: alias, column or element name; None for unnamed expressions."""
    f = feature['f']
    if f in ('alias', 'col', 'elem'):
        return feature['name']
    return None


def strip_alias(feature):
    return feature['of'] if feature['f'] == 'alias' else feature


def element_key(feature) -> tuple:
    if feature['f'] == 'col':
        return ('col', feature['table'], feature['name'])
    return ('elem', feature['ref'], feature['name'])


def elements_of(feature) -> list:
    """Element leaves (col / elem nodes) of a feature in traversal order."""
    return [n for n in walk(feature) if n.get('f') in ('col', 'elem')]


def has_agg(feature) -> bool:
    """True when the feature contains an aggregate function that is not the function of a window."""
    f = feature['f']
    if f == 'agg':
        return True
    if f == 'win':
        return False
    return any(has_agg(c) for _, c in children(feature) if is_feature(c))


def has_win(feature) -> bool:
    return any(n.get('f') == 'win' for n in walk(feature))


def features_of(source) -> list:
    """Output features of a source in order, as feature ASTs.

    table: its columns; reference: one element per output of the referenced source; join: left then right;
    query: the selection, or all features of its source when the selection is empty; set: the left operand's.
    """
    t = source['t']
    if t == 'table':
        return [col(source['name'], n) for n, _ in TABLES[source['name']]]
    if t == 'ref':
        return [elem(source['name'], name_of(f)) for f in features_of(source['src'])]
    if t == 'join':
        return features_of(source['left']) + features_of(source['right'])
    if t == 'query':
        return list(source['select']) if source.get('select') else features_of(source['src'])
    if t == 'set':
        return features_of(source['left'])
    raise ValueError(f'unknown source {t}')


def outputs_of(source) -> list:
    """``[(name | None, kind)]`` of the source's output columns in order."""
    t = source['t']
    if t == 'table':
        return [(n, k) for n, k in TABLES[source['name']]]
    if t == 'ref':
        return outputs_of(source['src'])
    if t == 'join':
        return outputs_of(source['left']) + outputs_of(source['right'])
    if t == 'query':
        if not source.get('select'):
            return outputs_of(source['src'])
        scope = scope_of(source['src'])
        return [(name_of(f), kind_of(f, scope)) for f in source['select']]
    if t == 'set':
        return outputs_of(source['left'])
    raise ValueError(f'unknown source {t}')


def scope_of(source) -> dict:
    """The *elements of a source*: ``element key -> kind``.

    table: its columns; reference: ``(ref, name)`` for every named output of the referenced source; join: both sides;
    query / set (queried directly, which the generator never does - they are queried through a reference): the
    elements occurring in their output features.
    """
    t = source['t']
    if t == 'table':
        return {('col', source['name'], n): k for n, k in TABLES[source['name']]}
    if t == 'ref':
        return {('elem', source['name'], n): k for n, k in outputs_of(source['src']) if n is not None}
    if t == 'join':
        out = dict(scope_of(source['left']))
        out.update(scope_of(source['right']))
        return out
    if t == 'query':
        inner = scope_of(source['src'])
        if not source.get('select'):
            return inner
        out = {}
        for f in source['select']:
            for e in elements_of(f):
                key = element_key(e)
                out[key] = kind_of(e, inner)
        return out
    if t == 'set':
        out = dict(scope_of(source['left']))
        out.update(scope_of(source['right']))
        return out
    raise ValueError(f'unknown source {t}')


def kind_of(feature, scope: typing.Optional[typing.Mapping] = None) -> str:
    """Kind name of a feature (total also on ill-kinded mutants: it never raises for operand kinds).

    Rules: column - catalog kind; element - kind of the referenced output (from ``scope`` or the inline ``of``
    definition); literal - its own; alias - the aliased feature's; predicates - bool; arithmetic - float when an
    operand is float, else int (forml documents "largest operand kind", which makes int/int division and avg(int)
    integers - ``is_loose_numeric`` tells where an oracle should not insist on int vs float); count/ceil/floor/year -
    int; sum/avg/min/max/abs - operand kind; cast - target kind; window - kind of its function.
    """
    f = feature['f']
    if f == 'col':
        return dict(TABLES[feature['table']])[feature['name']]
    if f == 'elem':
        key = element_key(feature)
        if scope is not None and key in scope:
            return scope[key]
        if feature.get('of') is not None:
            return dict((n, k) for n, k in outputs_of(feature['of']) if n is not None)[feature['name']]
        raise KeyError(f'element {key} not in scope')
    if f == 'lit':
        return feature['kind']
    if f == 'alias':
        return kind_of(feature['of'], scope)
    if f in ('cmp', 'and', 'or', 'not', 'isnull', 'notnull'):
        return 'bool'
    if f == 'arith':
        kinds = (kind_of(feature['l'], scope), kind_of(feature['r'], scope))
        return 'float' if 'float' in kinds else 'int'
    if f == 'agg':
        return 'int' if feature['fn'] == 'count' else kind_of(feature['x'], scope)
    if f == 'abs':
        return kind_of(feature['x'], scope)
    if f in ('ceil', 'floor', 'year', 'rownumber'):
        return 'int'
    if f == 'cast':
        return feature['kind']
    if f == 'win':
        return kind_of(feature['fn'], scope)
    raise ValueError(f'unknown feature {f}')


def is_loose_numeric(feature) -> bool:
    """True when the int-vs-float kind of the feature depends on forml's "largest operand kind" convention rather than
    on SQL semantics (avg or division somewhere on the path that determines the kind)."""
    f = feature['f']
    if f == 'alias':
        return is_loose_numeric(feature['of'])
    if f == 'arith':
        return feature['op'] == 'div' or is_loose_numeric(feature['l']) or is_loose_numeric(feature['r'])
    if f == 'agg':
        return feature['fn'] == 'avg' or (feature['fn'] != 'count' and is_loose_numeric(feature['x']))
    if f == 'abs':
        return is_loose_numeric(feature['x'])
    if f == 'win':
        return is_loose_numeric(feature['fn'])
    return False


def origins_of(feature) -> list:
    """Sorted distinct origins (``('col', table)`` / ``('elem', ref)``) of the elements used by a feature."""
    return sorted({element_key(e)[:2] for e in elements_of(feature)})
