"""Plain-data description of the catalog (no forml import): ``TABLES[name] = [(field name, kind name), ...]``."""
TABLES = {
    'A': [('id', 'int'), ('x', 'int'), ('f', 'float'), ('s', 'str'), ('b', 'bool'), ('d', 'date'), ('t', 'timestamp')],
    'B': [('id', 'int'), ('a', 'int'), ('y', 'float'), ('s', 'str')],
    'C': [('id', 'int'), ('b', 'int'), ('z', 'int')],
    'D': [('id', 'int'), ('value', 'int')],
    'E': [('id', 'int'), ('b', 'int'), ('z', 'int')],
}
DEFAULT_TABLES = ('A', 'B', 'C', 'D')
ATTRS = {('D', 'value'): 'val'}  # (table, field name) -> python attribute name where they differ
