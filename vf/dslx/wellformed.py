"""Independent well-formedness oracle over the JSON AST - exactly the rules listed by property C07.

Rule ids (``check`` returns the first one found in construction order - inner sources first, then the clauses of a
query in the order select, where, groupby, having, orderby - or None for a conforming statement):

``scope:select|where|groupby|having|orderby``  the clause uses an element that is not an element of the queried source
``scope:join``          the join condition uses an element of neither side
``bool:where|having|join``  the filter / join condition is not of boolean kind
``agg:where|groupby|join``  an aggregate appears in a where-condition, a grouping key or a join condition
``win:having``          a window appears in a having-condition
``group:select``        grouping present and a selected feature (alias stripped; all source features when nothing is
                        selected) is neither structurally identical to a grouping key nor contains an aggregate
``kind:cmp``            comparison operands neither all numeric nor of one kind
``kind:arith``          arithmetic operand (also of sum/avg/min/max/abs/ceil/floor) not numeric
``kind:logical``        operand of and/or/not not boolean (the property's anchor list names ``Logical.__init__`` among
                        the operand kind checks; a logical operator over a non-boolean is no boolean predicate)
``set:schema``          set operands with different output names or kinds (in order)
``join:cross-cond`` / ``join:no-cond``  cross join with a condition / other join without one

Deliberately *not* rules (the property does not list them): aggregates selected without grouping, having without
grouping, nested aggregates, aggregates in ordering, duplicate output names, ``year`` of a non-date, elements used inside
a window specification. Grey zones where this oracle follows forml but the generators stay out (so that no check asserts
either verdict): date vs timestamp comparison (``kind:cmp`` here and in forml, arguably compatible), min/max of a
non-numeric (``kind:arith`` here and in forml, legal SQL).

``schema_of(ast)`` gives the expected output schema ``[(name | None, kind)]``: name None = unnamed expression (assert
only count and kind), kind ``'num'`` = numeric whose int/float flavour rests on forml's "largest operand kind"
convention (avg, division) and is not asserted.
"""
import collections

from . import ast as A


def _universe(node) -> dict:
    """Kinds of the elements of *all* references defined anywhere in the statement (needed to kind foreign elements)."""
    out = {}
    for name, ref in sorted(A.refs_of(node).items()):
        out.update(A.scope_of(ref))
    return out


def _kind(feature, scope):
    return A.kind_of(feature, scope)


def _feature_kind_rules(feature, scope, path, out):
    """Operand kind rules on every operator node of a feature tree (children first = construction order)."""
    for frag, child in A.children(feature):
        if A.is_feature(child):
            _feature_kind_rules(child, scope, path + tuple(frag), out)
    f = feature['f']
    if f == 'cmp':
        kinds = [_kind(feature['l'], scope), _kind(feature['r'], scope)]
        if not (all(k in A.NUMERIC for k in kinds) or kinds[0] == kinds[1]):
            out.append(('kind:cmp', path))
    elif f == 'arith':
        if not all(_kind(feature[s], scope) in A.NUMERIC for s in ('l', 'r')):
            out.append(('kind:arith', path))
    elif f in ('abs', 'ceil', 'floor') or (f == 'agg' and feature['fn'] != 'count'):
        if _kind(feature['x'], scope) not in A.NUMERIC:
            out.append(('kind:arith', path))
    elif f in ('and', 'or'):
        if not all(_kind(feature[s], scope) == 'bool' for s in ('l', 'r')):
            out.append(('kind:logical', path))
    elif f == 'not':
        if _kind(feature['x'], scope) != 'bool':
            out.append(('kind:logical', path))


def _judged_elements(feature) -> list:
    """Element leaves outside window specifications (forml's experimental windows are opaque to its validation, the
    property lists no rule for them: elements inside a window are not judged, generators keep them in scope)."""
    if feature['f'] == 'win':
        return []
    if feature['f'] in ('col', 'elem'):
        return [feature]
    return [e for _, c in A.children(feature) if A.is_feature(c) for e in _judged_elements(c)]


def _foreign(feature, scope) -> bool:
    return any(A.element_key(e) not in scope for e in _judged_elements(feature))


def _source_rules(node, universe, path, out):
    t = node['t']
    if t == 'table':
        return
    if t == 'ref':
        _source_rules(node['src'], universe, path + ('src',), out)
        return
    if t == 'set':
        _source_rules(node['left'], universe, path + ('left',), out)
        _source_rules(node['right'], universe, path + ('right',), out)
        if A.outputs_of(node['left']) != A.outputs_of(node['right']):
            out.append(('set:schema', path))
        return
    if t == 'join':
        _source_rules(node['left'], universe, path + ('left',), out)
        _source_rules(node['right'], universe, path + ('right',), out)
        cond = node.get('cond')
        if node['kind'] == 'cross' and cond is not None:
            out.append(('join:cross-cond', path))
        if node['kind'] != 'cross' and cond is None:
            out.append(('join:no-cond', path))
        if cond is not None:
            scope = dict(A.scope_of(node['left']))
            scope.update(A.scope_of(node['right']))
            full = collections.ChainMap(scope, universe)
            _feature_kind_rules(cond, full, path + ('cond',), out)
            if _kind(cond, full) != 'bool':
                out.append(('bool:join', path + ('cond',)))
            if A.has_agg(cond):
                out.append(('agg:join', path + ('cond',)))
            if _foreign(cond, scope):
                out.append(('scope:join', path + ('cond',)))
        return
    if t == 'query':
        _source_rules(node['src'], universe, path + ('src',), out)
        scope = A.scope_of(node['src'])
        full = collections.ChainMap(scope, universe)
        select = node.get('select') or []
        for i, f in enumerate(select):
            _feature_kind_rules(f, full, path + ('select', i), out)
        for i, f in enumerate(select):
            if _foreign(f, scope):
                out.append(('scope:select', path + ('select', i)))
        where = node.get('where')
        if where is not None:
            _feature_kind_rules(where, full, path + ('where',), out)
            if _foreign(where, scope):
                out.append(('scope:where', path + ('where',)))
            if _kind(where, full) != 'bool':
                out.append(('bool:where', path + ('where',)))
            if A.has_agg(where):
                out.append(('agg:where', path + ('where',)))
        groupby = node.get('groupby') or []
        for i, f in enumerate(groupby):
            _feature_kind_rules(f, full, path + ('groupby', i), out)
        for i, f in enumerate(groupby):
            if A.has_agg(f):
                out.append(('agg:groupby', path + ('groupby', i)))
            if _foreign(f, scope):
                out.append(('scope:groupby', path + ('groupby', i)))
        if groupby:
            keys = [A.strip_alias(g) for g in groupby]
            selected = [A.strip_alias(f) for f in select] if select else A.features_of(node['src'])
            for i, f in enumerate(selected):
                if f not in keys and not A.has_agg(f):
                    out.append(('group:select', path + (('select', i) if select else ())))
        having = node.get('having')
        if having is not None:
            _feature_kind_rules(having, full, path + ('having',), out)
            if _foreign(having, scope):
                out.append(('scope:having', path + ('having',)))
            if _kind(having, full) != 'bool':
                out.append(('bool:having', path + ('having',)))
            if A.has_win(having):
                out.append(('win:having', path + ('having',)))
        for i, term in enumerate(node.get('orderby') or []):
            _feature_kind_rules(term[0], full, path + ('orderby', i, 0), out)
        for i, term in enumerate(node.get('orderby') or []):
            if _foreign(term[0], scope):
                out.append(('scope:orderby', path + ('orderby', i, 0)))
        return
    raise ValueError(f'unknown source {t}')


def violations(node) -> list:
    """All ``(rule id, path)`` violations of a statement (or any source) AST in construction order."""
    out = []
    _source_rules(node, _universe(node), (), out)
    return out


def check(node):
    """None for a conforming statement, else the id of the first violated rule."""
    found = violations(node)
    return found[0][0] if found else None


def schema_of(node) -> list:
    """Expected output schema ``[(name | None, kind | 'num')]`` of a conforming statement."""
    feats = A.features_of(node)
    kinds = [k for _, k in A.outputs_of(node)]
    out = []
    for f, k in zip(feats, kinds):
        loose = k in A.NUMERIC and _loose(node, f)
        out.append((A.name_of(f), 'num' if loose else k))
    return out


def _loose(node, feature) -> bool:
    """Loose numeric kind of an output feature; an element of a reference inherits it from the referenced output."""
    if A.is_loose_numeric(feature):
        return True
    f = A.strip_alias(feature)
    if f['f'] == 'elem':
        refs = A.refs_of(node)
        ref = refs.get(f['ref'])
        if ref is not None:
            for inner in A.features_of(ref['src']):
                if A.name_of(inner) == f['name']:
                    return _loose(ref['src'], inner)
    return False
