"""Structural analysis of statement ASTs for C06 / C14: table scans and the columns a query uses of each, trigger tags
of the known parser defects (used for narrow bucket keys and for the *clean* campaigns that exclude those shapes by
construction), engine-dependent constructs.

Everything here is computed from the JSON AST only.
"""
from . import ast as A
from . import refeval
from .catalog_data import TABLES
from .strategies import COLLIDING


# ---- scans and column usage ----------------------------------------------------------------------------------------------
def _origin_leaves(origin, out):
    """Table / reference leaves of a join tree (not descending into nested statements)."""
    t = origin['t']
    if t == 'join':
        _origin_leaves(origin['left'], out)
        _origin_leaves(origin['right'], out)
    else:
        out.append(origin)


def _joins(origin, out):
    if origin['t'] == 'join':
        _joins(origin['left'], out)
        _joins(origin['right'], out)
        out.append(origin)


def queries(stmt) -> list:
    """All query nodes of the statement (any nesting), pre-order."""
    return [n for n in A.walk(stmt) if n.get('t') == 'query']


def clause_features(query) -> list:
    """``[(clause, feature)]`` of everything a query evaluates over its source: select (all source features for a
    select-star), where, groupby, having, orderby and the conditions of the joins of its own join tree
    (``join-eq`` for a bare equality condition, ``join`` otherwise)."""
    out = []
    for f in query.get('select') or A.features_of(query['src']):
        out.append(('select', f))
    if query.get('where') is not None:
        out.append(('where', query['where']))
    for f in query.get('groupby') or []:
        out.append(('groupby', f))
    if query.get('having') is not None:
        out.append(('having', query['having']))
    for f, _ in query.get('orderby') or []:
        out.append(('orderby', f))
    joins = []
    _joins(query['src'], joins)
    for j in joins:
        if j.get('cond') is not None:
            out.append(('join-eq' if is_bare_eq(j['cond']) else 'join', j['cond']))
    return out


def is_bare_eq(cond) -> bool:
    return cond['f'] == 'cmp' and cond['op'] == 'eq'


def scan_infos(stmt) -> list:
    """One dict per table scan, in the parser's visiting order (``refeval.scans``):
    ``{'table', 'ref' (name of the reference wrapping the table or None), 'query' (the enclosing query node),
    'used': {column name: sorted clause names}}``."""
    infos = []
    by_id = {}
    for q in queries(stmt):
        leaves = []
        _origin_leaves(q['src'], leaves)
        for leaf in leaves:
            if leaf['t'] == 'table':
                by_id[id(leaf)] = (q, None)
            elif leaf['t'] == 'ref' and leaf['src']['t'] == 'table':
                by_id[id(leaf['src'])] = (q, leaf['name'])
    for _, node in refeval.scans(stmt):
        q, refname = by_id[id(node)]
        used = {}
        for clause, feature in clause_features(q):
            for leaf in A.elements_of(feature):
                if refname is None and leaf['f'] == 'col' and leaf['table'] == node['name']:
                    used.setdefault(leaf['name'], set()).add(clause)
                elif refname is not None and leaf['f'] == 'elem' and leaf['ref'] == refname:
                    used.setdefault(leaf['name'], set()).add(clause)
        infos.append({'table': node['name'], 'ref': refname, 'query': q, 'used': {k: sorted(v) for k, v in sorted(used.items())}})
    return infos


def used_columns(stmt) -> dict:
    """``table -> set(column)`` of every catalog column the statement uses anywhere, whatever the path (directly,
    through a reference of the table, through a select-star)."""
    out = {}
    for info in scan_infos(stmt):
        out.setdefault(info['table'], set()).update(info['used'])
    return out


# ---- model of which filters the parser registers (for trigger tags only, never for a verdict) ----------------------------
def _hash_equal(l, r) -> bool:
    if l == r:
        return True
    if l.get('f') == 'lit' and r.get('f') == 'lit' and l['kind'] == r['kind']:
        return any({l['v'], r['v']} == set(pair) and type(l['v']) is type(r['v']) for pair in COLLIDING.get(l['kind'], []))
    return False


def registered_filters(query) -> list:
    """``[(clause, predicate)]`` a query context registers with ``Context.Tables.filter``: its where-condition and the
    join conditions that are truthy in python (a bare ``==`` is truthy only for hash-equal operands)."""
    out = []
    if query.get('where') is not None:
        out.append(('where', query['where']))
    joins = []
    _joins(query['src'], joins)
    for j in joins:
        c = j.get('cond')
        if c is not None:  # every join condition is registered (fix commit 7e9285a)
            out.append(('join', c))
    return out


def direct_tables(pred) -> set:
    return {n['table'] for n in A.walk(pred) if n.get('f') == 'col'}


def has_elem(pred) -> bool:
    return any(n.get('f') == 'elem' for n in A.walk(pred))


_LEAF_PREDS = ('cmp', 'isnull', 'notnull')


def factor_keys(pred, found: set) -> set:
    """Tables for which ``pred.factors`` would hold a factor; trigger tags are added to ``found``."""
    f = pred['f']
    if f in _LEAF_PREDS:
        tabs = direct_tables(pred)
        if len(tabs) == 1:
            if has_elem(pred):
                found.add('mixed-table-ref')
            return tabs
        return set()
    if f == 'not':
        return factor_keys(pred['x'], found)
    if f in ('and', 'or'):
        left, right = factor_keys(pred['l'], found), factor_keys(pred['r'], found)
        if right - left:
            found.add('factors-asym')
        if f == 'or' and left != right:
            found.add('or-one-sided')
        return left | right
    found.add('bool-leaf-pred')  # column / element / literal / cast used as a predicate: has no ``.factors``
    return set()


def triggers(stmt) -> set:
    """Trigger tags of the known defects present in the statement.

    ``not``              any negation (alchemy maps ``Not`` to ``operator.not_``)
    ``not-eq``           negation of a bare ``== / !=`` (evaluates to a python bool instead of raising)
    ``factors-asym``     a registered filter holds an and/or whose right side has a single-table factor the left lacks
    ``or-one-sided``     a registered filter holds an ``or`` whose sides have factors of different tables
    ``mixed-table-ref``  a registered filter holds a comparison over exactly one direct table plus reference elements
    ``bool-leaf-pred``   a registered filter holds a non-predicate boolean operand
    ``filter-not``       a registered filter holds a negation
    ``cross-join``       cross join
    ``eq-join-statement-refs`` join on a bare equality between elements of two references of nested statements (its python
                         truth value compares the nested statements recursively)
    ``direct-query-over-set`` a query directly over a set operation (not through a reference)
    ``star-over-ref-set`` select-all over a reference of a set operation (``Set.features`` lists both operands' features)
    ``abs``              ``function.Abs`` (alchemy maps it to ``operator.abs`` which SQLAlchemy elements do not implement)
    ``ref-table``        reference of a table (scanned with the hints of the table's own segment)
    ``shared-segment``   a table is scanned twice within one query context (directly and through references)
    ``outer-on-factor``  outer join whose registered condition has a single-table factor
    ``eq-join``          join on a bare equality (its columns are not registered)
    """
    found = set()
    refs = A.refs_of(stmt)
    for n in A.walk(stmt):
        if n.get('t') == 'join' and n.get('cond') is not None and is_bare_eq(n['cond']):
            names = {x['ref'] for x in A.walk(n['cond']) if x.get('f') == 'elem'}
            if sum(1 for r in names if r in refs and refs[r]['src']['t'] in ('query', 'set')) >= 2:
                found.add('eq-join-statement-refs')
        if n.get('f') == 'not':
            found.add('not')
            if n['x'].get('f') == 'cmp' and n['x']['op'] in ('eq', 'ne'):
                found.add('not-eq')
        if n.get('f') == 'abs':
            found.add('abs')
        if n.get('t') == 'join':
            if n['kind'] == 'cross':
                found.add('cross-join')
            elif n.get('cond') is not None and is_bare_eq(n['cond']) and not _hash_equal(n['cond']['l'], n['cond']['r']):
                found.add('eq-join')
        if n.get('t') == 'ref' and n['src']['t'] == 'table':
            found.add('ref-table')
        if n.get('t') == 'query' and n['src']['t'] == 'set':
            found.add('direct-query-over-set')
        if n.get('t') == 'query' and not n.get('select'):
            leaves = []
            _origin_leaves(n['src'], leaves)
            if any(x['t'] == 'ref' and x['src']['t'] == 'set' for x in leaves):
                found.add('star-over-ref-set')
    for q in queries(stmt):
        for clause, pred in registered_filters(q):
            keys = factor_keys(pred, found)
            if any(n.get('f') == 'not' for n in A.walk(pred)):
                found.add('filter-not')
            if clause == 'join' and keys:
                joins = []
                _joins(q['src'], joins)
                for j in joins:
                    if j.get('cond') is pred and j['kind'] in ('left', 'right', 'full'):
                        found.add('outer-on-factor')
        leaves = []
        _origin_leaves(q['src'], leaves)
        names = [x['name'] if x['t'] == 'table' else x['src']['name'] for x in leaves if x['t'] == 'table' or (x['t'] == 'ref' and x['src']['t'] == 'table')]
        if len(set(names)) < len(names):
            found.add('shared-segment')
    return found


# ---- exact attribution of unsafe row filters (C14) -----------------------------------------------------------------------------
CAUSES = ('shared-segment',)


def factor_safety(pred, table):
    """How the factor ``pred.factors[table]`` relates to the rows of ``table`` that can pass ``pred``:
    None = no factor for the table, 'safe' = implied by the predicate.

    Models the factorisation as repaired by the fix commits a06392b (a comparison involving anything but the one table is
    no factor), 4d05a86 (a negation is a factor only as a whole), d6e5ea9 (a disjunction restricts a table only if both
    sides do): every factor that is produced is implied by the predicate."""
    f = pred['f']
    if f in _LEAF_PREDS:
        if direct_tables(pred) != {table} or has_elem(pred):
            return None
        return 'safe'
    if f == 'not':
        return 'safe' if direct_tables(pred) == {table} and not has_elem(pred) else None
    if f in ('and', 'or'):
        left, right = factor_safety(pred['l'], table), factor_safety(pred['r'], table)
        if left is None and right is None:
            return None
        if f == 'or' and (left is None or right is None):
            return None
        return 'safe'
    return None


def factor_of(pred, table):
    """The factor ``pred.factors[table]`` as an AST (None = no factor), same rules as ``factor_safety``."""
    f = pred['f']
    if f in _LEAF_PREDS or f == 'not':
        return pred if direct_tables(pred) == {table} and not has_elem(pred) else None
    if f in ('and', 'or'):
        left, right = factor_of(pred['l'], table), factor_of(pred['r'], table)
        if f == 'or':
            return None if left is None or right is None else {'f': 'or', 'l': left, 'r': right}
        if left is None or right is None:
            return left if right is None else right
        return {'f': 'and', 'l': left, 'r': right}
    return None


class _AllNull(dict):
    def __missing__(self, key):
        return None


def null_satisfied(factor) -> bool:
    """Does the factor hold on the all-NULL row (the NULL extension of an outer join)? Falls back to the syntactic
    test (some null test in it) if the reference evaluator cannot judge it."""
    try:
        return refeval._Eval(_AllNull()).value(factor, _AllNull()) is True  # pylint: disable=protected-access
    except Exception:  # pylint: disable=broad-except
        return any(n.get('f') in ('isnull', 'notnull') for n in A.walk(factor))


def _registered_with_joins(query) -> list:
    out = []
    if query.get('where') is not None:
        out.append(('where', query['where'], None))
    joins = []
    _joins(query['src'], joins)
    for j in joins:
        c = j.get('cond')
        if c is not None:
            out.append(('join', c, j))
    return out


def _has_direct_table(origin, table) -> bool:
    leaves = []
    _origin_leaves(origin, leaves)
    return any(x['t'] == 'table' and x['name'] == table for x in leaves)


def scan_factor_causes(stmt) -> list:
    """Per table scan (visiting order): the list of 'safe' / cause entries, one per registered filter of the enclosing
    query that yields a factor for the scan's table. The offered filter is the *disjunction* of those factors, so it is
    safe as soon as one entry is 'safe'; with only unsafe entries a contributing row may legitimately be lost through
    the named known defect."""
    out = []
    for info in scan_infos(stmt):
        table, entries = info['table'], []
        for clause, pred, join in _registered_with_joins(info['query']):
            if join is not None and join['kind'] != 'inner':
                continue  # the condition of an outer join only registers its columns (fix commit 99a7508)
            safety = factor_safety(pred, table)
            if safety is None:
                continue
            if info['ref'] is not None:
                safety = 'shared-segment'  # factors are about the directly queried table, never about its reference
            elif safety == 'safe' and join is None and _null_supplied(info['query']['src'], table) and null_satisfied(
                factor_of(pred, table)
            ):
                safety = 'null-side-isnull'  # implied for contributing rows, yet dropping others un-matches preserved rows
            entries.append(safety)
        out.append(entries)
    return out


def _null_supplied(origin, table) -> bool:
    """Is the directly queried table on the NULL-supplying side of some outer join of the join tree?"""
    joins = []
    _joins(origin, joins)
    for j in joins:
        # a cross join counts as full: alchemy.Parser emits it as FULL OUTER JOIN ON true (C06 finding)
        sides = {'left': [j['right']], 'right': [j['left']], 'full': [j['left'], j['right']], 'cross': [j['left'], j['right']]}.get(j['kind'], [])
        if any(_has_direct_table(side, table) for side in sides):
            return True
    return False


def unsafe_cause(entries) -> list:
    """[] when every contributing row must satisfy the offered filter (no factor, or a safe one among them), else
    [cause] by precedence."""
    if not entries or 'safe' in entries or 'null-side-isnull' in entries:
        return []
    for cause in CAUSES:
        if cause in entries:
            return [cause]
    return []


# ---- engine dependent constructs -------------------------------------------------------------------------------------------
def engine_dependent(stmt) -> set:
    """Constructs whose SQL meaning (or acceptance) differs between engines; a statement carrying one is compared
    three-way and a disagreement of the engines is not a verdict (DESIGN 2.3).

    ``cast``  every cast but int->float (float->int rounds on DuckDB and truncates on SQLite, text conversions and date
              casts differ, ``CAST(x AS FLOAT)`` is 32 bit on DuckDB); ``year`` (no such SQLite function); ``floor/ceil``
              (SQLAlchemy's SQLite floor is a python function that raises on NULL); ``big-arith`` arithmetic / aggregate
              over a literal beyond 32 bit (overflow is an error on DuckDB, a float on SQLite); ``lit-group-key`` literal in a
              grouping or ordering expression (every literal is a separate bind parameter: DuckDB cannot match the
              select item with the key); ``set-operand-order`` ordering or limit inside a set operand (SQLite has no
              parenthesised compound operands); ``having-no-group`` having without grouping over non-aggregates (no SQL
              denotation; both engines reject it); ``full-join`` FULL OUTER JOIN (new in SQLite 3.39; SQLite 3.40 was observed
              to return no rows for ``(D JOIN C ON .. AND <constant false>) FULL OUTER JOIN A ON ..`` where DuckDB and the
              reference agree on the NULL-extended rows of A)."""
    found = set()
    for n in A.walk(stmt):
        f, t = n.get('f'), n.get('t')
        if f == 'cast':
            found.add('cast')
        elif f == 'year':
            found.add('year')
        elif f in ('floor', 'ceil'):
            found.add('floor-ceil')
        elif f in ('arith', 'agg'):
            if any(x.get('f') == 'lit' and x['kind'] in ('int', 'float') and abs(x['v']) > 2**31 for x in A.walk(n)):
                found.add('big-arith')
        elif t == 'join' and n['kind'] == 'full':
            found.add('full-join')
        elif t == 'set':
            for side in (n['left'], n['right']):
                if side['t'] == 'query' and (side.get('orderby') or side.get('limit') is not None):
                    found.add('set-operand-order')
                if side['t'] == 'set':
                    found.add('set-operand-set')
        elif t == 'query':
            if n.get('having') is not None and not n.get('groupby') and not A.has_agg(n['having']):
                found.add('having-no-group')
            keys = list(n.get('groupby') or []) + [o for o, _ in n.get('orderby') or []]
            if n.get('groupby') and any(x.get('f') == 'lit' for k in keys for x in A.walk(k)):
                found.add('lit-group-key')
    return found


def tables_without_columns(stmt) -> list:
    """Catalog tables the statement scans without using any of their columns anywhere (e.g. only literals selected)."""
    used = used_columns(stmt)
    return sorted(t for t in A.tables_of(stmt) if not used.get(t))


def nontrivial_c06(stmt) -> bool:
    """C06 rule: the statement contains a join, a nested statement, a set operation, grouping or a two-table predicate."""
    for n in A.walk(stmt):
        if n.get('t') in ('join', 'set'):
            return True
        if n.get('t') == 'ref' and n['src']['t'] in ('query', 'set'):
            return True
        if n.get('t') == 'query' and n.get('groupby'):
            return True
    return False


__all__ = ['scan_infos', 'used_columns', 'triggers', 'engine_dependent', 'queries', 'clause_features', 'TABLES']
