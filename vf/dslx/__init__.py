"""dslx - shared DSL statement generator, builder and well-formedness oracle (DESIGN.md section 2.3).

Modules
-------
catalog     importable ``dsl.Schema`` tables (A, B, C, D and the twin E) + re-export of the plain-data ``TABLES``
catalog_data  the plain-data side alone (``TABLES``, ``DEFAULT_TABLES``, ``ATTRS``) - what oracles import
ast         JSON AST documentation and pure helpers (walk/size/tables_of/kind_of/outputs_of/scope_of)
build       JSON AST -> real forml DSL objects through the public API (fresh objects every call)
wellformed  independent well-formedness oracle over the JSON AST (C07 rules) + expected output schema
strategies  Hypothesis strategies: well-formed statements, single-rule mutants, single-leaf edits, shape classifier;
            all driven by a byte-string ``Chooser`` (``gen_statement`` / ``gen_mutant`` / ``gen_edit`` are the pure functions)

Only ``catalog`` and ``build`` import forml; ``catalog_data``, ``ast``, ``wellformed`` and ``strategies`` are pure data code.
"""
