"""dslx - shared DSL statement generator, builder and well-formedness oracle (DESIGN.md section 2.3).

Modules
-------
catalog     importable ``dsl.Schema`` tables + the plain-data ``TABLES`` description used by oracles
ast         JSON AST documentation and pure helpers (walk/size/tables_of/kind_of/outputs_of/scope_of)
build       JSON AST -> real forml DSL objects through the public API (fresh objects every call)
wellformed  independent well-formedness oracle over the JSON AST (C07 rules) + expected output schema
strategies  Hypothesis strategies: well-formed statements, single-rule mutants, single-leaf edits, shape classifier

Only ``catalog`` and ``build`` import forml; ``ast``, ``wellformed`` and ``strategies`` are pure data code.
"""
