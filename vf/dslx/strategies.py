"""Hypothesis strategies producing statement ASTs (see ``vf.dslx.ast`` for the node format).

``statements(max_source_depth=3, max_expr_depth=4, profile='full')``
    statements that are well-formed *by construction*: typed, scope aware (only elements of the current source),
    boolean predicates, aggregates only where allowed, kind-compatible operands, equal set schemas, unique *named*
    references, unique alias names.
``mutants(ast)``
    single-rule violations of a well-formed AST at one position: ``{'ast', 'rule', 'path', 'how'}`` (or None when no
    site applies). Every candidate is re-checked with ``wellformed.violations`` and kept only when the intended rule is
    the only one violated, so mutants are single-rule by verification, not by hope.
``edits(ast)``
    single-leaf edits of a well-formed AST that stay well-formed: ``{'ast', 'edit'}`` (or None).
``features(ast)``
    the set of shape tags of a statement (histogram classes / trigger tags).

Profiles (``PROFILES``): ``full`` everything forml lets a statement contain; ``semantic`` the engine-independent
subset meant for differential execution (no windows, no unnamed outputs, no integer ``/`` or ``%``, no literal-only or
bare-boolean-column predicates, no select-star over colliding names); ``identity`` like full without windows (their
ordering is a generator object - neither picklable nor comparable) and with the twin table ``E``.

Shapes *never* generated, because forml is stricter than (or silent about) the documented grammar there and the
property gives no verdict: date compared with timestamp, min/max/sum/avg/abs/ceil/floor of a non-numeric, ``year`` of
a non-date, windows inside where/groupby/join conditions or in grouped queries, queries directly over a query or a
set (always through a named reference), anonymous references, reference of a reference, alias of an alias,
duplicate output names within one selection.
"""
import copy

from hypothesis import strategies as st

from . import ast as A
from . import wellformed
from .catalog_data import DEFAULT_TABLES, TABLES

LITERALS = {
    'int': [-1, -2, 0, 2**61 - 1, 1, 2, 3, 5, 10],
    'float': [-1.0, -2.0, 0.5, 1.5, 2.0, 0.0],
    'str': ['a', 'b', 'x', ''],
    'bool': [True, False],
    'date': ['2020-01-01', '2021-06-15'],
    'timestamp': ['2020-01-01T00:00:00', '2021-06-15T12:30:00'],
}
#: literal values whose python hashes collide
COLLIDING = {'int': [(-1, -2), (0, 2**61 - 1)], 'float': [(-1.0, -2.0)]}

PROFILES = {
    'full': {
        'tables': DEFAULT_TABLES,
        'windows': True,
        'p_unnamed': 0.10,  # unaliased expression in a selection
        'p_bare_proxy': 0.5,  # of the unnamed ones: allow a bare ==/< comparison (else only other expressions)
        'int_div_mod': True,
        'loose': True,  # avg / division
        'lit_pred': True,
        'bool_col_pred': True,
        'star_dups': True,
        'collide_bias': 0.35,
    },
    'semantic': {
        'tables': DEFAULT_TABLES,
        'windows': False,
        'p_unnamed': 0.0,
        'p_bare_proxy': 0.0,
        'int_div_mod': False,
        'loose': True,
        'lit_pred': False,
        'bool_col_pred': False,
        'star_dups': False,
        'collide_bias': 0.2,
    },
    'identity': {
        'tables': ('A', 'B', 'C', 'D', 'E'),
        'windows': False,
        'p_unnamed': 0.04,
        'p_bare_proxy': 0.0,
        'int_div_mod': True,
        'loose': True,
        'lit_pred': True,
        'bool_col_pred': True,
        'star_dups': True,
        'collide_bias': 0.5,
    },
}


class Chooser:
    """Source of decisions. ``ByteChooser`` consumes a Hypothesis-drawn byte string (one draw per statement instead of
    ~100: 20x faster generation, honest weights, and Hypothesis still shrinks - towards zero bytes, which every method
    maps to its *first / simplest* option); ``DrawChooser`` draws every decision from Hypothesis individually."""

    def byte(self) -> int:
        raise NotImplementedError

    def pct(self, p: float) -> bool:
        return self.byte() >= 256 - int(round(p * 256))

    def int(self, lo: int, hi: int) -> int:
        return lo + self.byte() % (hi - lo + 1)

    def bool(self) -> bool:
        return self.byte() >= 128

    def pick(self, seq):
        seq = list(seq)
        return seq[self.byte() % len(seq)]

    def weighted(self, options):
        """options: [(weight, value)] -> value (weights are relative; resolution 1/256 per byte, two bytes used)."""
        options = [(w, v) for w, v in options if w > 0]
        total = sum(w for w, _ in options)
        r = ((self.byte() << 8) | self.byte()) * total // 65536
        for w, v in options:
            if r < w:
                return v
            r -= w
        return options[-1][1]


class ByteChooser(Chooser):
    def __init__(self, data: bytes):
        self.data = data
        self.pos = 0

    def byte(self) -> int:
        if self.pos < len(self.data):
            value = self.data[self.pos]
            self.pos += 1
            return value
        return 0


class DrawChooser(Chooser):
    def __init__(self, draw):
        self.draw = draw

    def byte(self) -> int:
        return self.draw(st.integers(0, 255))


def _twin(kind, value):
    for a, b in COLLIDING.get(kind, []):
        if value == a and type(value) is type(a):
            return b
        if value == b and type(value) is type(b):
            return a
    return None


def _elems(src) -> list:
    """``[(element feature, kind)]`` of an origin usable by features of a query over it (named outputs only)."""
    return [(f, k) for f, (n, k) in zip(A.features_of(src), A.outputs_of(src)) if n is not None]


class _Gen:
    """One statement's generation state (all randomness through ``draw``)."""

    def __init__(self, chooser, profile, max_source_depth, max_expr_depth):
        self.ch = chooser
        self.p = dict(PROFILES[profile]) if isinstance(profile, str) else dict(PROFILES['full'], **profile)
        self.max_source_depth = max_source_depth
        self.max_expr_depth = max_expr_depth
        self.n_ref = 0
        self.n_alias = 0
        self.n_sig = 0

    # -- primitives ---------------------------------------------------------------------------------------------
    def pct(self, p: float) -> bool:
        return self.ch.pct(p)

    def pick(self, seq):
        return self.ch.pick(seq)

    def weighted(self, options):
        return self.ch.weighted(options)

    def ref_name(self):
        self.n_ref += 1
        return f'r{self.n_ref}'

    def alias_name(self):
        self.n_alias += 1
        return f'c{self.n_alias}'

    # -- literals -------------------------------------------------------------------------------------------------
    def literal(self, kind):
        pool = LITERALS[kind]
        if kind in COLLIDING and self.pct(self.p['collide_bias']):
            pool = [v for pair in COLLIDING[kind] for v in pair]
        return A.lit(self.pick(pool), kind)

    # -- expressions -------------------------------------------------------------------------------------------------
    def leaf(self, kind, elems, p_elem=0.85):
        cands = [f for f, k in elems if k == kind]
        if cands and self.pct(p_elem):
            return copy.deepcopy(self.pick(cands))
        return self.literal(kind)

    def numeric(self, elems, depth, prefer=None):
        kind = prefer or self.pick(['int', 'int', 'float'])
        return self.expr(kind, elems, depth)

    def expr(self, kind, elems, depth, agg=False):
        """Non-aggregate (unless ``agg``) expression of the given kind over the elements."""
        if agg:
            return self.agg_expr(kind, elems, depth)
        if kind == 'bool':
            return self.pred(elems, depth)
        if depth <= 0:
            return self.leaf(kind, elems)
        has = {k for _, k in elems}
        if kind == 'int':
            choice = self.weighted(
                [
                    (50, 'leaf'),
                    (24, 'arith'),
                    (4, 'abs'),
                    (5 if 'float' in has else 1, 'round'),
                    (5 if has & {'date', 'timestamp'} else 0, 'year'),
                    (4, 'cast'),
                ]
            )
            if choice == 'arith':
                ops = ['add', 'sub', 'mul'] + (['mod'] if self.p['int_div_mod'] else [])
                op = self.pick(ops)
                left = self.expr('int', elems, depth - 1)
                right = self.literal('int') if self.pct(0.6) else self.expr('int', elems, depth - 1)
                if op == 'mod':
                    right = A.lit(self.pick([2, 3, 5]), 'int')
                return A.arith(op, left, right)
            if choice == 'abs':
                return A.unary('abs', self.expr('int', elems, depth - 1))
            if choice == 'round':
                return A.unary(self.pick(['ceil', 'floor']), self.expr('float', elems, depth - 1))
            if choice == 'year':
                cands = [f for f, k in elems if k in ('date', 'timestamp')]
                return A.unary('year', copy.deepcopy(self.pick(cands)))
            if choice == 'cast':
                return A.cast(self.expr(self.pick(['float', 'str', 'int']), elems, depth - 1), 'int')
            return self.leaf('int', elems)
        if kind == 'float':
            choice = self.weighted([(50, 'leaf'), (32, 'arith'), (5, 'abs'), (5, 'cast')])
            if choice == 'arith':
                ops = ['add', 'sub', 'mul'] + (['div'] if self.p['loose'] else [])
                op = self.pick(ops)
                left = self.expr('float', elems, depth - 1)
                if op == 'div':
                    right = A.lit(self.pick([2.0, 0.5, -2.0, 4.0]), 'float')
                else:
                    right = self.expr(self.pick(['float', 'int']), elems, depth - 1)
                    if self.pct(0.3):
                        left, right = right, left
                return A.arith(op, left, right)
            if choice == 'abs':
                return A.unary('abs', self.expr('float', elems, depth - 1))
            if choice == 'cast':
                return A.cast(self.expr(self.pick(['int', 'str']), elems, depth - 1), 'float')
            return self.leaf('float', elems)
        if kind == 'str':
            if self.pct(0.12):
                return A.cast(self.expr(self.pick(['int', 'float']), elems, depth - 1), 'str')
            return self.leaf('str', elems)
        if kind in ('date', 'timestamp'):
            other = 'timestamp' if kind == 'date' else 'date'
            cands = [f for f, k in elems if k == other]
            if cands and self.pct(0.12):
                return A.cast(copy.deepcopy(self.pick(cands)), kind)
            return self.leaf(kind, elems)
        raise ValueError(kind)

    def agg_expr(self, kind, elems, depth):
        """Expression of the kind that contains an aggregate (kind int or float only)."""
        if kind == 'int':
            choice = self.weighted([(40, 'count'), (40, 'fn'), (20 if depth > 0 else 0, 'arith')])
            if choice == 'count':
                cands = [f for f, _ in elems]
                arg = copy.deepcopy(self.pick(cands)) if cands else self.literal('int')
                return A.agg('count', arg)
            if choice == 'fn':
                return A.agg(self.pick(['sum', 'min', 'max']), self.expr('int', elems, min(depth - 1, 1)))
            return A.arith(self.pick(['add', 'sub', 'mul']), self.agg_expr('int', elems, depth - 1), self.literal('int'))
        fns = ['sum', 'min', 'max'] + (['avg'] if self.p['loose'] else [])
        choice = self.weighted([(75, 'fn'), (25 if depth > 0 else 0, 'arith')])
        if choice == 'fn':
            return A.agg(self.pick(fns), self.expr('float', elems, min(depth - 1, 1)))
        return A.arith(self.pick(['add', 'sub', 'mul']), self.agg_expr('float', elems, depth - 1), self.literal('float'))

    def atom(self, elems, depth, agg=False):
        has = {k for _, k in elems}
        sub = max(depth - 1, 0)
        choice = self.weighted(
            [
                (50, 'num'),
                (12 if 'str' in has else 2, 'str'),
                (6 if 'bool' in has else 0, 'bool'),
                (6 if has & {'date', 'timestamp'} else 0, 'date'),
                (9 if elems else 0, 'null'),
                (4 if 'bool' in has and self.p['bool_col_pred'] and not agg else 0, 'boolcol'),
                (3 if self.p['lit_pred'] else 0, 'litpred'),
            ]
        )
        op = self.pick(A.CMP_OPS)
        if agg and self.pct(0.7):
            kind = self.pick(['int', 'float'])
            return A.cmp(op, self.agg_expr(kind, elems, min(sub, 1)), self.literal(self.pick(['int', 'float'])))
        if choice == 'num':
            left = self.numeric(elems, sub)
            if not self.p['lit_pred'] and not A.elements_of(left):
                left = self.leaf(self.pick(['int', 'float']), elems, 1.0)
            right = self.literal(self.pick(['int', 'float'])) if self.pct(0.5) else self.numeric(elems, sub)
            return A.cmp(op, left, right)
        if choice == 'str':
            return A.cmp(op, self.leaf('str', elems, 0.9 if self.p['lit_pred'] else 1.0), self.leaf('str', elems, 0.35))
        if choice == 'bool':
            return A.cmp(self.pick(['eq', 'ne']), self.leaf('bool', elems, 0.95), self.literal('bool'))
        if choice == 'date':
            kind = self.pick(sorted(has & {'date', 'timestamp'}))
            return A.cmp(op, self.leaf(kind, elems, 0.95), self.leaf(kind, elems, 0.3))
        if choice == 'null':
            return A.unary(self.pick(['isnull', 'notnull']), copy.deepcopy(self.pick([f for f, _ in elems])))
        if choice == 'boolcol':
            return copy.deepcopy(self.pick([f for f, k in elems if k == 'bool']))
        kind = self.pick(['int', 'float', 'str'])
        return A.cmp(op, self.literal(kind), self.literal(kind))

    def pred(self, elems, depth, agg=False):
        """Boolean predicate; ``agg`` = aggregates allowed and likely (having)."""
        if depth <= 0:
            return self.atom(elems, 0, agg)
        choice = self.weighted([(46, 'atom'), (22, 'and'), (17, 'or'), (15, 'not')])
        if choice == 'atom':
            return self.atom(elems, depth, agg)
        if choice == 'not':
            return A.not_(self.pred(elems, depth - 1, agg))
        left, right = self.pred(elems, depth - 1, agg), self.pred(elems, depth - 1, agg)
        return A.and_(left, right) if choice == 'and' else A.or_(left, right)

    # -- sources -------------------------------------------------------------------------------------------------
    def table(self, avoid=()):
        names = [t for t in self.p['tables'] if t not in avoid] or list(self.p['tables'])
        weights = {'A': 4, 'B': 3, 'C': 2, 'D': 1, 'E': 1}
        return A.table(self.weighted([(weights.get(t, 1), t) for t in names]))

    def simple_origin(self, depth, avoid=()):
        """table | ref(table) | ref(query) | ref(set)."""
        choice = self.weighted(
            [(70, 'table'), (6, 'reftable'), (18 if depth >= 1 else 0, 'refquery'), (6 if depth >= 1 else 0, 'refset')]
        )
        if choice == 'table':
            return self.table(avoid)
        if choice == 'reftable':
            return A.ref(self.table(avoid), self.ref_name())
        if choice == 'refquery':
            return A.ref(self.query(depth - 1, nested=True), self.ref_name())
        return A.ref(self.setop(depth - 1), self.ref_name())

    def join(self, depth, levels=2):
        left = self.join(depth, levels - 1) if levels > 1 and self.pct(0.25) else self.simple_origin(depth)
        used = A.tables_of(left)
        if self.pct(0.32):  # self-join through a named reference of a table already on the left side
            tabs = [n['name'] for n in A.walk(left) if n.get('t') == 'table' and self._is_direct_table(left, n['name'])]
            right = A.ref(A.table(self.pick(tabs)), self.ref_name()) if tabs else A.ref(self.table(), self.ref_name())
        else:
            right = self.simple_origin(depth, avoid=used)
            if right['t'] == 'table' and right['name'] in self._direct_tables(left):
                right = A.ref(right, self.ref_name())
        kind = self.weighted([(42, 'inner'), (20, 'left'), (10, 'right'), (12, 'full'), (16, 'cross')])
        cond = None
        if kind != 'cross':
            cond = self.join_cond(_elems(left), _elems(right))
        return A.join(left, right, kind, cond)

    @staticmethod
    def _direct_tables(origin) -> list:
        """Tables that are join operands as such (not wrapped in a reference / query)."""
        if origin['t'] == 'table':
            return [origin['name']]
        if origin['t'] == 'join':
            return _Gen._direct_tables(origin['left']) + _Gen._direct_tables(origin['right'])
        return []

    def _is_direct_table(self, origin, name) -> bool:
        return name in self._direct_tables(origin)

    def join_cond(self, lel, rel):
        lint = [f for f, k in lel if k == 'int']
        rint = [f for f, k in rel if k == 'int']
        both = lel + rel
        if lint and rint:
            op = self.weighted([(80, 'eq'), (6, 'le'), (5, 'lt'), (5, 'ge'), (4, 'ne')])
            base = A.cmp(op, copy.deepcopy(self.pick(lint)), copy.deepcopy(self.pick(rint)))
            if self.pct(0.5):
                base['l'], base['r'] = base['r'], base['l']
        else:
            base = self.pred(both, 1)
        extra = self.weighted([(70, None), (18, 'and'), (7, 'or'), (5, 'not')])
        if extra == 'and':
            return A.and_(base, self.atom(both, 1))
        if extra == 'or':
            return A.or_(base, self.atom(both, 1))
        if extra == 'not':
            return A.not_(base)
        return base

    def origin(self, depth):
        choice = self.weighted([(52, 'simple'), (48, 'join')])
        return self.join(depth) if choice == 'join' else self.simple_origin(depth)

    # -- statements -------------------------------------------------------------------------------------------------
    def named(self, feature, name, used):
        """Select item producing the output name ``name``."""
        if A.name_of(feature) == name:
            return feature
        return A.alias(feature, name)

    def select_item(self, elems, used):
        """One free (non-aggregate) select item with an unused output name."""
        if self.pct(0.6) and elems:
            item = copy.deepcopy(self.pick([f for f, _ in elems]))
        elif self.p['p_bare_proxy'] and self.pct(0.04):  # unaliased ==/< comparison (python-level proxy object in forml)
            left = self.numeric(elems, 0)
            return A.cmp(self.pick(['eq', 'lt']), left, self.literal('int'))
        else:
            item = self.expr(self.pick(['int', 'int', 'float', 'str', 'bool', 'date']), elems, self.max_expr_depth - 1)
        return self.finish_item(item, used)

    def finish_item(self, item, used, force_alias=False):
        name = A.name_of(item)
        if name is not None and name not in used and not (force_alias and self.pct(0.3)):
            used.add(name)
            return item
        if name is None and not force_alias and self.pct(self.p['p_unnamed']):
            bare_proxy = item['f'] == 'cmp' and item['op'] in ('eq', 'lt')
            if not bare_proxy or self.pct(self.p['p_bare_proxy']):
                return item  # unnamed output
        new = self.alias_name()
        used.add(new)
        return A.alias(A.strip_alias(item), new)

    def query(self, depth, signature=None, nested=False):
        """Query with at most ``depth`` further statement levels below it.

        ``signature`` = required outputs ``[(name, kind)]`` (set operands); ``nested`` = will be referenced: all
        outputs named."""
        src = self.origin(depth)
        elems = _elems(src)
        edepth = self.max_expr_depth - 1
        used = set()
        select, groupby = [], []
        grouped = self.pct(0.24)
        if signature is not None:
            if grouped:
                for name, kind in signature:
                    make_key = kind not in A.NUMERIC or self.pct(0.4)
                    if make_key:
                        key = self.group_key(kind, elems, edepth)
                        groupby.append(key)
                        select.append(self.named(copy.deepcopy(key), name, used))
                    else:
                        select.append(self.named(self.set_agg(kind, elems), name, used))
                if not groupby:
                    grouped = False
            if not grouped:
                select = [self.named(self.set_expr(k, elems, edepth), n, used) for n, k in signature]
        elif grouped:
            nkeys = self.weighted([(70, 1), (30, 2)])
            for _ in range(nkeys):
                key = self.group_key(self.pick(['int', 'int', 'str', 'float', 'bool', 'date']), elems, edepth)
                if key not in groupby:
                    groupby.append(key)
            for key in groupby:
                if self.pct(0.8):
                    select.append(self.finish_item(copy.deepcopy(key), used, force_alias=nested or key['f'] not in ('col', 'elem')))
            for _ in range(self.weighted([(15, 0) if select else (0, 0), (60, 1), (25, 2)])):
                item = self.agg_expr(self.pick(['int', 'float']), elems, 1)
                select.append(self.finish_item(item, used, force_alias=nested))
        else:
            star = not nested and self.pct(0.14)
            if star:
                names = [n for n, _ in A.outputs_of(src)]
                if len(set(names)) < len(names) and not self.p['star_dups']:
                    star = False
            if not star:
                for _ in range(self.weighted([(30, 1), (40, 2), (20, 3), (10, 4)])):
                    item = self.select_item(elems, used)
                    if nested and A.name_of(item) is None:
                        item = self.finish_item(item, used, force_alias=True)
                    select.append(item)
                if self.p['windows'] and not nested and self.pct(0.04) and elems:
                    part = copy.deepcopy(self.pick([f for f, _ in elems]))
                    fn = {'f': 'rownumber'} if self.pct(0.5) else A.agg('count', copy.deepcopy(part))
                    select.append(A.alias(A.win(fn, [part]), self.alias_name()))
        where = self.pred(elems, self.weighted([(45, 1), (40, 2), (15, min(3, edepth))])) if self.pct(0.55) else None
        having = None
        if grouped and self.pct(0.45):
            hel = [(k, A.kind_of(k, dict((A.element_key(f), kk) for f, kk in elems))) for k in groupby if k['f'] in ('col', 'elem')]
            having = self.pred(hel or elems, 1, agg=True) if hel else self.atom(elems, 1, agg=True)
            if not A.has_agg(having) and not hel:
                having = A.cmp('gt', A.agg('count', self.leaf('int', elems)), A.lit(0, 'int'))
        elif not grouped and self.pct(0.03):
            having = self.atom(elems, 1)
        orderby = []
        if self.pct(0.32):
            if grouped:
                cands = [copy.deepcopy(k) for k in groupby]
            else:
                cands = [copy.deepcopy(f) for f, _ in elems]
            for _ in range(self.weighted([(70, 1), (30, 2)])):
                if not cands:
                    break
                term = self.pick(cands)
                if term not in [t for t, _ in orderby]:
                    orderby.append([term, self.pick(['asc', 'desc'])])
        limit = None
        if self.pct(0.2):
            limit = [self.pick([1, 2, 3, 5, 10]), self.weighted([(60, 0), (25, 1), (15, 2)])]
        return A.query(src, select, where, groupby, having, orderby, limit)

    def group_key(self, kind, elems, edepth):
        cands = [f for f, k in elems if k == kind]
        if cands and self.pct(0.7):
            return copy.deepcopy(self.pick(cands))
        if kind in A.NUMERIC:  # expression key with a literal from the colliding pool on purpose
            base = self.leaf(kind, elems, 1.0)
            value = self.pick([v for pair in COLLIDING[kind] for v in pair])
            return A.arith(self.pick(['add', 'sub', 'mul']), base, A.lit(value, kind))
        if cands:
            return copy.deepcopy(self.pick(cands))
        return self.expr(kind, elems, 1)

    def set_expr(self, kind, elems, edepth):
        """Select expression of a set operand: exact kinds only (no avg / division: their int-vs-float kind is a forml
        convention and would make the *equal schemas* verdict ambiguous)."""
        for _ in range(8):
            item = self.expr(kind, elems, min(edepth, 2)) if self.pct(0.4) else self.leaf(kind, elems, 0.9)
            if not A.is_loose_numeric(item):
                return item
        return self.leaf(kind, elems, 0.9)

    def set_agg(self, kind, elems):
        if kind == 'int':
            cands = [f for f, _ in elems]
            if self.pct(0.5) and cands:
                return A.agg('count', copy.deepcopy(self.pick(cands)))
        return A.agg(self.pick(['sum', 'min', 'max']), self.leaf(kind, elems, 0.9))

    def setop(self, depth):
        self.n_sig += 1
        ncols = self.weighted([(45, 1), (40, 2), (15, 3)])
        kinds = [self.pick(['int', 'int', 'float', 'str', 'bool', 'date']) for _ in range(ncols)]
        signature = [(f's{self.n_sig}_{i}', k) for i, k in enumerate(kinds)]
        return self.setop_sig(depth, signature)

    def setop_sig(self, depth, signature):
        kind = self.pick(A.SET_KINDS)
        if depth >= 1 and self.pct(0.12):
            left = self.setop_sig(depth - 1, signature)
        else:
            left = self.query(max(depth - 1, 0), signature)
        right = self.query(max(depth - 1, 0), signature)
        return A.setop(left, right, kind)

    def statement(self):
        depth = self.max_source_depth - 1
        if depth >= 1 and self.pct(0.13):
            return self.setop(depth)
        return self.query(depth)


STATEMENT_BYTES = 384


def gen_statement(chooser, max_source_depth=3, max_expr_depth=4, profile='full'):
    """Well-formed statement AST from a chooser (pure function of the chooser's decisions)."""
    return _Gen(chooser, profile, max_source_depth, max_expr_depth).statement()


def statements(max_source_depth=3, max_expr_depth=4, profile='full'):
    """Strategy of well-formed statement ASTs (query or set at the top)."""
    return st.binary(min_size=STATEMENT_BYTES, max_size=STATEMENT_BYTES).map(
        lambda data: gen_statement(ByteChooser(data), max_source_depth, max_expr_depth, profile)
    )


# ---- shape classifier --------------------------------------------------------------------------------------------------
def _pred_tags(pred, tags):
    origins = A.origins_of(pred)
    if len(origins) >= 2:
        tags.add('two-table-pred')
    for n in A.walk(pred):
        if n.get('f') in ('and', 'or'):
            lo, ro = A.origins_of(n['l']), A.origins_of(n['r'])
            if lo and ro and set(lo) != set(ro):
                tags.add('two-table-' + n['f'])
        if n.get('f') in ('and', 'or', 'not'):
            for _, c in A.children(n):
                if c.get('f') in ('col', 'elem', 'lit'):
                    tags.add('bool-operand-leaf')
        if n.get('f') == 'not':
            tags.add('not')
        if n.get('f') == 'or':
            tags.add('or')
        if n.get('f') == 'and':
            tags.add('and')
    if pred['f'] in ('col', 'elem', 'lit'):
        tags.add('bool-col-pred')
    if not A.elements_of(pred):
        tags.add('lit-pred')


def features(node) -> set:
    """Shape tags of a statement AST."""
    tags = set()
    if node.get('t') == 'set':
        tags.add('top-set')
    for sub in A.walk(node):
        t, f = sub.get('t'), sub.get('f')
        if t == 'join':
            tags.add('join')
            tags.add({'inner': 'inner-join', 'cross': 'cross-join'}.get(sub['kind'], 'outer-join'))
            if sub['left']['t'] == 'join' or sub['right']['t'] == 'join':
                tags.add('multi-join')
            for side, other in ((sub['right'], sub['left']), (sub['left'], sub['right'])):
                if side['t'] == 'ref' and side['src']['t'] == 'table' and side['src']['name'] in A.tables_of(other):
                    tags.add('self-join')
            if sub.get('cond') is not None:
                _pred_tags(sub['cond'], tags)
                if sub['cond']['f'] != 'cmp' or sub['cond']['op'] != 'eq':
                    tags.add('non-equi-join')
        elif t == 'set':
            tags.add('set')
            tags.add('set-' + sub['kind'])
        elif t == 'ref':
            tags.add('ref')
            if sub['src']['t'] == 'query':
                tags.add('nested')
            elif sub['src']['t'] == 'set':
                tags.add('nested')
                tags.add('ref-set')
            elif sub['src']['t'] == 'table':
                tags.add('ref-table')
        elif t == 'query':
            if sub['src']['t'] in ('query', 'set'):
                tags.add('nested')
                tags.add('nested-direct')
            if not sub.get('select'):
                tags.add('select-star')
                names = [n for n, _ in A.outputs_of(sub['src'])]
                if len(set(names)) < len(names):
                    tags.add('dup-names')
            else:
                names = [A.name_of(s) for s in sub['select']]
                if any(n is None for n in names):
                    tags.add('unnamed')
                named = [n for n in names if n is not None]
                if len(set(named)) < len(named):
                    tags.add('dup-names')
                for s in sub['select']:
                    inner = A.strip_alias(s)
                    if s['f'] == 'cmp' and s['op'] in ('eq', 'lt'):
                        tags.add('bare-proxy')
                    if inner['f'] == 'lit':
                        tags.add('lit-select')
            if sub.get('where') is not None:
                tags.add('where')
                _pred_tags(sub['where'], tags)
            if sub.get('groupby'):
                tags.add('groupby')
                keys = sub['groupby']
                if any(k['f'] not in ('col', 'elem') for k in keys):
                    tags.add('expr-group-key')
                if any(s['f'] == 'alias' and s['of'] in keys for s in sub.get('select') or []):
                    tags.add('alias-in-group')
                if any(_twin(n['kind'], n['v']) is not None for k in keys for n in A.walk(k) if n.get('f') == 'lit'):
                    tags.add('collide-group-key')
            if sub.get('having') is not None:
                tags.add('having')
                _pred_tags(sub['having'], tags)
                if not sub.get('groupby'):
                    tags.add('having-no-group')
            if sub.get('orderby'):
                tags.add('orderby')
            if sub.get('limit') is not None:
                tags.add('limit')
                if sub['limit'][1]:
                    tags.add('offset')
        elif f == 'agg':
            tags.add('agg')
        elif f == 'arith':
            tags.add('arith')
            if any(A.has_agg(c) for _, c in A.children(sub)):
                tags.add('agg-in-arith')
        elif f == 'cast':
            tags.add('cast')
            if sub['x'].get('f') == 'cmp' and sub['x']['op'] in ('eq', 'lt'):
                tags.add('bare-proxy')
        elif f in ('abs', 'ceil', 'floor', 'year'):
            tags.add('func')
        elif f == 'win':
            tags.add('win')
        elif f == 'alias':
            tags.add('alias')
        elif f == 'lit':
            if _twin(sub['kind'], sub['v']) is not None:
                tags.add('lit-collide')
        elif f == 'col' and (sub['table'], sub['name']) == ('D', 'value'):
            tags.add('aliased-field')
        elif f in ('isnull', 'notnull'):
            tags.add('null-test')
    if A.depth(node) >= 3:
        tags.add('deep')
    return tags


# ---- single-rule mutants -----------------------------------------------------------------------------------------------
_FOREIGN_REF = 'rf'


def _foreign_element(ch, stmt, kind):
    """Element of the given kind that is an element of *no* source of the statement."""
    used = set(A.tables_of(stmt))
    opts = []
    for tab in DEFAULT_TABLES:
        for name, k in TABLES[tab]:
            if k == kind:
                if tab not in used:
                    opts.append(A.col(tab, name))
                opts.append(A.elem(_FOREIGN_REF, name, of=A.table(tab)))
    if not opts:
        return None
    return copy.deepcopy(ch.pick(opts))


_BAD_FOR = {  # literal clearly incompatible with a comparison partner of the given kind
    'int': [A.lit('a', 'str'), A.lit(True, 'bool'), A.lit('2020-01-01', 'date')],
    'float': [A.lit('a', 'str'), A.lit(False, 'bool')],
    'str': [A.lit(1, 'int'), A.lit(0.5, 'float'), A.lit(True, 'bool')],
    'bool': [A.lit(1, 'int'), A.lit('a', 'str')],
    'date': [A.lit(1, 'int'), A.lit('a', 'str')],
    'timestamp': [A.lit(1, 'int'), A.lit('a', 'str')],
}
_NON_NUMERIC = [A.lit('a', 'str'), A.lit(True, 'bool'), A.lit('2020-01-01', 'date')]
_NON_BOOL = [A.lit(1, 'int'), A.lit('a', 'str'), A.lit(0.5, 'float')]


def _scopes(stmt):
    """``path -> (node, elems)`` for every query / join node: the elements its features may use."""
    out = {}
    for path, node in A.walk_paths(stmt):
        if node.get('t') == 'query':
            out[path] = (node, _elems(node['src']) if node['src']['t'] in ('table', 'ref', 'join') else [])
        elif node.get('t') == 'join':
            out[path] = (node, _elems(node['left']) + _elems(node['right']))
    return out


def _leaf_paths(feature):
    """``(sub path, leaf)`` of the element leaves of a feature that are not inside a window specification."""
    if feature.get('f') == 'win':
        return
    if feature.get('f') in ('col', 'elem'):
        yield (), feature
        return
    for frag, child in A.children(feature):
        if A.is_feature(child):
            for sub, leaf in _leaf_paths(child):
                yield tuple(frag) + sub, leaf


def mutation_sites(stmt) -> list:
    """Deterministic list of ``(rule, path, how)`` candidates."""
    sites = []
    for path, (node, elems) in sorted(_scopes(stmt).items()):
        if node['t'] == 'query':
            grouped = bool(node.get('groupby'))
            for i, item in enumerate(node.get('select') or []):
                for sub, leaf in _leaf_paths(item):
                    sites.append(('scope:select', path + ('select', i) + sub, 'leaf'))
            for clause in ('where', 'having'):
                if node.get(clause) is not None:
                    for sub, leaf in _leaf_paths(node[clause]):
                        sites.append((f'scope:{clause}', path + (clause,) + sub, 'leaf'))
                    sites.append((f'bool:{clause}', path + (clause,), 'nonbool'))
                else:
                    sites.append((f'scope:{clause}', path + (clause,), 'new'))
                    sites.append((f'bool:{clause}', path + (clause,), 'nonbool'))
            sites.append(('agg:where', path + ('where',), 'agg'))
            sites.append(('win:having', path + ('having',), 'win'))
            sites.append(('scope:orderby', path + ('orderby',), 'append'))
            if grouped:
                sites.append(('scope:groupby', path + ('groupby',), 'append'))
                sites.append(('agg:groupby', path + ('groupby',), 'append-agg'))
                for i, item in enumerate(node.get('select') or []):
                    if A.has_agg(item):
                        sites.append(('group:select', path + ('select', i), 'strip-agg'))
                    elif A.strip_alias(item) in node['groupby']:
                        for sub, leaf in A.walk_paths(item):
                            if leaf.get('f') == 'lit' and _twin(leaf['kind'], leaf['v']) is not None:
                                sites.append(('group:select', path + ('select', i) + sub, 'collide'))
                        sites.append(('group:select', path + ('select', i), 'detach'))
                if node.get('select'):  # the implicit select-all of a grouped query is a selection as well (seeded change C07-6)
                    sites.append(('group:select', path + ('select',), 'drop-select'))
            elif len(node.get('select') or []) >= 2:
                sites.append(('group:select', path + ('groupby',), 'group-first'))
            elif not node.get('select') and len(elems) >= 2:
                sites.append(('group:select', path + ('groupby',), 'group-star'))
        else:
            if node['kind'] == 'cross':
                sites.append(('join:cross-cond', path + ('cond',), 'add'))
            else:
                sites.append(('join:no-cond', path + ('cond',), 'drop'))
                for sub, leaf in _leaf_paths(node['cond']):
                    sites.append(('scope:join', path + ('cond',) + sub, 'leaf'))
                sites.append(('bool:join', path + ('cond',), 'nonbool'))
                sites.append(('agg:join', path + ('cond',), 'agg'))
    for path, node in A.walk_paths(stmt):
        f = node.get('f')
        if f == 'cmp':
            sites.append(('kind:cmp', path, 'l'))
            sites.append(('kind:cmp', path, 'r'))
        elif f == 'arith':
            sites.append(('kind:arith', path, 'l'))
            sites.append(('kind:arith', path, 'r'))
        elif f in ('and', 'or'):
            sites.append(('kind:logical', path, 'l'))
            sites.append(('kind:logical', path, 'r'))
        elif f == 'not':
            sites.append(('kind:logical', path, 'x'))
        elif node.get('t') == 'set':
            for side in ('left', 'right'):
                if node[side]['t'] == 'query' and node[side].get('select'):
                    for how in ('rename', 'rekind', 'drop', 'append', 'swap'):
                        sites.append(('set:schema', path + (side,), how))
    return sites


def _scope_for(stmt, path):
    """(scope mapping, elems) of the innermost query/join node enclosing the path."""
    scopes = _scopes(stmt)
    best = None
    for p in scopes:
        if path[: len(p)] == p and (best is None or len(p) > len(best)):
            best = p
    node, elems = scopes[best]
    return node, elems, best


def _apply(ch, stmt, rule, path, how):
    """Build the mutant for one site; None when the site does not work out."""
    universe = {}
    for _, ref in sorted(A.refs_of(stmt).items()):
        universe.update(A.scope_of(ref))
    node, elems, base = _scope_for(stmt, path)
    scope = dict((A.element_key(f), k) for f, k in elems)
    scope.update({k: v for k, v in universe.items() if k not in scope})

    def kind(feature):
        return A.kind_of(feature, scope)

    def in_scope(kinds=None):
        cands = [f for f, k in elems if kinds is None or k in kinds]
        return copy.deepcopy(ch.pick(cands)) if cands else None

    if rule == 'set:schema':
        side = A.get(stmt, path)
        select = copy.deepcopy(side['select'])
        i = ch.int(0, len(select) - 1)
        selems = _elems(side['src'])
        sscope = dict((A.element_key(f), k) for f, k in selems)
        if how == 'rename':
            select[i] = A.alias(A.strip_alias(select[i]), (A.name_of(select[i]) or 'n') + '_x')
        elif how == 'rekind':
            old = A.kind_of(select[i], sscope)
            if A.has_agg(select[i]) or A.has_win(select[i]):
                return None
            new = ch.pick([k for k in ('int', 'float', 'str') if k != old])
            name = A.name_of(select[i])
            if name is None:
                return None
            select[i] = A.alias(A.cast(A.strip_alias(select[i]), new), name)
        elif how == 'drop':
            if len(select) < 2 or (side.get('groupby') and A.strip_alias(select[i]) in side['groupby']):
                return None
            del select[i]
        elif how == 'append':
            if side.get('groupby'):
                extra = A.alias(A.agg('count', A.lit(1, 'int')), 'extra')
            else:
                extra = A.alias(A.lit(1, 'int'), 'extra')
            select.append(extra)
        elif how == 'swap':
            if len(select) < 2:
                return None
            j = (i + 1) % len(select)
            select[i], select[j] = select[j], select[i]
        return A.replace(stmt, path + ('select',), select)
    if how == 'leaf':
        leaf = A.get(stmt, path)
        foreign = _foreign_element(ch, stmt, kind(leaf))
        if foreign is None:
            return None
        rel = path[len(base) :]
        if rule == 'scope:select' and len(rel) == 2:  # bare top-level select item: keep its output name
            foreign = A.alias(foreign, leaf['name'])
        return A.replace(stmt, path, foreign)
    if how == 'new':  # absent where / having: add a predicate over a foreign element
        foreign = _foreign_element(ch, stmt, ch.pick(['int', 'str', 'float']))
        return A.replace(stmt, path, A.unary('notnull', foreign))
    if how == 'nonbool':
        repl = in_scope(('int', 'float', 'str'))
        if repl is None:
            repl = A.lit(1, 'int')
        elif ch.bool() and kind(repl) in A.NUMERIC:
            repl = A.arith('add', repl, A.lit(1, 'int'))
        return A.replace(stmt, path, repl)
    if how in ('agg', 'win'):
        arg = in_scope() or A.lit(1, 'int')
        counted = A.agg('count', arg)
        if how == 'win':
            counted = A.win(counted if ch.bool() else {'f': 'rownumber'}, [copy.deepcopy(arg)])
        extra = A.cmp('gt', counted, A.lit(0, 'int'))
        old = A.get(stmt, path)
        if old is None:
            new = extra
        else:
            new = A.and_(old, extra) if ch.bool() else A.and_(extra, old)
        return A.replace(stmt, path, new)
    if how == 'append':
        foreign = _foreign_element(ch, stmt, ch.pick(['int', 'str', 'float']))
        old = list(A.get(stmt, path) or [])
        new = old + ([[foreign, 'asc']] if rule == 'scope:orderby' else [foreign])
        return A.replace(stmt, path, new)
    if how == 'append-agg':
        arg = in_scope(('int', 'float')) or A.lit(1, 'int')
        fn = ch.pick(['count', 'sum', 'max'])
        return A.replace(stmt, path, list(A.get(stmt, path)) + [A.agg(fn, arg)])
    if how == 'strip-agg':
        item = A.get(stmt, path)
        want = kind(item)
        keys = node['groupby']
        cands = [f for f, k in elems if k == want and f not in keys]
        if not cands:
            return None
        repl = copy.deepcopy(ch.pick(cands))
        name = A.name_of(item)
        return A.replace(stmt, path, A.alias(repl, name) if name is not None else repl)
    if how == 'collide':
        leaf = A.get(stmt, path)
        return A.replace(stmt, path, A.lit(_twin(leaf['kind'], leaf['v']), leaf['kind']))
    if how == 'detach':  # a selected grouping key wrapped into a non-aggregate expression of the same kind
        item = A.get(stmt, path)
        inner = A.strip_alias(item)
        k = kind(inner)
        if k in A.NUMERIC:
            new = A.arith('add', inner, A.lit(1, 'int'))
        elif k in ('str', 'bool', 'date', 'timestamp'):
            new = A.cast(A.cast(inner, 'str'), k) if k != 'str' else A.cast(inner, 'str')
        else:
            return None
        name = A.name_of(item)
        if name is None:
            return None
        return A.replace(stmt, path, A.alias(new, name))
    if how == 'drop-select':  # grouped query left with the implicit select-all
        return A.replace(stmt, path, [])
    if how == 'group-star':  # select-all query grouped by one of its source's features
        return A.replace(stmt, path, [copy.deepcopy(ch.pick([f for f, _ in elems]))])
    if how == 'group-first':
        first = A.strip_alias(node['select'][0])
        if A.has_agg(first) or A.has_win(first):
            return None
        return A.replace(stmt, path, [copy.deepcopy(first)])
    if how == 'add':  # cross join gets a (valid) condition
        cond = None
        lint = [f for f, k in _elems(node['left']) if k == 'int']
        rint = [f for f, k in _elems(node['right']) if k == 'int']
        if lint and rint:
            cond = A.cmp('eq', copy.deepcopy(ch.pick(lint)), copy.deepcopy(ch.pick(rint)))
        else:
            arg = in_scope()
            if arg is None:
                return None
            cond = A.unary('notnull', arg)
        return A.replace(stmt, path, cond)
    if how == 'drop':
        return A.replace(stmt, path, None)
    if rule == 'kind:cmp':
        other = A.get(stmt, path)['r' if how == 'l' else 'l']
        bad = ch.pick(_BAD_FOR[kind(other)])
        return A.replace(stmt, path + (how,), bad)
    if rule == 'kind:arith':
        bad = ch.pick(_NON_NUMERIC)
        repl = in_scope(('str', 'bool', 'date')) if ch.bool() else None
        return A.replace(stmt, path + (how,), repl or bad)
    if rule == 'kind:logical':
        bad = ch.pick(_NON_BOOL)
        repl = in_scope(('int', 'str', 'float')) if ch.bool() else None
        return A.replace(stmt, path + (how,), repl or bad)
    raise ValueError((rule, how))


#: relative weight of a rule when choosing what to break (rules with few sites per statement are boosted)
RULE_WEIGHTS = {'set:schema': 5, 'group:select': 3, 'kind:arith': 2, 'join:cross-cond': 3, 'kind:cmp': 2, 'scope:groupby': 2, 'agg:groupby': 2}


def gen_mutant(ch, stmt, attempts=6):
    """One verified single-rule mutant ``{'ast','rule','path','how'}`` of a well-formed statement (None if none)."""
    sites = mutation_sites(stmt)
    if not sites:
        return None
    rules = sorted({r for r, _, _ in sites})  # balance the rules: pick a rule first, then one of its sites
    collide = [s for s in sites if s[2] == 'collide']
    for _ in range(attempts):
        if collide and ch.pct(0.3):
            rule, path, how = ch.pick(collide)
        else:
            rule = ch.weighted([(RULE_WEIGHTS.get(r, 1), r) for r in rules])
            _, path, how = ch.pick([s for s in sites if s[0] == rule])
        try:
            mutant = _apply(ch, stmt, rule, path, how)
        except KeyError:
            mutant = None
        if mutant is None or mutant == stmt:
            continue
        try:
            found = wellformed.violations(mutant)
        except KeyError:
            continue
        if found and {r for r, _ in found} == {rule}:
            return {'ast': mutant, 'rule': rule, 'path': list(path), 'how': how}
    return None


def mutants(stmt, attempts=6):
    """Strategy of verified single-rule mutants of a well-formed statement (value None when no site works)."""
    return st.binary(min_size=64, max_size=64).map(lambda data: gen_mutant(ByteChooser(data), stmt, attempts))


# ---- single-leaf edits (C08) -------------------------------------------------------------------------------------------
def edit_sites(stmt) -> list:
    """Deterministic ``(edit kind, path)`` candidates."""
    sites = []
    for path, node in A.walk_paths(stmt):
        t, f = node.get('t'), node.get('f')
        if f == 'lit':
            sites.append(('literal', path))
            if _twin(node['kind'], node['v']) is not None:
                sites.append(('literal-collide', path))
        elif f == 'cmp':
            sites.append(('cmp-op', path))
            sites.append(('operand-swap', path))
        elif f == 'arith' and node['op'] in ('add', 'sub', 'mul'):
            sites.append(('arith-op', path))
        elif f in ('and', 'or'):
            sites.append(('logical-op', path))
        elif f == 'agg' and node['fn'] in ('sum', 'min', 'max'):
            sites.append(('agg-fn', path))
        elif f in ('isnull', 'notnull', 'ceil', 'floor'):
            sites.append(('func', path))
        elif f == 'alias':
            sites.append(('alias', path))
        elif f in ('col', 'elem'):
            sites.append(('column', path))
        elif t == 'table':
            sites.append(('table', path))
        elif t == 'ref':
            sites.append(('ref-name', path))
        elif t == 'join':
            if node['kind'] != 'cross':
                sites.append(('join-kind', path))
        elif t == 'set':
            sites.append(('set-kind', path))
        elif t == 'query':
            if node.get('limit') is not None:
                sites.append(('limit', path))
            if node.get('orderby'):
                sites.append(('direction', path))
            if len(node.get('select') or []) >= 2:
                sites.append(('select-order', path))
    return sites


def _rename_table(node, old, new):
    node = copy.deepcopy(node)
    for sub in A.walk(node):
        if sub.get('t') == 'table' and sub['name'] == old:
            sub['name'] = new
        elif sub.get('f') == 'col' and sub['table'] == old:
            sub['table'] = new
    return node


def _rename_ref(node, old, new):
    node = copy.deepcopy(node)
    for sub in A.walk(node):
        if sub.get('t') == 'ref' and sub['name'] == old:
            sub['name'] = new
        elif sub.get('f') == 'elem' and sub['ref'] == old:
            sub['ref'] = new
    return node


def _apply_edit(ch, stmt, kind, path):
    node = A.get(stmt, path)
    if kind == 'literal':
        pool = [v for v in LITERALS[node['kind']] if v != node['v'] or type(v) is not type(node['v'])]
        return A.replace(stmt, path, A.lit(ch.pick(pool), node['kind']))
    if kind == 'literal-collide':
        return A.replace(stmt, path, A.lit(_twin(node['kind'], node['v']), node['kind']))
    if kind == 'cmp-op':
        new = dict(node, op=ch.pick([o for o in A.CMP_OPS if o != node['op']]))
        return A.replace(stmt, path, new)
    if kind == 'operand-swap':
        if node['l'] == node['r']:
            return None
        return A.replace(stmt, path, dict(node, l=node['r'], r=node['l']))
    if kind == 'arith-op':
        new = dict(node, op=ch.pick([o for o in ('add', 'sub', 'mul') if o != node['op']]))
        return A.replace(stmt, path, new)
    if kind == 'logical-op':
        return A.replace(stmt, path, dict(node, f='or' if node['f'] == 'and' else 'and'))
    if kind == 'agg-fn':
        new = dict(node, fn=ch.pick([o for o in ('sum', 'min', 'max') if o != node['fn']]))
        return A.replace(stmt, path, new)
    if kind == 'func':
        swap = {'isnull': 'notnull', 'notnull': 'isnull', 'ceil': 'floor', 'floor': 'ceil'}
        return A.replace(stmt, path, dict(node, f=swap[node['f']]))
    if kind == 'alias':
        return A.replace(stmt, path, dict(node, name=node['name'] + 'x'))
    if kind == 'column':
        if node['f'] == 'col':
            want = dict(TABLES[node['table']])[node['name']]
            cands = [n for n, k in TABLES[node['table']] if k == want and n != node['name']]
            if not cands:
                return None
            return A.replace(stmt, path, dict(node, name=ch.pick(cands)))
        refs = A.refs_of(stmt)
        if node['ref'] not in refs:
            return None
        outs = A.outputs_of(refs[node['ref']])
        want = dict((n, k) for n, k in outs if n is not None).get(node['name'])
        cands = [n for n, k in outs if n is not None and k == want and n != node['name']]
        if not cands:
            return None
        return A.replace(stmt, path, dict(node, name=ch.pick(cands)))
    if kind == 'table':
        twin = {'C': 'E', 'E': 'C'}.get(node['name'])
        if twin is None or twin in A.tables_of(stmt):
            return None
        return _rename_table(stmt, node['name'], twin)
    if kind == 'ref-name':
        return _rename_ref(stmt, node['name'], node['name'] + 'x')
    if kind == 'join-kind':
        new = ch.pick([k for k in ('inner', 'left', 'right', 'full') if k != node['kind']])
        return A.replace(stmt, path, dict(node, kind=new))
    if kind == 'set-kind':
        new = ch.pick([k for k in A.SET_KINDS if k != node['kind']])
        return A.replace(stmt, path, dict(node, kind=new))
    if kind == 'limit':
        count, offset = node['limit']
        new = [count + 1, offset] if ch.bool() else [count, offset + 1]
        return A.replace(stmt, path + ('limit',), new)
    if kind == 'direction':
        i = ch.int(0, len(node['orderby']) - 1)
        terms = copy.deepcopy(node['orderby'])
        terms[i][1] = 'desc' if terms[i][1] == 'asc' else 'asc'
        return A.replace(stmt, path + ('orderby',), terms)
    if kind == 'select-order':
        select = copy.deepcopy(node['select'])
        i = ch.int(0, len(select) - 2)
        if select[i] == select[i + 1]:
            return None
        select[i], select[i + 1] = select[i + 1], select[i]
        return A.replace(stmt, path + ('select',), select)
    raise ValueError(kind)


def gen_edit(ch, stmt, attempts=6, prefer=()):
    """One single-leaf edit ``{'ast','edit','path'}`` of a well-formed statement that is still well-formed and
    different (None if none). ``prefer`` = edit kinds to favour."""
    sites = edit_sites(stmt)
    if not sites:
        return None
    kinds = sorted({k for k, _ in sites})
    for _ in range(attempts):
        favoured = [k for k in kinds if k in prefer]
        kind = ch.pick(favoured) if favoured and ch.pct(0.6) else ch.pick(kinds)
        _, path = ch.pick([s for s in sites if s[0] == kind])
        try:
            new = _apply_edit(ch, stmt, kind, path)
            if new is None or new == stmt:
                continue
            if wellformed.check(new) is not None:
                continue
            if 'dup-names' in features(new) and 'dup-names' not in features(stmt):
                continue  # stay inside the generator's domain: unique output names within a selection
        except KeyError:
            continue
        return {'ast': new, 'edit': kind, 'path': list(path)}
    return None


def edits(stmt, attempts=6, prefer=()):
    """Strategy of single-leaf edits of a well-formed statement (value None when no site works)."""
    return st.binary(min_size=64, max_size=64).map(lambda data: gen_edit(ByteChooser(data), stmt, attempts, prefer))
