"""JSON AST -> real forml DSL objects through the public API. Fresh composite objects on every call, no caching.

``build_statement(ast) -> (source, env)``; ``build_source(ast, env=None) -> dsl.Source``;
``build_feature(ast, env) -> dsl.Feature`` where ``env`` maps reference names to the ``dsl.Reference`` objects built so
far (a reference is registered when its source node is built, so sources are built before the features using them).

Public API used: table attribute access (``A.x`` / ``D['value']``), python operators on features (``== != < <= > >= & |
~ + - * / %``), ``.alias``, ``dsl.Literal``, ``forml.io.dsl.function`` (IsNull, NotNull, Count, Sum, Avg, Min, Max, Cast,
Abs, Ceil, Floor, Year, RowNumber, ``.over``), ``.select/.where/.groupby/.having/.orderby/.limit`` (called in exactly
this order - forml validates the whole query after every step, so ``groupby`` before ``select`` would be judged
against the implicit select-all), ``.inner_join/.left_join/.right_join/.full_join/.cross_join``, ``.reference(name)``,
``.union/.intersection/.difference``. The only direct constructor call is ``dsl.Join(left, right, kind, condition)``
for the otherwise inexpressible *cross join with a condition*.

``style='operator'`` (default) builds ``eq``/``lt`` with python's ``==``/``<`` (forml returns a lazy comparison proxy
there); ``style='function'`` uses the explicit ``function.Equal`` / ``function.LessThan`` classes instead.

Anything that cannot be expressed (unknown table, unknown reference, unknown element name) raises ``SpecError``:
that is a defect of the AST, not of forml.
"""
import datetime

from forml.io import dsl
from forml.io.dsl import function

from . import catalog


class SpecError(Exception):
    """The AST itself is broken (not a verdict about forml)."""


_AGG = {'count': function.Count, 'sum': function.Sum, 'avg': function.Avg, 'min': function.Min, 'max': function.Max}
_UNARY = {
    'isnull': function.IsNull,
    'notnull': function.NotNull,
    'abs': function.Abs,
    'ceil': function.Ceil,
    'floor': function.Floor,
    'year': function.Year,
}
_CMP_CLASS = {
    'eq': function.Equal,
    'ne': function.NotEqual,
    'lt': function.LessThan,
    'le': function.LessEqual,
    'gt': function.GreaterThan,
    'ge': function.GreaterEqual,
}
_SET = {'union': 'union', 'intersection': 'intersection', 'difference': 'difference'}
_JOIN = {'inner': 'inner_join', 'left': 'left_join', 'right': 'right_join', 'full': 'full_join'}


def literal_value(node):
    """Python value of a literal node."""
    kind, value = node['kind'], node['v']
    if kind == 'int':
        return int(value)
    if kind == 'float':
        return float(value)
    if kind == 'str':
        return str(value)
    if kind == 'bool':
        return bool(value)
    if kind == 'date':
        return datetime.date.fromisoformat(value)
    if kind == 'timestamp':
        return datetime.datetime.fromisoformat(value)
    raise SpecError(f'unknown literal kind {kind}')


def build_feature(node, env, style: str = 'operator'):
    """Construct the forml feature of a feature node; ``env``: reference name -> dsl.Reference."""
    f = node['f']
    if f == 'col':
        try:
            tab = catalog.BY_NAME[node['table']]
        except KeyError as err:
            raise SpecError(f'unknown table {node["table"]}') from err
        attr = catalog.ATTRS.get((node['table'], node['name']))
        if dict(catalog.TABLES[node['table']]).get(node['name']) is None:
            raise SpecError(f'unknown column {node["table"]}.{node["name"]}')
        return getattr(tab, attr) if attr else getattr(tab, node['name'])
    if f == 'elem':
        if node.get('of') is not None and node['ref'] not in env:
            env[node['ref']] = build_source(node['of'], env, style).reference(node['ref'])
        if node['ref'] not in env:
            raise SpecError(f'unknown reference {node["ref"]}')
        try:
            return env[node['ref']][node['name']]
        except KeyError as err:
            raise SpecError(f'unknown element {node["ref"]}.{node["name"]}') from err
    if f == 'lit':
        return dsl.Literal(literal_value(node))
    if f == 'alias':
        return build_feature(node['of'], env, style).alias(node['name'])
    if f == 'cmp':
        left, right = build_feature(node['l'], env, style), build_feature(node['r'], env, style)
        op = node['op']
        if style == 'function':
            return _CMP_CLASS[op](left, right)
        if op == 'eq':
            return left == right
        if op == 'ne':
            return left != right
        if op == 'lt':
            return left < right
        if op == 'le':
            return left <= right
        if op == 'gt':
            return left > right
        if op == 'ge':
            return left >= right
        raise SpecError(f'unknown comparison {op}')
    if f == 'and':
        return build_feature(node['l'], env, style) & build_feature(node['r'], env, style)
    if f == 'or':
        return build_feature(node['l'], env, style) | build_feature(node['r'], env, style)
    if f == 'not':
        return ~build_feature(node['x'], env, style)
    if f == 'arith':
        left, right = build_feature(node['l'], env, style), build_feature(node['r'], env, style)
        op = node['op']
        if op == 'add':
            return left + right
        if op == 'sub':
            return left - right
        if op == 'mul':
            return left * right
        if op == 'div':
            return left / right
        if op == 'mod':
            return left % right
        raise SpecError(f'unknown arithmetic {op}')
    if f == 'agg':
        return _AGG[node['fn']](build_feature(node['x'], env, style))
    if f == 'cast':
        return function.Cast(build_feature(node['x'], env, style), catalog.KINDS[node['kind']])
    if f in _UNARY:
        return _UNARY[f](build_feature(node['x'], env, style))
    if f == 'win':
        fn = node['fn']
        func = function.RowNumber() if fn['f'] == 'rownumber' else build_feature(fn, env, style)
        return func.over([build_feature(p, env, style) for p in node.get('partition') or []])
    raise SpecError(f'unknown feature {f}')


def build_source(node, env=None, style: str = 'operator'):
    """Construct the forml source of a source node (a fresh object graph on every call)."""
    if env is None:
        env = {}
    t = node['t']
    if t == 'table':
        try:
            return catalog.BY_NAME[node['name']]
        except KeyError as err:
            raise SpecError(f'unknown table {node["name"]}') from err
    if t == 'ref':
        obj = build_source(node['src'], env, style).reference(node['name'])
        env[node['name']] = obj
        return obj
    if t == 'join':
        left = build_source(node['left'], env, style)
        right = build_source(node['right'], env, style)
        cond = build_feature(node['cond'], env, style) if node.get('cond') is not None else None
        kind = node['kind']
        if kind == 'cross':
            if cond is None:
                return left.cross_join(right)
            return dsl.Join(left, right, dsl.Join.Kind.CROSS, cond)  # not expressible through the fluent API
        return getattr(left, _JOIN[kind])(right, cond)
    if t == 'set':
        left = build_source(node['left'], env, style)
        right = build_source(node['right'], env, style)
        return getattr(left, _SET[node['kind']])(right)
    if t == 'query':
        src = build_source(node['src'], env, style)
        # ``Query.query`` is the query itself (``.select`` would replace its selection): a query *directly* over a query
        # (never generated, nesting goes through references) needs the constructor
        out = dsl.Query(src) if node['src']['t'] == 'query' else src.query
        if node.get('select'):
            out = out.select(*(build_feature(f, env, style) for f in node['select']))
        if node.get('where') is not None:
            out = out.where(build_feature(node['where'], env, style))
        if node.get('groupby'):
            out = out.groupby(*(build_feature(f, env, style) for f in node['groupby']))
        if node.get('having') is not None:
            out = out.having(build_feature(node['having'], env, style))
        if node.get('orderby'):
            out = out.orderby(*((build_feature(f, env, style), d) for f, d in node['orderby']))
        if node.get('limit') is not None:
            out = out.limit(int(node['limit'][0]), int(node['limit'][1]))
        return out
    raise SpecError(f'unknown source {t}')


def build_statement(node, style: str = 'operator'):
    """``(source, env)`` for a statement AST."""
    env = {}
    return build_source(node, env, style), env
