"""Other-interpreter half of the cross-process identity check of C08.

Usage: python -m vf.dslx.xproc <file>   (run with a PYTHONHASHSEED different from the producer's)

The file holds a pickled list of (label, spec, pickled object): objects that were built *and hashed* in the producing
interpreter. Here each one is unpickled, its structurally identical twin is built from the spec, and both are compared the
way the property says: ==, hash, dict lookup, set membership. Prints a JSON list of [index, symptom, detail].
"""
import json
import pickle
import sys


def main(path: str) -> None:
    from vf.dslx import build

    with open(path, 'rb') as fh:
        items = pickle.load(fh)
    out = []
    for idx, (label, spec, blob) in enumerate(items):
        try:
            loaded = pickle.loads(blob)
            twin = build.build_source(spec, {}) if label == 'source' else build.build_feature(spec, {})
            if not bool(loaded == twin) or not bool(twin == loaded):
                out.append([idx, 'not-equal', f'{label}: unpickled object differs from its rebuilt twin'])
                continue
            if hash(loaded) != hash(twin):
                out.append([idx, 'hash-differs', f'{label}: equal objects hash differently after crossing interpreters'])
                continue
            if {twin: 1}.get(loaded) != 1 or loaded not in {twin}:
                out.append([idx, 'lookup-misses', f'{label}: equal object not found as dict key / set member'])
        except Exception as exc:  # pylint: disable=broad-except
            out.append([idx, f'raises-{type(exc).__name__}', str(exc)[:200]])
    print('XPROC ' + json.dumps(out))


if __name__ == '__main__':
    main(sys.argv[1])
