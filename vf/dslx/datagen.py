"""Table contents for the catalog of ``vf.dslx`` (plain data, JSON-able).

``data = {'A': [ {field name: value}, ... ], ...}``: 0-6 rows per table (empty tables included), unique ``id`` per
table, small value domains that force join matches (``B.a`` / ``C.b`` are drawn from the ``id`` domain), duplicates and
ties; dates are ISO strings ``YYYY-MM-DD``, timestamps ``YYYY-MM-DDTHH:MM:SS``. Optional NULLs (never in ``id``): the
reference result carries which order keys are NULL and the comparison accepts every NULL placement, a limit over NULL
keys weakens the oracle (``vf.dslx.refeval``), so NULLs are sound in any column.

One Hypothesis draw (a byte string) per data set: fast generation, Hypothesis shrinks towards zero bytes = empty tables.
"""
from hypothesis import strategies as st

from .catalog_data import DEFAULT_TABLES, TABLES
from .strategies import ByteChooser

ID_DOMAIN = list(range(0, 8))
DOMAINS = {
    'int': [0, 1, 2, 3, -1, 5],
    'float': [0.5, 1.5, 2.0, -1.0, 0.0, -2.0],
    'str': ['a', 'b', 'x', 'ab'],
    'bool': [False, True],
    'date': ['2020-01-01', '2021-06-15', '2019-12-31'],
    'timestamp': ['2020-01-01T00:00:00', '2021-06-15T12:30:00', '2020-01-01T00:00:01'],
}
#: columns referring to another table's id (drawn from the id domain to force matches)
FOREIGN = {('B', 'a'), ('C', 'b')}
MAX_ROWS = 6
DATA_BYTES = 4 + len(DEFAULT_TABLES) * (2 + MAX_ROWS * 16)


def gen_table(ch, name, nulls: float, max_rows: int = MAX_ROWS, strings=None) -> list:
    nrows = ch.weighted([(12, 0), (12, 1), (18, 2), (22, 3), (16, 4), (12, 5), (8, 6)])
    nrows = min(nrows, max_rows)
    ids = list(ID_DOMAIN)
    rows = []
    for _ in range(nrows):
        row = {}
        for col, kind in TABLES[name]:
            if col == 'id':
                row[col] = ids.pop(ch.int(0, len(ids) - 1))
            elif nulls and ch.pct(nulls):
                row[col] = None
            elif (name, col) in FOREIGN:
                row[col] = ch.pick(ID_DOMAIN[:6])
            elif kind == 'str' and strings is not None:
                row[col] = ch.pick(strings)
            else:
                row[col] = ch.pick(DOMAINS[kind])
        rows.append(row)
    return rows


def gen_data(ch, tables=DEFAULT_TABLES, nulls: float = 0.08, max_rows: int = MAX_ROWS, strings=None) -> dict:
    """Data set from a chooser; one of four draws has no NULLs at all."""
    p = nulls if ch.pct(0.75) else 0.0
    return {name: gen_table(ch, name, p, max_rows, strings) for name in tables}


def tables(names=DEFAULT_TABLES, nulls: float = 0.08, max_rows: int = MAX_ROWS, strings=None):
    """Strategy of data sets for the named catalog tables."""
    size = 4 + len(names) * (2 + max_rows * 16)
    return st.binary(min_size=size, max_size=size).map(lambda b: gen_data(ByteChooser(b), names, nulls, max_rows, strings))


def table_rows(name, nulls: float = 0.08, max_rows: int = MAX_ROWS, strings=None):
    """Strategy of the rows of one table."""
    size = 2 + max_rows * 16
    return st.binary(min_size=size, max_size=size).map(lambda b: gen_table(ByteChooser(b), name, nulls, max_rows, strings))
