"""Reader level of C06: histories over real feeds sharing one ``FORML_HOME``.

Feeds (all provisioning the catalog tables A, B, C, D under the same names):

``alc1`` / ``alc2``    ``forml.provider.feed.alchemy.Feed`` on two different SQLite files with equally named tables
``mono1`` / ``mono2``  ``forml.provider.feed.monolite.Feed``: A inline, B from a csv file, C and D from parquet files

A history is a list of steps ``read(feed, statement)`` - executed the way the platform does it
(``feed.producer(feed.sources, feed.features, **readerkw)(statement, None)``, see ``io.Feed.load``) -, ``mutate(feed,
table, rows)`` (the storage of that feed: the SQLite table / the csv or parquet file) and ``restart(purge)``: the
following steps run in a *newly forked child of the pristine parent* (which has imported forml and the feed modules but
has never read anything), same ``FORML_HOME``; ``purge`` additionally empties ``$FORML_HOME/.cache`` (the user deleted
the cache directory). The model is the plain content of every feed's storage; the oracle of a read is
``refeval(statement, model[feed])`` at that moment.

Everything forml does happens in the children; the parent only forks, collects the JSON observations and judges.
"""
import json
import os
import select
import shutil
import signal
import tempfile
import traceback

from hypothesis import strategies as st

from . import ast as A
from . import datagen, refeval, shapes
from . import strategies as S
from .catalog_data import TABLES

FEEDS = ('alc1', 'alc2', 'mono1', 'mono2')
TABLES4 = ('A', 'B', 'C', 'D')
MONO_KIND = {'A': 'inline', 'B': 'csv', 'C': 'parquet', 'D': 'parquet'}
KNOWN = ('not', 'abs', 'factors-asym', 'mixed-table-ref', 'bool-leaf-pred', 'cross-join')


def family(feed: str) -> str:
    return 'alchemy' if feed.startswith('alc') else 'monolite'


def other(feed: str) -> str:
    return {'alc1': 'alc2', 'alc2': 'alc1', 'mono1': 'mono2', 'mono2': 'mono1'}[feed]


# ---- generation --------------------------------------------------------------------------------------------------------
def _portable(stmt) -> bool:
    """Statements whose SQL both back-ends execute alike and none of the known parser defects touches."""
    return not (shapes.triggers(stmt) & set(KNOWN)) and not shapes.engine_dependent(stmt)


def gen_history(ch) -> dict:
    for _ in range(50):
        s0 = S.gen_statement(ch, 2, 3, 'semantic')
        if _portable(s0):
            break
    else:
        s0 = A.query(A.table('A'), [A.col('A', 'id'), A.col('A', 'x')])
    s1 = None
    if ch.pct(0.5):
        edit = S.gen_edit(ch, s0, prefer=('literal',))
        if edit is not None and edit['edit'] in ('literal', 'literal-collide') and _portable(edit['ast']):
            s1 = edit['ast']
    if s1 is None:
        for _ in range(50):
            s1 = S.gen_statement(ch, 2, 3, 'semantic')
            if _portable(s1):
                break
        else:
            s1 = A.query(A.table('B'), [A.col('B', 'id'), A.col('B', 's')])
    init = {feed: datagen.gen_data(ch, TABLES4, nulls=0.0, max_rows=4) for feed in FEEDS}
    used = sorted(set(A.tables_of(s0)) | set(A.tables_of(s1)))
    steps = []
    last = ch.pick(FEEDS)
    for _ in range(ch.int(4, 9)):
        op = ch.weighted([(60, 'read'), (26, 'mutate'), (14, 'restart')])
        if op == 'read':
            choice = ch.weighted([(35, 'same'), (40, 'other'), (25, 'any')])
            feed = last if choice == 'same' else other(last) if choice == 'other' else ch.pick(FEEDS)
            last = feed
            steps.append({'op': 'read', 'feed': feed, 'stmt': ch.weighted([(65, 0), (35, 1)])})
        elif op == 'mutate':
            feed = last if ch.pct(0.7) else ch.pick(FEEDS)
            cands = [t for t in used if not (family(feed) == 'monolite' and MONO_KIND[t] == 'inline')] or ['B']
            table = ch.pick(cands)
            steps.append({'op': 'mutate', 'feed': feed, 'table': table, 'rows': datagen.gen_table(ch, table, 0.0, 4)})
        else:
            steps.append({'op': 'restart', 'purge': ch.bool()})
    if not any(s['op'] == 'read' for s in steps):
        steps.append({'op': 'read', 'feed': last, 'stmt': 0})
    # one producer per feed for the whole process (as io.Feed.load serves its apply and train statements), or a new one per read
    return {'stmts': [s0, s1], 'init': init, 'steps': steps, 'reuse': ch.bool()}


HISTORY_BYTES = 2 * S.STATEMENT_BYTES + 64 + 4 * 300 + 9 * 80


def histories():
    return st.binary(min_size=HISTORY_BYTES, max_size=HISTORY_BYTES).map(lambda b: gen_history(S.ByteChooser(b)))


# ---- child side ----------------------------------------------------------------------------------------------------------
def _plain(kind, value):
    """Cell of a layout.Tabular -> plain value of the reference model."""
    import numpy
    import pandas

    from . import engines

    if value is None or value is pandas.NaT:
        return None
    if isinstance(value, numpy.generic):
        value = value.item()
    if isinstance(value, pandas.Timestamp):
        value = value.to_pydatetime()
    if isinstance(value, float) and value != value:
        return None
    return engines.normalise(kind, value)


_SQLITE_TYPES = {'int': 'BIGINT', 'float': 'FLOAT', 'str': 'VARCHAR', 'bool': 'BOOLEAN', 'date': 'DATE', 'timestamp': 'DATETIME'}


def _sqlite_value(kind, value):
    """Storage format SQLAlchemy's SQLite dialect uses (dates and timestamps are text)."""
    if value is None:
        return None
    if kind == 'bool':
        return int(value)
    if kind == 'timestamp':
        return value.replace('T', ' ') + '.000000'
    return value


def _write_sqlite(store, feed, content: dict):
    """(Re)write the given tables of the feed's SQLite file in one transaction."""
    import sqlite3

    con = sqlite3.connect(f'{store}/{feed}.sqlite')
    try:
        con.execute('PRAGMA synchronous=OFF')
        for table, rows in content.items():
            cols = ', '.join(f'"{c}" {_SQLITE_TYPES[k]}' for c, k in TABLES[table])
            con.execute(f'CREATE TABLE IF NOT EXISTS "{table}" ({cols})')
            con.execute(f'DELETE FROM "{table}"')
            marks = ', '.join('?' for _ in TABLES[table])
            con.executemany(f'INSERT INTO "{table}" VALUES ({marks})', [[_sqlite_value(k, r.get(c)) for c, k in TABLES[table]] for r in rows])
        con.commit()
    finally:
        con.close()


def _write_table(store, feed, table, rows):
    import pandas

    cols = [c for c, _ in TABLES[table]]
    if family(feed) == 'alchemy':
        _write_sqlite(store, feed, {table: rows})
        return
    frame = pandas.DataFrame([[r[c] for c in cols] for r in rows], columns=cols)
    if MONO_KIND[table] == 'csv':
        frame.to_csv(f'{store}/{feed}.{table}.csv', index=False)
    elif MONO_KIND[table] == 'parquet':
        for c, k in TABLES[table]:
            if not rows:
                frame[c] = frame[c].astype({'int': 'int64', 'float': 'float64'}.get(k, 'object'))
        frame.to_parquet(f'{store}/{feed}.{table}.parquet', index=False)


def _make_feed(store, feed, model):
    from . import catalog

    if family(feed) == 'alchemy':
        from forml.provider.feed import alchemy as falc

        return falc.Feed(sources={catalog.BY_NAME[t]: t for t in TABLES4}, connection=f'sqlite:///{store}/{feed}.sqlite')
    from forml.provider.feed import monolite

    inline, csv, parquet = {}, {}, {}
    for t in TABLES4:
        if MONO_KIND[t] == 'inline':
            inline[catalog.BY_NAME[t]] = [[r[c] for c, _ in TABLES[t]] for r in model[feed][t]]
        elif MONO_KIND[t] == 'csv':
            csv[catalog.BY_NAME[t]] = f'{store}/{feed}.{t}.csv'
        else:
            parquet[catalog.BY_NAME[t]] = f'{store}/{feed}.{t}.parquet'
    return monolite.Feed(inline=inline, csv=csv, parquet=parquet)


def _child(store, spec, model, steps, out_fd):
    """Executes the steps of one process life time; writes the observations of its reads as JSON."""
    import logging

    from vf.core.ctx import forml_frame

    from . import build

    logging.disable(logging.CRITICAL)  # forml logs every origin load at INFO to stderr
    obs = []
    producers = {}
    try:
        for step in steps:
            if step['op'] == 'init':
                for feed in FEEDS:
                    if family(feed) == 'alchemy':
                        _write_sqlite(store, feed, {t: model[feed][t] for t in TABLES4})
                        continue
                    for t in TABLES4:
                        if MONO_KIND[t] != 'inline':
                            _write_table(store, feed, t, model[feed][t])
            elif step['op'] == 'mutate':
                model[step['feed']][step['table']] = step['rows']
                _write_table(store, step['feed'], step['table'], step['rows'])
            elif step['op'] == 'read':
                stmt = spec['stmts'][step['stmt']]
                kinds = [k for _, k in A.outputs_of(stmt)]
                try:
                    statement, _ = build.build_statement(stmt)
                    if spec.get('reuse') and family(step['feed']) == 'alchemy' and step['feed'] in producers:
                        producer = producers[step['feed']]
                    else:
                        feed = _make_feed(store, step['feed'], model)
                        producer = producers[step['feed']] = feed.producer(feed.sources, feed.features, **feed._readerkw)
                    table = producer(statement, None)
                    rows = [[_plain(k, v) for k, v in zip(kinds, row)] for row in table.to_rows()]
                    obs.append({'rows': rows})
                except Exception as exc:  # the observation of this read
                    obs.append({'err': type(exc).__name__, 'frame': forml_frame(exc), 'msg': ' '.join(str(exc).split())[-400:]})
    except BaseException:  # harness trouble inside the child
        obs.append({'harness': traceback.format_exc()[-2000:]})
    data = json.dumps(obs).encode()
    while data:
        n = os.write(out_fd, data)
        data = data[n:]


class NativeCrash(Exception):
    """The child was killed by a native crash (observed: segfaults inside the DuckDB extension under load)."""


def run_segment(store, spec, model, steps, timeout=120.0):
    """Fork a child of the (pristine) current process, run the steps there, return the observations."""
    rfd, wfd = os.pipe()
    pid = os.fork()
    if pid == 0:
        code = 0
        try:
            os.close(rfd)
            _child(store, spec, model, steps, wfd)
            os.close(wfd)
        except BaseException:
            code = 3
        finally:
            os._exit(code)
    os.close(wfd)
    chunks = []
    try:
        while True:
            ready, _, _ = select.select([rfd], [], [], timeout)
            if not ready:
                os.kill(pid, signal.SIGKILL)
                os.waitpid(pid, 0)
                raise RuntimeError('reader-level child timed out')
            chunk = os.read(rfd, 1 << 16)
            if not chunk:
                break
            chunks.append(chunk)
    finally:
        os.close(rfd)
    _, status = os.waitpid(pid, 0)
    raw = b''.join(chunks)
    if os.WIFSIGNALED(status) and os.WTERMSIG(status) in (signal.SIGSEGV, signal.SIGABRT, signal.SIGBUS):
        raise NativeCrash(f'reader-level child killed by signal {os.WTERMSIG(status)}')
    if not raw:
        raise RuntimeError('reader-level child died without an answer')
    return json.loads(raw)


_WARM = []


def _warm_up() -> None:
    """The pristine parent: forml and the feed modules imported (nothing read), third party lazy imports resolved."""
    if _WARM:
        return
    import io

    import pandas
    import forml.provider.feed.alchemy  # noqa: F401
    import forml.provider.feed.monolite  # noqa: F401

    buf = io.BytesIO()
    pandas.DataFrame({'a': [1]}).to_parquet(buf, index=False)
    buf.seek(0)
    pandas.read_parquet(buf)
    pandas.read_csv(io.StringIO('a\n1\n'))
    pandas.read_sql('select 1 as a', 'sqlite://')
    _WARM.append(True)


_HOME = {}


def cache_dir() -> str:
    """The result cache directory of this process' ForML home.

    Sharded runs fork their workers from one parent, so all of them would share ``$FORML_HOME/.cache/alchemy`` (fixed when
    ``forml.provider.feed.alchemy`` is imported) and purge each other's files: every process that runs histories gets its
    own directory - the equivalent of running each shard with its own FORML_HOME. Its children (the restarts) inherit it."""
    from forml.provider.feed import alchemy as falc

    pid = os.getpid()
    if _HOME.get('pid') != pid:
        path = os.path.join(os.environ.get('VERIF_SCRATCH') or tempfile.gettempdir(), f'forml-home-{pid}', '.cache', 'alchemy')
        import pathlib

        falc.Feed.Reader.RESULTS = falc.Results(pathlib.Path(path))
        _HOME.update(pid=pid, path=path)
    return _HOME['path']


def purge_cache() -> None:
    path = cache_dir()
    if os.path.isdir(path):
        for name in os.listdir(path):
            try:
                os.remove(os.path.join(path, name))
            except OSError:
                pass


def execute(spec) -> list:
    """``execute_once`` with one retry of the whole history after a native crash of a child (not a verdict about forml)."""
    try:
        return execute_once(spec)
    except NativeCrash:
        return execute_once(spec)


def execute_once(spec) -> list:
    """Run a history; returns one record per read step:
    ``{'step', 'feed', 'stmt', 'obs': {...}, 'expected': refeval.Result | None, 'undefined': str | None}``."""
    import copy

    _warm_up()

    store = tempfile.mkdtemp(prefix='c06-store-', dir=os.environ.get('VERIF_SCRATCH') or None)
    model = copy.deepcopy(spec['init'])
    records = []
    try:
        purge_cache()  # a fresh ForML home
        segments = [[{'op': 'init'}]]
        for i, step in enumerate(spec['steps']):
            if step['op'] == 'restart':
                segments.append([dict(step, index=i)])
            else:
                segments[-1].append(dict(step, index=i))
        for segno, seg in enumerate(segments):
            if seg and seg[0]['op'] == 'restart' and seg[0].get('purge'):
                purge_cache()
            # the oracle: the model at the moment of each read
            expected = []
            snapshots = {}
            shadow = copy.deepcopy(model)
            for step in seg:
                if step['op'] == 'mutate':
                    shadow[step['feed']][step['table']] = step['rows']
                elif step['op'] == 'read':
                    stmt = spec['stmts'][step['stmt']]
                    snapshots[step['index']] = copy.deepcopy(shadow[step['feed']])
                    try:
                        expected.append((step, refeval.evaluate(stmt, shadow[step['feed']]), None))
                    except (refeval.Ambiguous, refeval.Undefined) as exc:
                        expected.append((step, None, type(exc).__name__))
            obs = run_segment(store, spec, model, seg)
            model = shadow
            for o in obs:
                if 'harness' in o:
                    raise RuntimeError('reader-level child failed: ' + o['harness'])
            if len(obs) != len(expected):
                raise RuntimeError(f'reader-level child answered {len(obs)} reads, expected {len(expected)}')
            for (step, exp, undefined), o in zip(expected, obs):
                records.append({'step': step['index'], 'feed': step['feed'], 'stmt': step['stmt'], 'obs': o, 'expected': exp,
                                'undefined': undefined, 'segment': segno, 'storage': snapshots[step['index']]})
    finally:
        shutil.rmtree(store, ignore_errors=True)
    return records
