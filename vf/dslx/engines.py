"""SQL engines for differential execution of the parser output: SQLite and DuckDB through SQLAlchemy 2.0.

One connection per engine per process (re-created after a fork); the catalog tables are created once with proper column
types and re-filled (``DELETE`` + ``INSERT``) for every data set. Results are normalised to the plain values of
``vf.dslx.refeval`` using the *expected output kinds* of the statement: booleans (SQLite answers 0/1), dates and
timestamps (SQLite answers the stored text, DuckDB ``datetime`` objects) -> ISO strings, ``Decimal`` -> int/float.

``parse(stmt_ast)`` drives a parser exactly like ``forml.io._input._producer.Reader._parse_statement``:
``with parser: statement.accept(parser); return parser.fetch()``.
"""
import atexit
import datetime
import decimal
import os

import sqlalchemy as sa
from sqlalchemy import sql

from forml.provider.feed.reader import alchemy as alchemy_reader

from . import build, catalog
from .catalog_data import DEFAULT_TABLES, TABLES

URLS = {'sqlite': 'sqlite://', 'duckdb': 'duckdb:///:memory:'}
_SA_TYPES = {
    'int': sa.BigInteger,
    'float': sa.Double,
    'str': sa.Unicode,
    'bool': sa.Boolean,
    'date': sa.Date,
    'timestamp': sa.DateTime,
}


def sources(tables=DEFAULT_TABLES, prefix: str = '') -> dict:
    """The ``sources`` mapping an alchemy feed would hand to its parser: DSL table -> ``sqlalchemy.table(name)``."""
    return {catalog.BY_NAME[t]: sa.table(sql.quoted_name(prefix + t, quote=True)) for t in tables}


def parse(stmt_ast, factory=alchemy_reader.Parser, srcs=None, style='operator'):
    """Selectable produced by ``factory(sources, features)`` for the statement AST (fresh DSL objects, fresh parser)."""
    statement, _ = build.build_statement(stmt_ast, style)
    return parse_statement(statement, factory, srcs)


def parse_statement(statement, factory=alchemy_reader.Parser, srcs=None):
    parser = factory(srcs if srcs is not None else sources(), {})
    with parser as visitor:
        statement.accept(visitor)
        return visitor.fetch()


def to_python(kind, value):
    """Value of the plain-data model -> the python object bound to an INSERT."""
    if value is None:
        return None
    if kind == 'date':
        return datetime.date.fromisoformat(value)
    if kind == 'timestamp':
        return datetime.datetime.fromisoformat(value)
    return value


def normalise(kind, value):
    """Engine value -> plain value of the reference model for an output column of the expected kind."""
    if value is None:
        return None
    if isinstance(value, decimal.Decimal):
        value = int(value) if value == value.to_integral_value() and kind != 'float' else float(value)
    if isinstance(value, float) and value != value:  # NaN is how some drivers spell NULL in float columns
        return None
    if kind == 'bool':
        if isinstance(value, (int, float)) and not isinstance(value, bool) and value in (0, 1):
            return bool(value)
        return value
    if kind == 'date':
        if isinstance(value, datetime.datetime):
            return value.date().isoformat()
        if isinstance(value, datetime.date):
            return value.isoformat()
        return str(value)[:10] if isinstance(value, str) and len(value) >= 10 else value
    if kind == 'timestamp':
        if isinstance(value, datetime.datetime):
            return value.replace(microsecond=0).isoformat()
        if isinstance(value, datetime.date):
            return value.isoformat() + 'T00:00:00'
        if isinstance(value, str) and len(value) >= 19:
            return value[:10] + 'T' + value[11:19]
        return value
    if kind == 'int':
        if isinstance(value, float) and value == int(value):
            return int(value)
        return value
    if kind == 'float':
        if isinstance(value, int) and not isinstance(value, bool):
            return float(value)
        return value
    return value


def normalise_rows(kinds, rows) -> list:
    """Rows normalised by the expected kinds; a row of another width is kept whole (it is a mismatch by itself)."""
    return [tuple(normalise(k, v) for k, v in zip(kinds, row)) + tuple(row[len(kinds):]) for row in rows]


class Engine:
    """One engine, one connection, the catalog tables."""

    def __init__(self, name: str, url: str = None, tables=DEFAULT_TABLES):
        self.name = name
        # DuckDB single threaded: its parallel join operators crashed natively (segfault inside _duckdb, DuckDB 1.5) on
        # tiny outer joins with two inequality conditions when the machine was loaded; the tables here have <= 6 rows
        kwargs = {'connect_args': {'config': {'threads': 1}}} if name == 'duckdb' else {}
        self.engine = sa.create_engine(url or URLS[name], **kwargs)
        self.meta = sa.MetaData()
        self.tables = {}
        for t in tables:
            cols = [sa.Column(sql.quoted_name(n, quote=True), _SA_TYPES[k]()) for n, k in TABLES[t]]
            self.tables[t] = sa.Table(sql.quoted_name(t, quote=True), self.meta, *cols)
        self.conn = self.engine.connect()
        self.meta.create_all(self.conn)
        self.conn.commit()
        self._loaded = None
        self._loads = 0
        from sqlalchemy.schema import CreateTable

        self._ddl = [(f'DROP TABLE IF EXISTS "{t}"', str(CreateTable(tab).compile(self.engine))) for t, tab in self.tables.items()]

    #: DuckDB 1.5 crashed natively (segfault inside _duckdb) on outer joins with two inequality conditions over tables
    #: that had gone through some hundred DELETE + INSERT cycles; freshly created tables never did: recreate them regularly
    RECREATE_EVERY = 20

    def _recreate(self) -> None:
        for drop, create in self._ddl:
            self.conn.exec_driver_sql(drop)
            self.conn.exec_driver_sql(create)

    def load(self, data: dict) -> None:
        """Replace the content of all catalog tables."""
        key = repr(sorted((k, v) for k, v in data.items()))
        if key == self._loaded:
            return
        self._loaded = None
        self._loads += 1
        fresh = self.name == 'duckdb' and self._loads % self.RECREATE_EVERY == 0
        if fresh:
            self._recreate()
        for name, table in self.tables.items():
            if not fresh:
                self.conn.execute(table.delete())
            rows = data.get(name) or []
            if rows:
                kinds = dict(TABLES[name])
                self.conn.execute(table.insert(), [{c: to_python(kinds[c], r.get(c)) for c in kinds} for r in rows])
        self.conn.commit()
        self._loaded = key

    def execute(self, selectable, kinds=None) -> list:
        """Rows of the selectable (normalised when the expected kinds are given). Engine errors propagate."""
        trace = os.environ.get('VERIF_SQL_TRACE')
        if trace:  # debugging aid: the statement an engine dies on (native crash) is the last one written
            with open(os.path.join(trace, f'{self.name}-{os.getpid()}.sql'), 'w') as fh:
                fh.write(str(selectable.compile(self.engine, compile_kwargs={'literal_binds': True})) + '\n-- data: ' + (self._loaded or ''))
        try:
            rows = self.conn.execute(selectable).fetchall()
        except Exception:
            self.conn.rollback()
            raise
        rows = [tuple(r) for r in rows]
        self.conn.rollback()  # read only: release the implicit transaction
        return normalise_rows(kinds, rows) if kinds is not None else rows

    def close(self):
        try:
            self.conn.close()
            self.engine.dispose()
        except Exception:  # pragma: no cover
            pass


_POOL = {}
_INHERITED = []  # engines of a parent process: never used, never finalised (DuckDB objects must not die in a forked child)


def get(name: str) -> Engine:
    """Process-wide engine (a forked child makes its own: connections do not survive a fork)."""
    key = (os.getpid(), name)
    if key not in _POOL:
        for old in [k for k in _POOL if k[0] != os.getpid()]:
            _INHERITED.append(_POOL.pop(old))
        _POOL[key] = Engine(name)
    return _POOL[key]


def _close_all():
    for (pid, _), eng in list(_POOL.items()):
        if pid == os.getpid():
            eng.close()
    _POOL.clear()


atexit.register(_close_all)
# no live DuckDB connection may cross a fork (sharded runs, reader-level restarts): they are closed in the parent right
# before it forks and re-created lazily afterwards
os.register_at_fork(before=_close_all)


def both() -> list:
    return [get('sqlite'), get('duckdb')]
