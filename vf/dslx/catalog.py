"""Catalog of tables used by all DSL-layer checks.

``TABLES`` is the plain-data description (used by oracles, generators, reference evaluators - they never introspect
forml objects); the ``dsl.Schema`` subclasses below are the forml side of the same catalog. ``D`` has a field whose
python attribute name (``val``) differs from its field name (``value``): statements address it by the *field name*
(``{'f':'col','table':'D','name':'value'}``), ``ATTRS`` gives the attribute spelling for builders that want it.
``E`` is a structural twin of ``C`` (identical fields, different name) used only by identity checks (C08); it is not
part of ``DEFAULT_TABLES``.
"""
from forml.io import dsl

from .catalog_data import ATTRS, DEFAULT_TABLES, TABLES  # noqa: F401  (plain-data side, forml free)


class A(dsl.Schema):
    """All primitive kinds."""

    id = dsl.Field(dsl.Integer())
    x = dsl.Field(dsl.Integer())
    f = dsl.Field(dsl.Float())
    s = dsl.Field(dsl.String())
    b = dsl.Field(dsl.Boolean())
    d = dsl.Field(dsl.Date())
    t = dsl.Field(dsl.Timestamp())


class B(dsl.Schema):
    """Child of A (B.a -> A.id)."""

    id = dsl.Field(dsl.Integer())
    a = dsl.Field(dsl.Integer())
    y = dsl.Field(dsl.Float())
    s = dsl.Field(dsl.String())


class C(dsl.Schema):
    """Child of B (C.b -> B.id)."""

    id = dsl.Field(dsl.Integer())
    b = dsl.Field(dsl.Integer())
    z = dsl.Field(dsl.Integer())


class D(dsl.Schema):
    """Table with an aliased field name."""

    id = dsl.Field(dsl.Integer())
    val = dsl.Field(dsl.Integer(), name='value')


class E(dsl.Schema):
    """Structural twin of C."""

    id = dsl.Field(dsl.Integer())
    b = dsl.Field(dsl.Integer())
    z = dsl.Field(dsl.Integer())


BY_NAME = {'A': A, 'B': B, 'C': C, 'D': D, 'E': E}
KINDS = {
    'int': dsl.Integer(),
    'float': dsl.Float(),
    'str': dsl.String(),
    'bool': dsl.Boolean(),
    'date': dsl.Date(),
    'timestamp': dsl.Timestamp(),
}


def kind_name(kind) -> str:
    """Plain name of a forml primitive kind instance (by class name, no forml equality involved)."""
    return {
        'Integer': 'int',
        'Float': 'float',
        'String': 'str',
        'Boolean': 'bool',
        'Date': 'date',
        'Timestamp': 'timestamp',
        'Decimal': 'decimal',
    }.get(type(kind).__name__, type(kind).__name__)
