"""Harness parsers for C14: capture of the push-down hints and a parser that really applies them.

``ToyParser``        a minimal concrete ``forml.io.dsl.parser.Visitor`` (symbols are plain tuples): exercises exactly the
                     DSL layer (``parser.py`` + ``series.py``) and records, per visited table, the hints the visitor is
                     about to hand to ``generate_table``: ``context.tables[source].fields / .predicate`` read in an
                     overridden ``visit_table`` *before* delegating.
``HonouringParser``  ``alchemy.Parser`` subclass whose ``generate_table(table, features, predicate)`` applies the hints:
                     ``select(features).select_from(table).where(predicate).subquery(name=table.name)`` (columns and/or
                     rows, switchable). Elements are rendered as ``literal_column('"<origin>"."<name>"')`` because a
                     ``sql.column(..., _selectable=origin)`` drags its own FROM object next to the subquery. With both
                     switches off it must behave exactly like the stock parser (checked on every statement). The
                     ``Not``/``Abs`` entries of the expression map are repaired (``sql.not_`` / ``func.abs``): those are
                     C06's findings and would hide every negated predicate from C14.
``to_ast``           forml feature object -> JSON AST (the offered filter is an *observation*; it is evaluated on base
                     rows with the reference evaluator's expression semantics).
"""
import datetime

import sqlalchemy as sa
from sqlalchemy import func, sql

from forml.io import dsl
from forml.io.dsl import function
from forml.io.dsl import parser as parsmod
from forml.provider.feed.reader import alchemy as alchemy_reader

from . import ast as A
from . import catalog, refeval


class Hint:
    """Hints offered for one table scan."""

    def __init__(self, source, fields, predicate):
        self.source = source
        self.table = table_name(source)
        self.fields = fields  # set of dsl.Column
        self.predicate = predicate  # dsl.Predicate | None

    @property
    def columns(self) -> set:
        return {f.name for f in self.fields}


def table_name(source) -> str:
    for name, tab in catalog.BY_NAME.items():
        if tab is source:
            return name
    return repr(source)


class ToyParser(parsmod.Visitor):
    """Smallest concrete visitor: tuples as target code, hints recorded per table visit."""

    def __init__(self, sources):
        super().__init__(sources, {})
        self.hints = []

    def resolve_feature(self, feature):
        try:
            return super().resolve_feature(feature)
        except dsl.UnprovisionedError:
            if isinstance(feature, dsl.Element):
                return feature.name
            raise

    def generate_element(self, origin, element):
        return ('element', origin, element)

    def generate_alias(self, feature, alias):
        return ('alias', feature, alias)

    def generate_literal(self, value, kind):
        return ('literal', value)

    def generate_expression(self, expression, arguments):
        return (expression.__name__,) + tuple(arguments)

    def generate_reference(self, instance, name):
        return ('reference', instance, name), ('handle', name)

    def generate_join(self, left, right, condition, kind):
        return ('join', left, right, condition, kind.value)

    def generate_set(self, left, right, kind):
        return ('set', left, right, kind.value)

    def generate_query(self, source, features, where, groupby, having, orderby, rows):
        return ('query', source, tuple(features), where, tuple(groupby), having, tuple(orderby), rows)

    def generate_table(self, table, features, predicate):
        return ('table', table)

    def visit_table(self, source):
        segment = self.context.tables[source]
        self.hints.append(Hint(source, set(segment.fields), segment.predicate))
        super().visit_table(source)


def toy_sources() -> dict:
    return {tab: name for name, tab in catalog.BY_NAME.items()}


def capture(statement):
    """``(hints, exception | None)`` of driving a ToyParser over the statement like ``Reader._parse_statement``."""
    parser = ToyParser(toy_sources())
    try:
        with parser as visitor:
            statement.accept(visitor)
            visitor.fetch()
    except Exception as exc:  # the hints captured so far are still valid observations
        return parser.hints, exc
    return parser.hints, None


class HonouringParser(alchemy_reader.Parser):
    """alchemy.Parser applying the push-down hints in ``generate_table``."""

    EXPRESSION = {**alchemy_reader.Parser.EXPRESSION, function.Not: sql.not_, function.Abs: func.abs}
    COLUMNS = False
    ROWS = False

    def generate_element(self, origin, element):
        return sql.literal_column(f'"{origin.name}"."{element.name}"')

    def generate_table(self, table, features, predicate):
        if not self.COLUMNS and not (self.ROWS and predicate is not None):
            return table
        if self.COLUMNS:
            items = list(features) or [sql.literal_column('NULL').label('no_column_requested')]
        else:
            items = [sa.text('*')]
        query = sa.select(*items).select_from(table)
        if self.ROWS and predicate is not None:
            query = query.where(predicate)
        return query.subquery(name=table.name)


class IgnoringParser(HonouringParser):
    """The harness transformation alone (must equal the stock parser)."""


class ColumnsParser(HonouringParser):
    COLUMNS = True


class RowsParser(HonouringParser):
    ROWS = True


class BothParser(HonouringParser):
    COLUMNS = True
    ROWS = True


# ---- forml feature -> AST --------------------------------------------------------------------------------------------------
_CMP = {'Equal': 'eq', 'NotEqual': 'ne', 'LessThan': 'lt', 'LessEqual': 'le', 'GreaterThan': 'gt', 'GreaterEqual': 'ge'}
_ARITH = {'Addition': 'add', 'Subtraction': 'sub', 'Multiplication': 'mul', 'Division': 'div', 'Modulus': 'mod'}
_AGG = {'Count': 'count', 'Sum': 'sum', 'Avg': 'avg', 'Min': 'min', 'Max': 'max'}
_UNARY = {'IsNull': 'isnull', 'NotNull': 'notnull', 'Abs': 'abs', 'Ceil': 'ceil', 'Floor': 'floor', 'Year': 'year', 'Not': 'not'}


class Unconvertible(Exception):
    pass


def to_ast(feature):
    """JSON AST of a forml feature (inverse of ``vf.dslx.build.build_feature``)."""
    if hasattr(feature, 'operable') and type(feature).__name__ == 'Pythonic':
        feature = feature.operable
    name = type(feature).__name__
    if isinstance(feature, dsl.Column):
        return A.col(table_name(feature.origin), feature.name)
    if isinstance(feature, dsl.Element):
        return A.elem(feature.origin.name, feature.name)
    if isinstance(feature, dsl.Literal):
        value = feature.value
        kind = catalog.kind_name(feature.kind)
        if isinstance(value, datetime.datetime):
            value = value.isoformat()
        elif isinstance(value, datetime.date):
            value = value.isoformat()
        return A.lit(value, kind)
    if isinstance(feature, dsl.Aliased):
        return A.alias(to_ast(feature.operable), feature.name)
    if name in _CMP:
        return A.cmp(_CMP[name], to_ast(feature[0]), to_ast(feature[1]))
    if name in _ARITH:
        return A.arith(_ARITH[name], to_ast(feature[0]), to_ast(feature[1]))
    if name == 'And':
        return A.and_(to_ast(feature[0]), to_ast(feature[1]))
    if name == 'Or':
        return A.or_(to_ast(feature[0]), to_ast(feature[1]))
    if name in _UNARY:
        return A.unary(_UNARY[name], to_ast(feature[0]))
    if name in _AGG:
        return A.agg(_AGG[name], to_ast(feature[0]))
    if name == 'Cast':
        return A.cast(to_ast(feature[0]), catalog.kind_name(feature[1]))
    raise Unconvertible(name)


def holds(pred_ast, table: str, row: dict):
    """Three-valued value of a single-table predicate AST on a base row of the table (None = NULL)."""
    env = {('col', table, c): row.get(c) for c, _ in catalog.TABLES[table]}
    scope = {('col', table, c): k for c, k in catalog.TABLES[table]}
    return refeval._Eval(scope).value(pred_ast, env)
