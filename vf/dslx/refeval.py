"""Reference evaluator: a direct relational-algebra interpreter of the JSON statement AST (``vf.dslx.ast``) over Python
rows. No forml, no SQL engine: this is the independent oracle of C06 / C14.

``evaluate(stmt, data, lineage=False) -> Result``

``data = {'A': [ {field name: value, ...}, ...], ...}``; values are ``int | float | str | bool | None``, dates are ISO
strings ``YYYY-MM-DD`` and timestamps ISO strings ``YYYY-MM-DDTHH:MM:SS`` (both compare correctly as strings).

Semantics (SQL): three-valued logic - comparison / arithmetic / function with a NULL operand gives NULL, Kleene
and/or/not, ``where / having / on`` keep the rows whose predicate is TRUE; bag semantics; inner/left/right/full/cross
joins (cross = Cartesian product: empty when a side is empty); named references; nested statements;
``union / intersection / difference`` with the *distinct* semantics of the SQL set operators (NULLs compare equal
there); grouping (NULL keys form one group) with ``count`` (non-NULL values), ``sum / avg / min / max`` (NULL skipping,
NULL for a group without a non-NULL value); an aggregate without grouping makes one group (also over no rows);
ordering; limit / offset.

Ordering and limit. SQL leaves two things open: the relative order of rows with equal keys and the place of NULL keys.
The result therefore carries ``blocks`` - the sizes of the runs of equal keys, in key order - and ``nullkeys``; the
comparison helpers accept every order a conforming engine may produce. A limit whose window cuts through a run of
*distinguishable* rows (or with NULL keys around) is ambiguous: at the top level the result is marked ``weak`` (only
cardinality and sub-multiset of ``full`` can be asserted); inside a nested statement ``Ambiguous`` is raised (the
statement has no single denotation over this data). Values an SQL engine is free to define differently raise
``Undefined`` (cast of a non-numeric string to a number).

Row lineage (``lineage=True``): for every result row the frozenset of ``(scan index, row index)`` pairs of the base
table rows it was derived from (why-provenance: join = union of both sides, aggregate = all rows of the group, union =
rows of all equal operands' rows, intersection = both sides, difference = left side). The scan index numbers the
*table nodes* of the statement in source pre-order (query: source; join: left, right; set: left, right; reference:
source) - the order in which ``forml.io.dsl.parser.Visitor`` visits tables.
"""
import math
import typing

from . import ast as A
from .catalog_data import TABLES


class Ambiguous(Exception):
    """A nested limit cuts through rows SQL does not order: the statement has no single denotation on this data."""


class Undefined(Exception):
    """The value is engine defined (not part of the compared semantics)."""


class Result(typing.NamedTuple):
    columns: list  # [(name | None, kind)]
    rows: list  # result tuples; in key order when ``ordered``
    ordered: bool  # an orderby is present at the top level
    blocks: typing.Optional[list]  # sizes of the runs of equal order keys (sum == len(rows)); None when not ordered
    nullkeys: bool  # some order key value is NULL (their placement is engine defined)
    weak: bool  # ambiguous top-level limit: assert only len(rows) == cardinality and result within ``full``
    cardinality: int
    full: list  # rows before limit/offset (== rows when there is no limit)
    lineage: typing.Optional[list]  # per row of ``rows`` (None unless requested)
    full_lineage: typing.Optional[list]
    keys: typing.Optional[list]  # per row of ``rows``: the order key tuple


# ---- scans -------------------------------------------------------------------------------------------------------------
def source_children(node) -> list:
    t = node['t']
    if t in ('ref', 'query'):
        return [node['src']]
    if t in ('join', 'set'):
        return [node['left'], node['right']]
    return []


def scans(stmt) -> list:
    """Table nodes in the visiting order of the parser: ``[(path, node)]`` (path through source children only)."""
    out = []

    def rec(node, path):
        t = node['t']
        if t == 'table':
            out.append((path, node))
        elif t in ('ref', 'query'):
            rec(node['src'], path + ('src',))
        else:
            rec(node['left'], path + ('left',))
            rec(node['right'], path + ('right',))

    rec(stmt, ())
    return out


# ---- three valued logic / scalar functions -----------------------------------------------------------------------------
def _cmp(op, a, b):
    if a is None or b is None:
        return None
    if op == 'eq':
        return a == b
    if op == 'ne':
        return a != b
    if op == 'lt':
        return a < b
    if op == 'le':
        return a <= b
    if op == 'gt':
        return a > b
    return a >= b


def _and(a, b):
    if a is False or b is False:
        return False
    if a is None or b is None:
        return None
    return True


def _or(a, b):
    if a is True or b is True:
        return True
    if a is None or b is None:
        return None
    return False


def _arith(op, a, b):
    if a is None or b is None:
        return None
    if op == 'add':
        return a + b
    if op == 'sub':
        return a - b
    if op == 'mul':
        return a * b
    if op == 'div':
        if isinstance(a, int) and isinstance(b, int):
            raise Undefined('integer division')
        if b == 0:
            raise Undefined('division by zero')
        return a / b
    if op == 'mod':
        raise Undefined('modulus')
    raise ValueError(op)


def _cast(value, src, dst):
    if value is None:
        return None
    if src == dst:
        return value
    if dst == 'float':
        if src in ('int', 'bool'):
            return float(value)
        if src == 'str':
            try:
                return float(value)
            except ValueError:
                raise Undefined('non-numeric string to float') from None
    if dst == 'int':
        if src == 'float':
            return int(math.floor(abs(value) + 0.5)) * (1 if value >= 0 else -1)  # engines differ: flagged by the caller
        if src == 'bool':
            return int(value)
        if src == 'str':
            try:
                return int(value)
            except ValueError:
                raise Undefined('non-integer string to int') from None
    if dst == 'str':
        if src == 'int':
            return str(value)
        if src == 'float':
            return repr(float(value))
        if src in ('date', 'timestamp'):
            return value.replace('T', ' ')
        if src == 'bool':
            return 'true' if value else 'false'
    if dst == 'timestamp' and src == 'date':
        return value + 'T00:00:00'
    if dst == 'date' and src == 'timestamp':
        return value[:10]
    if dst == 'bool' and src in ('int', 'float'):
        return value != 0
    raise Undefined(f'cast {src}->{dst}')


class _Eval:
    """Expression evaluation over an environment ``element key -> value``."""

    def __init__(self, scope):
        self.scope = scope  # element key -> kind

    def kind(self, f):
        return A.kind_of(f, self.scope)

    def value(self, f, env, group=None):
        """Value of a feature on a row (``env``); aggregates are evaluated over ``group`` (list of envs)."""
        t = f['f']
        if t in ('col', 'elem'):
            return env[A.element_key(f)]
        if t == 'lit':
            return f['v']
        if t == 'alias':
            return self.value(f['of'], env, group)
        if t == 'cmp':
            return _cmp(f['op'], self.value(f['l'], env, group), self.value(f['r'], env, group))
        if t == 'and':
            return _and(self.value(f['l'], env, group), self.value(f['r'], env, group))
        if t == 'or':
            return _or(self.value(f['l'], env, group), self.value(f['r'], env, group))
        if t == 'not':
            v = self.value(f['x'], env, group)
            return None if v is None else (not v)
        if t == 'arith':
            return _arith(f['op'], self.value(f['l'], env, group), self.value(f['r'], env, group))
        if t == 'isnull':
            return self.value(f['x'], env, group) is None
        if t == 'notnull':
            return self.value(f['x'], env, group) is not None
        if t == 'abs':
            v = self.value(f['x'], env, group)
            return None if v is None else abs(v)
        if t == 'ceil':
            v = self.value(f['x'], env, group)
            return None if v is None else int(math.ceil(v))
        if t == 'floor':
            v = self.value(f['x'], env, group)
            return None if v is None else int(math.floor(v))
        if t == 'year':
            v = self.value(f['x'], env, group)
            return None if v is None else int(v[:4])
        if t == 'cast':
            return _cast(self.value(f['x'], env, group), self.kind(f['x']), f['kind'])
        if t == 'agg':
            if group is None:
                raise ValueError('aggregate outside of an aggregation context')
            vals = [self.value(f['x'], e, None) for e in group]
            vals = [v for v in vals if v is not None]
            fn = f['fn']
            if fn == 'count':
                return len(vals)
            if not vals:
                return None
            if fn == 'sum':
                return sum(vals)
            if fn == 'avg':
                return sum(vals) / len(vals)
            if fn == 'min':
                return min(vals)
            return max(vals)
        raise ValueError(f'unsupported feature {t}')


# ---- relations ---------------------------------------------------------------------------------------------------------
class _Rel(typing.NamedTuple):
    keys: list  # element keys of the environment
    rows: list  # [(env dict, lineage frozenset)]


def _hashable(row):
    """Row key under which SQL set operators / grouping consider rows equal (NULL == NULL, 1 == 1.0)."""
    return tuple(('n',) if v is None else ('v', v) for v in row)


class _Interp:
    def __init__(self, stmt, data, lineage):
        self.data = data
        self.lineage = lineage
        self.scan_index = {id(node): i for i, (_, node) in enumerate(scans(stmt))}

    # -- origins (things with an environment) ------------------------------------------------------------------------
    def origin(self, node) -> _Rel:
        t = node['t']
        if t == 'table':
            name = node['name']
            keys = [('col', name, n) for n, _ in TABLES[name]]
            scan = self.scan_index.get(id(node), -1)
            rows = []
            for i, row in enumerate(self.data.get(name, [])):
                env = {('col', name, n): row.get(n) for n, _ in TABLES[name]}
                rows.append((env, frozenset([(scan, i)]) if self.lineage else None))
            return _Rel(keys, rows)
        if t == 'ref':
            names = [n for n, _ in A.outputs_of(node['src'])]
            if node['src']['t'] == 'table':
                inner = self.origin(node['src'])
                keys = [('elem', node['name'], n) for n in names]
                rows = [({('elem', node['name'], k[2]): v for k, v in env.items()}, lin) for env, lin in inner.rows]
                return _Rel(keys, rows)
            rows_, lins = self.nested(node['src'])
            keys = [('elem', node['name'], n) for n in names if n is not None]
            rows = []
            for r, row in enumerate(rows_):
                env = {('elem', node['name'], n): v for n, v in zip(names, row) if n is not None}
                rows.append((env, lins[r] if self.lineage else None))
            return _Rel(keys, rows)
        if t == 'join':
            return self.join(node)
        if t in ('query', 'set'):  # queried directly (not generated): behaves like an anonymous reference
            raise ValueError('direct query over a statement is not supported by the reference evaluator')
        raise ValueError(t)

    def join(self, node) -> _Rel:
        left, right = self.origin(node['left']), self.origin(node['right'])
        kind, cond = node['kind'], node.get('cond')
        keys = left.keys + right.keys
        scope = dict(A.scope_of(node['left']))
        scope.update(A.scope_of(node['right']))
        ev = _Eval(scope)
        lnull = {k: None for k in left.keys}
        rnull = {k: None for k in right.keys}
        out = []
        rmatched = [False] * len(right.rows)
        for lenv, llin in left.rows:
            matched = False
            for j, (renv, rlin) in enumerate(right.rows):
                env = dict(lenv)
                env.update(renv)
                if cond is None or ev.value(cond, env) is True:
                    matched = True
                    rmatched[j] = True
                    out.append((env, (llin | rlin) if self.lineage else None))
            if not matched and kind in ('left', 'full'):
                env = dict(lenv)
                env.update(rnull)
                out.append((env, llin))
        if kind in ('right', 'full'):
            for j, (renv, rlin) in enumerate(right.rows):
                if not rmatched[j]:
                    env = dict(lnull)
                    env.update(renv)
                    out.append((env, rlin))
        return _Rel(keys, out)

    # -- statements ---------------------------------------------------------------------------------------------------
    def nested(self, node):
        """(rows, lineages) of a statement used as a source: no order, ambiguity is fatal."""
        res = self.statement(node)
        if res['weak']:
            raise Ambiguous('nested limit without a total order')
        return res['rows'], res['lineage']

    def statement(self, node) -> dict:
        if node['t'] == 'set':
            return self.setop(node)
        if node['t'] == 'query':
            return self.query(node)
        raise ValueError(f'not a statement: {node["t"]}')

    def setop(self, node) -> dict:
        lrows, llin = self.nested(node['left'])
        rrows, rlin = self.nested(node['right'])
        kind = node['kind']
        lmap, rmap = {}, {}
        for rows, lins, dst in ((lrows, llin, lmap), (rrows, rlin, rmap)):
            for i, row in enumerate(rows):
                key = _hashable(row)
                ent = dst.setdefault(key, [row, frozenset()])
                if self.lineage:
                    ent[1] = ent[1] | lins[i]
        out = []
        if kind == 'union':
            for key, (row, lin) in lmap.items():
                out.append((row, lin | rmap[key][1] if key in rmap else lin))
            for key, (row, lin) in rmap.items():
                if key not in lmap:
                    out.append((row, lin))
        elif kind == 'intersection':
            for key, (row, lin) in lmap.items():
                if key in rmap:
                    out.append((row, lin | rmap[key][1]))
        else:
            for key, (row, lin) in lmap.items():
                if key not in rmap:
                    out.append((row, lin))
        rows = [r for r, _ in out]
        lins = [lin for _, lin in out] if self.lineage else None
        return {'rows': rows, 'lineage': lins, 'ordered': False, 'blocks': None, 'nullkeys': False, 'weak': False,
                'cardinality': len(rows), 'full': rows, 'full_lineage': lins, 'keys': None}

    def query(self, node) -> dict:
        if node['src']['t'] in ('set', 'query'):
            # a statement queried directly (not through a reference): only the plain select-all is given a meaning here
            if node.get('select') or node.get('where') is not None or node.get('groupby') or node.get('having') is not None \
                    or node.get('orderby') or node.get('limit') is not None:
                raise ValueError('only a plain select-all directly over a statement is supported')
            return self.statement(node['src'])
        rel = self.origin(node['src'])
        scope = A.scope_of(node['src'])
        ev = _Eval(scope)
        rows = rel.rows
        if node.get('where') is not None:
            rows = [(env, lin) for env, lin in rows if ev.value(node['where'], env) is True]
        select = node.get('select') or A.features_of(node['src'])
        groupby = node.get('groupby') or []
        having = node.get('having')
        orderby = node.get('orderby') or []
        aggregated = bool(groupby) or any(A.has_agg(f) for f in select) or (having is not None and A.has_agg(having))
        items = []  # (output row, lineage, order key)
        if aggregated:
            groups = {}
            if groupby:
                for env, lin in rows:
                    key = _hashable(tuple(ev.value(g, env) for g in groupby))
                    groups.setdefault(key, []).append((env, lin))
            else:
                groups[()] = list(rows)
            for members in groups.values():
                envs = [e for e, _ in members]
                rep = envs[0] if envs else {k: None for k in rel.keys}
                if having is not None and ev.value(having, rep, envs) is not True:
                    continue
                out = tuple(ev.value(f, rep, envs) for f in select)
                lin = frozenset().union(*[ln for _, ln in members]) if self.lineage else None
                items.append((out, lin, tuple(ev.value(o, rep, envs) for o, _ in orderby)))
        else:
            for env, lin in rows:
                if having is not None and ev.value(having, env) is not True:
                    continue
                items.append((tuple(ev.value(f, env) for f in select), lin, tuple(ev.value(o, env) for o, _ in orderby)))
        blocks = None
        nullkeys = any(v is None for _, _, key in items for v in key)
        if orderby:
            dirs = [d for _, d in orderby]

            def skey(item):  # NULLs smallest (the reference's convention; comparisons accept the others)
                return tuple(
                    _Desc((0,) if v is None else (1, v)) if d == 'desc' else ((0,) if v is None else (1, v))
                    for v, d in zip(item[2], dirs)
                )

            items.sort(key=skey)
            blocks = []
            prev = object()
            for it in items:
                k = _hashable(it[2])
                if k == prev:
                    blocks[-1] += 1
                else:
                    blocks.append(1)
                    prev = k
        else:
            blocks = [len(items)] if items else []
        full = items
        weak = False
        cardinality = len(items)
        if node.get('limit') is not None:
            count, offset = int(node['limit'][0]), int(node['limit'][1])
            lo, hi = min(offset, len(full)), min(offset + count, len(full))
            cardinality = hi - lo
            # ambiguity: a boundary inside a run of distinguishable rows, or NULL keys whose placement is engine defined
            pos = 0
            newblocks = []
            for size in blocks:
                a, b = max(pos, lo), min(pos + size, hi)
                if a < b:
                    newblocks.append(b - a)
                    if (b - a) < size:
                        members = full[pos : pos + size]
                        ident = {(_hashable(m[0]), m[1]) for m in members}
                        if len(ident) > 1:
                            weak = True
                pos += size
            if nullkeys and cardinality < len(full):
                weak = True
            items = full[lo:hi]
            blocks = newblocks
        return {
            'rows': [it[0] for it in items],
            'lineage': [it[1] for it in items] if self.lineage else None,
            'ordered': bool(orderby),
            'blocks': blocks if orderby else None,
            'nullkeys': nullkeys,
            'weak': weak,
            'cardinality': cardinality,
            'full': [it[0] for it in full],
            'full_lineage': [it[1] for it in full] if self.lineage else None,
            'keys': [it[2] for it in items] if orderby else None,
        }


class _Desc:
    """Reverses the order of the wrapped sort key."""

    __slots__ = ('v',)

    def __init__(self, v):
        self.v = v

    def __lt__(self, other):
        return other.v < self.v

    def __eq__(self, other):
        return self.v == other.v


def evaluate(stmt, data, lineage: bool = False) -> Result:
    """Denotation of the statement over the data. Raises ``Ambiguous`` / ``Undefined`` (see the module docstring)."""
    res = _Interp(stmt, data, lineage).statement(stmt)
    return Result(columns=A.outputs_of(stmt), **res)


# ---- comparison of an engine result with the reference -------------------------------------------------------------------
REL_TOL = 1e-9


def canon(value):
    """Canonical form of one cell for multiset comparison: numbers by value (1 == 1.0 == True is *not* folded: bools
    stay bools), floats rounded to 9 significant digits."""
    if value is None:
        return (0,)
    if isinstance(value, bool):
        return (1, value)
    if isinstance(value, (int, float)):
        if isinstance(value, float) and (math.isnan(value) or math.isinf(value)):
            return (2, repr(value))
        if value == 0:
            return (2, 0.0)
        return (2, float(f'{float(value):.9g}'))
    return (3, str(value))


def canon_row(row):
    return tuple(canon(v) for v in row)


def multiset(rows) -> dict:
    out = {}
    for row in rows:
        key = canon_row(row)
        out[key] = out.get(key, 0) + 1
    return out


def same_multiset(a, b) -> bool:
    return multiset(a) == multiset(b)


def sub_multiset(small, big) -> bool:
    have = multiset(big)
    for key, n in multiset(small).items():
        if have.get(key, 0) < n:
            return False
    return True


def compare(result: Result, got: list, directions: typing.Optional[list] = None) -> typing.Optional[str]:
    """None when ``got`` (engine rows, normalised) is an admissible result, else a short mismatch kind:
    ``cardinality`` / ``content`` / ``order``."""
    if result.weak:
        if len(got) != result.cardinality:
            return 'cardinality'
        return None if sub_multiset(got, result.full) else 'content'
    if len(got) != len(result.rows):
        return 'cardinality'
    if not same_multiset(got, result.rows):
        return 'content'
    if not result.ordered:
        return None
    if order_ok(result, got, directions):
        return None
    return 'order'


def order_ok(result: Result, got: list, directions: typing.Optional[list]) -> bool:
    """``got`` equals the reference rows run by run (rows of one run in any order) under some NULL placement."""
    for rows, blocks in orderings(result, directions):
        pos = 0
        ok = True
        for size in blocks:
            if not same_multiset(got[pos : pos + size], rows[pos : pos + size]):
                ok = False
                break
            pos += size
        if ok:
            return True
    return False


def orderings(result: Result, directions: typing.Optional[list]):
    """Admissible (rows, blocks) arrangements of an ordered result: one per NULL placement convention."""
    if not result.nullkeys or not result.keys or directions is None:
        return [(result.rows, result.blocks)]
    out = []
    idx = list(range(len(result.rows)))
    for convention in ('smallest', 'largest', 'last', 'first'):

        def skey(i, convention=convention):
            parts = []
            for v, d in zip(result.keys[i], directions):
                if v is None:
                    if convention == 'smallest':
                        rank = 0 if d == 'asc' else 2
                    elif convention == 'largest':
                        rank = 2 if d == 'asc' else 0
                    elif convention == 'last':
                        rank = 2
                    else:
                        rank = 0
                    parts.append((rank, 0))
                else:
                    parts.append((1, _Desc(v) if d == 'desc' else v))
            return tuple(parts)

        order = sorted(idx, key=skey)
        rows = [result.rows[i] for i in order]
        blocks = []
        prev = object()
        for i in order:
            k = _hashable(result.keys[i])
            if k == prev:
                blocks[-1] += 1
            else:
                blocks.append(1)
                prev = k
        out.append((rows, blocks))
    return out
