"""Execution helper of C10: one SQLite (in memory) table per ordinal kind behind a harness ``io.Feed`` using the
SQLAlchemy reader, ``project.Source`` descriptors over those tables, and two ways of running the source operator
returned by ``Feed.load``: the driver actors directly, and a whole ``runtime.Runner`` launch with a recording pipeline.

Plain-data conventions (JSON specs): an ordinal value is an ``int`` (integer kind), a ``float`` (float), a ``str``
(string), ``'YYYY-MM-DD'`` (date) or ``'YYYY-MM-DDTHH:MM:SS'`` (timestamp); rows are ``[id, ordinal, val]``.
"""
import datetime
import pathlib
import shutil
import types
import typing

import sqlalchemy
from sqlalchemy import pool, sql

from forml import flow, io, project, runtime
from forml.io import asset, dsl, layout
from forml.provider.feed import alchemy as stock
from forml.provider.feed.reader import alchemy

KINDS = ('integer', 'float', 'date', 'timestamp', 'string')


class OrdInteger(dsl.Schema):
    """Integer ordinal."""

    id = dsl.Field(dsl.Integer())
    ts = dsl.Field(dsl.Integer())
    val = dsl.Field(dsl.Integer())


class OrdFloat(dsl.Schema):
    """Float ordinal."""

    id = dsl.Field(dsl.Integer())
    ts = dsl.Field(dsl.Float())
    val = dsl.Field(dsl.Integer())


class OrdDate(dsl.Schema):
    """Date ordinal."""

    id = dsl.Field(dsl.Integer())
    ts = dsl.Field(dsl.Date())
    val = dsl.Field(dsl.Integer())


class OrdTimestamp(dsl.Schema):
    """Timestamp ordinal."""

    id = dsl.Field(dsl.Integer())
    ts = dsl.Field(dsl.Timestamp())
    val = dsl.Field(dsl.Integer())


class OrdString(dsl.Schema):
    """String ordinal."""

    id = dsl.Field(dsl.Integer())
    ts = dsl.Field(dsl.String())
    val = dsl.Field(dsl.Integer())


TABLES = {'integer': OrdInteger, 'float': OrdFloat, 'date': OrdDate, 'timestamp': OrdTimestamp, 'string': OrdString}
_SQLTYPES = {
    'integer': sqlalchemy.Integer,
    'float': sqlalchemy.Float,
    'date': sqlalchemy.Date,
    'timestamp': sqlalchemy.DateTime,
    'string': sqlalchemy.Unicode,
}
_META = sqlalchemy.MetaData()
_SQLTABLES = {
    kind: sqlalchemy.Table(
        f'ord_{kind}',
        _META,
        sqlalchemy.Column('id', sqlalchemy.Integer),
        sqlalchemy.Column('ts', _SQLTYPES[kind]),
        sqlalchemy.Column('val', sqlalchemy.Integer),
    )
    for kind in KINDS
}


def native(kind: str, value):
    """Python value of a plain-data ordinal."""
    if kind == 'date':
        return datetime.date.fromisoformat(value)
    if kind == 'timestamp':
        return datetime.datetime.fromisoformat(value)
    return value


def plain(kind: str, value):
    """Plain-data form of a value delivered by the reader (inverse of ``native`` up to the representation)."""
    if kind == 'integer':
        return int(value)
    if kind == 'float':
        return float(value)
    if kind == 'string':
        return str(value)
    if kind == 'date':
        if isinstance(value, str):
            return value[:10]
        if isinstance(value, datetime.datetime) or hasattr(value, 'to_pydatetime'):
            return value.date().isoformat()
        return value.isoformat()
    if isinstance(value, str):
        return value.replace(' ', 'T')[:19]
    if hasattr(value, 'to_pydatetime'):
        value = value.to_pydatetime()
    return value.replace(microsecond=0).isoformat()


class Feed(io.Feed):
    """Harness feed: the five ordinal tables of one private in-memory SQLite database."""

    Reader = alchemy.Reader

    def __init__(self, engine):
        super().__init__(connection=engine)

    @property
    def sources(self):
        return {TABLES[kind]: sql.table(f'ord_{kind}') for kind in KINDS}


class StockFeed(stock.Feed):
    """forml's stock ``alchemy`` feed (reader with the result cache) over the harness database; the result cache is
    re-pointed to a fresh directory for every case (``fresh_results``), as a fresh FORML_HOME would."""

    class Reader(stock.Feed.Reader):
        """Stock reader with a replaceable cache."""

        RESULTS = None

    @classmethod
    def fresh_results(cls, path) -> None:
        shutil.rmtree(path, ignore_errors=True)
        cls.Reader.RESULTS = stock.Results(pathlib.Path(path))


class Database:
    """Private in-memory SQLite database holding ``ord_<kind>`` tables."""

    def __init__(self):
        self.engine = sqlalchemy.create_engine(
            'sqlite://', poolclass=pool.StaticPool, connect_args={'check_same_thread': False}
        )
        _META.create_all(self.engine)
        self.feed = Feed(self.engine)
        self.stock = StockFeed({TABLES[kind]: f'ord_{kind}' for kind in KINDS}, connection=self.engine)

    def load(self, kind: str, rows: typing.Sequence[typing.Sequence]) -> None:
        """Replace the content of the table of the given ordinal kind."""
        table = _SQLTABLES[kind]
        with self.engine.begin() as conn:
            conn.execute(table.delete())
            if rows:
                conn.execute(table.insert(), [{'id': r[0], 'ts': native(kind, r[1]), 'val': r[2]} for r in rows])

    def close(self) -> None:
        self.engine.dispose()


def source(kind: str, *, ordinal: bool = True, once=None, labels: bool = False, where_val=None) -> project.Source:
    """``project.Source.query`` over the table of the kind: features (id, ts) [, label val], ordinal column ts."""
    table = TABLES[kind]
    features = table.select(table.id, table.ts)
    if where_val is not None:
        features = features.where(table.val >= where_val)
    kwargs = {}
    if labels:
        kwargs['labels'] = table.val
    if ordinal:
        kwargs['ordinal'] = table.ts
    if once is not None:
        kwargs['once'] = once
    return project.Source.query(features, **kwargs)


def run_drivers(feed: io.Feed, extract, lower, upper, kind: str) -> dict:
    """``Feed.load(extract, lower, upper)`` and direct execution of the returned operator's actors.

    Returns ``{'apply': [[id, ts]...], 'train': [[id, ts]...], 'labels': [val...] | None}`` in plain data.
    """
    operator = feed.load(extract, lower, upper)
    apply_actor = operator._apply()  # pylint: disable=protected-access
    train_actor = operator._train()  # pylint: disable=protected-access
    label_builder = operator._label  # pylint: disable=protected-access
    applied = apply_actor.apply(None)
    trained = train_actor.apply(None)
    labels = None
    if label_builder is not None:
        trained, labels = label_builder().apply(trained)
        labels = [int(v) for v in labels]
    return {'apply': _rows(applied, kind), 'train': _rows(trained, kind), 'labels': labels}


def _rows(data, kind: str) -> list:
    if hasattr(data, 'to_rows'):
        data = data.to_rows()
    out = []
    for row in data:
        values = list(row)  # a row may be a pandas Series labelled by column names: go by position
        out.append([int(values[0]), plain(kind, values[1])])
    return out


# ---- whole-runner path ----------------------------------------------------------------------------------------------
RECORD: list = []


class Recorder(flow.Actor):
    """Stateless pass-through actor recording what it is given."""

    def __init__(self, mode: str):
        self._mode = mode

    def apply(self, features):
        RECORD.append((self._mode, features))
        return features

    def get_params(self):
        return {'mode': self._mode}

    def set_params(self, **kwargs):
        self._mode = kwargs.get('mode', self._mode)


class Capture(flow.Operator):
    """Pipeline of one recording mapper on each of the apply and train paths."""

    def compose(self, scope: flow.Composable) -> flow.Trunk:
        left = scope.expand()
        apply = flow.Worker(Recorder.builder('apply'), 1, 1)
        train = flow.Worker(Recorder.builder('train'), 1, 1)
        return left.extend(apply, train)


class StubInstance:
    """The part of ``asset.Instance`` a runner launch of a stateless pipeline touches: the project descriptor and the
    ordinal of the last training recorded in the (stub) registry tag."""

    def __init__(self, src: project.Source, last_ordinal):
        self.project = types.SimpleNamespace(source=src, pipeline=Capture(), evaluation=None)
        # a real registry tag as read back for the last generation: training timestamp + ordinal
        self.tag = asset.Tag(training=asset.Tag.Training(datetime.datetime(2020, 1, 1), last_ordinal))
        self.state_calls = []

    def state(self, nodes, tag=None):
        self.state_calls.append((tuple(nodes), tag))
        return None


def run_runner(runner_type: type, feed: io.Feed, src: project.Source, last_ordinal, mode: str, lower, upper, kind: str, **kwargs) -> list:
    """``Runner(instance, feed).train/apply(lower, upper)`` with the stub instance; returns the recorded ``[id, ts]`` rows."""
    del RECORD[:]
    instance = StubInstance(src, last_ordinal)
    with runner_type(instance, feed, None, **kwargs) as runner:
        getattr(runner, mode)(lower, upper)
    out = [rows for m, rows in RECORD if m == mode]
    del RECORD[:]
    if len(out) != 1:
        raise RuntimeError(f'expected one recorded {mode} payload, got {len(out)}')
    return _rows(out[0], kind)


__all__ = ['KINDS', 'TABLES', 'Database', 'Feed', 'native', 'plain', 'source', 'run_drivers', 'run_runner', 'runtime', 'layout']
