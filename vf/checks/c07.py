"""C07 - a query statement is constructible exactly when it obeys the DSL grammar.

Campaign ``stmt``: a well-formed ``vf.dslx`` statement AST, half of the time broken by one verified single-rule mutant.
The verdict of the independent oracle ``vf.dslx.wellformed.check`` (computed from the AST only) is compared both ways
with real construction through the public API (``vf.dslx.build``): oracle-valid => construction succeeds and ``.schema``
lists the expected names / kinds in order; oracle-invalid => ``dsl.GrammarError`` (no other exception, no success).
``enumerate_extra`` applies *every* mutation site of a hand-written pool of small statements (small-scope exhaustion).
"""
import json

from forml.io import dsl

from vf.core.hyp import Campaign, HarnessError, st
from vf.dslx import ast as A
from vf.dslx import build, catalog, strategies as S, wellformed

ID = 'C07'
LEVEL = 'exploration'
RULE = (
    'Statement ASTs over a 4-table catalog, well-formed by construction (typed, scope-aware; joins of all five kinds, '
    'self-joins through named references, nested queries and sets through references, grouping/having/ordering/limit, '
    'literals from hash-colliding pools), and for half of the cases one verified single-rule mutant of such a statement '
    '(foreign element per clause, non-boolean filter/condition, aggregate in where/groupby/on, window in having, '
    'ungrouped select item, incompatible comparison/arithmetic/logical operand, unequal set schemas, cross join with / '
    'other join without condition) at a random position; plus every mutation site of a fixed pool of small statements. '
    'Non-trivial: every mutant (boundary case) and every valid statement of source depth >= 2. Distinct = distinct AST digest.'
)
ASSUMPTIONS = [
    'shapes where forml is stricter than or silent about the documented grammar are not generated (no verdict asserted): '
    'date vs timestamp comparison, min/max/sum/avg/abs/ceil/floor of non-numeric, year of non-date, windows outside '
    'select/having, queries directly over a query/set (always through a named reference), anonymous references',
    'the int-vs-float kind of avg(...) and of divisions is not asserted (forml documents "largest operand kind")',
    'the name of an unnamed output expression is not asserted, only the count and kind of the schema fields',
    'logical operand kinds (and/or/not over a non-boolean) are treated as part of the operand-kind rule because the '
    "property's anchors list Logical.__init__ among the operand kind checks",
    'when a known crash (unnamed output / bare ==,< proxy) hits a *mutant* before the grammar verdict, the case is '
    'counted as masked, the crash itself being reported from the valid side',
]
FLOORS = {
    'valid': 0.2,
    'invalid': 0.25,
    'shape:join': 0.22,
    'shape:two-table-pred': 0.15,
    'shape:groupby': 0.11,
    'shape:nested': 0.07,
    'shape:set': 0.07,
    'shape:self-join': 0.07,
    'rule:set:schema': 0.005,
    'rule:group:select': 0.01,
}
SHARDS_THOROUGH = 16

_CRASH_TAGS = ('unnamed', 'bare-proxy')
_SHAPES = (
    'join', 'outer-join', 'cross-join', 'self-join', 'two-table-pred', 'not', 'or', 'groupby', 'having', 'nested', 'set',
    'orderby', 'limit', 'agg', 'arith', 'lit-collide', 'unnamed', 'select-star', 'dup-names', 'win', 'alias-in-group',
    'agg-in-arith', 'lit-pred', 'collide-group-key', 'bare-proxy', 'aliased-field', 'ref-set', 'deep',
)


def make_spec(data: bytes):
    ch = S.ByteChooser(data)
    stmt = S.gen_statement(ch, 3, 4, 'full')
    spec = {'ast': stmt, 'rule': None, 'how': None, 'style': 'function' if ch.pct(0.2) else 'operator'}
    if ch.bool():
        mutant = S.gen_mutant(ch, stmt)
        if mutant is not None:
            spec.update(ast=mutant['ast'], rule=mutant['rule'], how=mutant['how'])
    return spec


spec_strategy = st.binary(min_size=S.STATEMENT_BYTES + 96, max_size=S.STATEMENT_BYTES + 96).map(make_spec)


def _observe(stmt, style):
    """('ok', source) | ('grammar', message) | (exception type name, message)."""
    try:
        src, _ = build.build_statement(stmt, style)
    except dsl.GrammarError as exc:
        return 'grammar', str(exc)
    except build.SpecError:
        raise
    except RecursionError as exc:
        return 'RecursionError', str(exc)[:200]
    except Exception as exc:  # pylint: disable=broad-except
        return type(exc).__name__, str(exc)[:200]
    return 'ok', src


def _normalised(feature):
    """The feature with every literal replaced by the representative of its hash-collision class."""
    out = A.strip_alias(feature)
    for path, node in A.walk_paths(out):
        if node.get('f') == 'lit':
            twin = S._twin(node['kind'], node['v'])  # pylint: disable=protected-access
            if twin is not None and repr(twin) < repr(node['v']):
                out = A.replace(out, path, A.lit(twin, node['kind']))
    return out


def _collides_with_key(stmt) -> bool:
    """Some grouped query selects a non-aggregate feature that differs from a grouping key only by colliding literals."""
    for node in A.walk(stmt):
        if node.get('t') == 'query' and node.get('groupby'):
            keys = [A.strip_alias(k) for k in node['groupby']]
            normal = [_normalised(k) for k in keys]
            for item in node.get('select') or []:
                inner = A.strip_alias(item)
                if inner not in keys and not A.has_agg(inner) and _normalised(inner) in normal:
                    return True
    return False


def check_stmt(ctx, spec):
    stmt, style = spec['ast'], spec.get('style', 'operator')
    verdict = wellformed.check(stmt)
    if verdict != spec.get('rule'):
        raise HarnessError(f'generator and oracle disagree: generator says {spec.get("rule")}, oracle says {verdict}')
    tags = S.features(stmt)
    crash = sorted(t for t in _CRASH_TAGS if t in tags and (t != 'bare-proxy' or style == 'operator'))
    classes = ['valid' if verdict is None else 'invalid', f'style:{style}'] + [f'shape:{t}' for t in _SHAPES if t in tags]
    if verdict is not None:
        classes += [f'rule:{verdict}', f'how:{verdict}/{spec.get("how")}']
    ctx.case(stmt, nontrivial=verdict is not None or A.depth(stmt) >= 2, classes=classes)

    got, payload = _observe(stmt, style)
    if verdict is not None:
        if got == 'grammar':
            return
        trig = [verdict]
        if verdict == 'group:select' and _collides_with_key(stmt):
            trig.append('lit-collide')
        if got == 'ok':
            ctx.fail(spec, 'verdict', 'accepted-invalid', f'oracle: {verdict}; forml built {payload!r}', trig)
        elif crash:
            ctx.mask('construct|raises-' + got + '|' + ','.join(crash))
        else:
            ctx.fail(spec, 'verdict', 'raises-' + got, f'oracle: {verdict}; forml raised {got}: {payload}', trig)
        return
    if got == 'grammar':
        ctx.fail(spec, 'construct', 'rejected-valid', f'oracle: conforming; forml: GrammarError {payload}', crash)
        return
    if got != 'ok':
        ctx.fail(spec, 'construct', 'raises-' + got, f'oracle: conforming; forml raised {got}: {payload}', crash)
        return
    src = payload
    expected = wellformed.schema_of(stmt)
    unnamed = [t for t in crash if t == 'unnamed']  # the construction-time proxy crash is not a schema matter
    try:
        fields = [(f.name, catalog.kind_name(f.kind)) for f in src.schema]
    except RecursionError as exc:
        ctx.fail(spec, 'schema', 'raises-RecursionError', f'.schema of {src!r}: {str(exc)[:100]}', unnamed)
        return
    except Exception as exc:  # pylint: disable=broad-except
        ctx.fail(spec, 'schema', 'raises-' + type(exc).__name__, f'.schema of {src!r}: {exc}', unnamed)
        return
    dup = ['dup-names'] if len({n for n, _ in expected if n is not None}) < sum(1 for n, _ in expected if n is not None) else []
    if len(fields) != len(expected):
        ctx.fail(spec, 'schema', 'count', f'{src!r}: expected {expected}, schema lists {fields}', dup)
        return
    for i, ((ename, ekind), (gname, gkind)) in enumerate(zip(expected, fields)):
        if ename is not None and gname != ename:
            ctx.fail(spec, 'schema', 'name', f'{src!r}: field {i} expected {ename!r}, got {gname!r}', dup)
            return
        if (gkind not in ('int', 'float')) if ekind == 'num' else (gkind != ekind):
            ctx.fail(spec, 'schema', 'kind', f'{src!r}: field {i} ({gname}) expected {ekind}, got {gkind}', dup)
            return


def campaigns(ctx):
    return [Campaign('stmt', spec_strategy, check_stmt, 4500, 30000)]


# ---- small-scope exhaustion ---------------------------------------------------------------------------------------------
def _pool():
    c, e, lit = A.col, A.elem, A.lit
    ta, tb, tc, td = A.table('A'), A.table('B'), A.table('C'), A.table('D')
    jab = A.join(ta, tb, 'inner', A.cmp('eq', c('A', 'id'), c('B', 'a')))
    r1 = A.ref(ta, 'r1')
    inner = A.query(ta, [c('A', 'x'), A.alias(A.arith('add', c('A', 'f'), lit(-1.0)), 'g')], A.cmp('gt', c('A', 'x'), lit(0)))
    return [
        A.query(ta, [c('A', 'x'), c('A', 's')], A.cmp('gt', c('A', 'x'), lit(1)), orderby=[[c('A', 'f'), 'desc']], limit=[3, 1]),
        A.query(jab, [c('A', 'x'), c('B', 'y')], A.and_(A.cmp('gt', c('A', 'x'), lit(1)), A.cmp('lt', c('B', 'y'), lit(2.0)))),
        A.query(A.join(ta, tb, 'cross'), [c('A', 'x'), c('B', 'y')]),
        A.query(A.join(ta, r1, 'left', A.cmp('eq', c('A', 'x'), e('r1', 'id'))), [c('A', 'x'), A.alias(e('r1', 'x'), 'rx')]),
        # alias inside grouping, aggregate nested in arithmetic
        A.query(
            ta,
            [A.alias(c('A', 'x'), 'k'), A.alias(A.arith('add', A.agg('sum', c('A', 'f')), lit(1)), 'v')],
            None,
            [c('A', 'x')],
            A.cmp('gt', A.agg('count', c('A', 'id')), lit(1)),
        ),
        # colliding literals inside grouping keys
        A.query(
            ta,
            [A.alias(A.arith('add', c('A', 'x'), lit(-1)), 'k'), A.alias(A.agg('count', c('A', 'id')), 'n')],
            None,
            [A.arith('add', c('A', 'x'), lit(-1))],
        ),
        # reference of a query, literal-only predicate
        A.query(A.ref(inner, 'r2'), [e('r2', 'x'), e('r2', 'g')], A.cmp('eq', lit(1), lit(1))),
        A.setop(A.query(ta, [c('A', 'x'), A.alias(c('A', 's'), 'n')]), A.query(tb, [A.alias(c('B', 'a'), 'x'), A.alias(c('B', 's'), 'n')]), 'union'),
        A.query(td, [c('D', 'value')], A.not_(A.or_(A.cmp('eq', c('D', 'value'), lit(0)), A.unary('isnull', c('D', 'id'))))),
        A.query(
            A.join(jab, tc, 'full', A.cmp('eq', c('B', 'id'), c('C', 'b'))),
            [c('A', 'id'), A.alias(c('C', 'z'), 'z')],
            A.cmp('ne', c('A', 's'), c('B', 's')),
        ),
    ]


# ---- operand-kind compatibility over compound kinds (the generator catalog holds primitive kinds only) ---------------------
_KIND_SPECS = [
    'int', 'float', 'str', 'bool', 'date', 'timestamp',
    ['array', 'int'], ['array', 'str'], ['array', ['array', 'int']],
    ['map', 'str', 'int'], ['map', 'str', 'str'], ['map', 'int', 'int'],
    ['struct', [['a', 'int']]], ['struct', [['a', 'str']]], ['struct', [['b', 'int']]],
]
_CMP = {'eq': '__eq__', 'ne': '__ne__', 'lt': '__lt__', 'le': '__le__', 'gt': '__gt__', 'ge': '__ge__'}


def _mk_kind(spec):
    if isinstance(spec, str):
        return {'int': dsl.Integer, 'float': dsl.Float, 'str': dsl.String, 'bool': dsl.Boolean, 'date': dsl.Date, 'timestamp': dsl.Timestamp}[spec]()
    if spec[0] == 'array':
        return dsl.Array(_mk_kind(spec[1]))
    if spec[0] == 'map':
        return dsl.Map(_mk_kind(spec[1]), _mk_kind(spec[2]))
    return dsl.Struct(**{n: _mk_kind(k) for n, k in spec[1]})


def check_kind_pair(ctx, spec):
    """spec = {'l': kind spec, 'r': kind spec, 'op': cmp}: a comparison is constructible iff both operands are numeric or
    their kinds are structurally equal (date vs timestamp is not judged: the documented rule is silent about sub-kinds)."""
    left, right, op = spec['l'], spec['r'], spec['op']
    ctx.case(spec, nontrivial=not (isinstance(left, str) and isinstance(right, str)), classes=['kind-pair'])
    if {json.dumps(left), json.dumps(right)} == {'"date"', '"timestamp"'}:
        ctx.mask('kind-pair:date-vs-timestamp-not-judged')
        return
    numeric = lambda k: k in ('int', 'float')
    valid = (numeric(left) and numeric(right)) or left == right
    table = dsl.Schema.from_fields(dsl.Field(_mk_kind(left), name='l'), dsl.Field(_mk_kind(right), name='r'), dsl.Field(dsl.Integer(), name='k'))
    tab = dsl.Table(table)
    try:
        cond = getattr(tab.l, _CMP[op])(tab.r)
        tab.select(tab.k).where(cond)
        outcome = 'ok'
    except dsl.GrammarError:
        outcome = 'grammar-error'
    except Exception as exc:  # pylint: disable=broad-except
        ctx.fail_exc(spec, 'kind-pair-raises', exc)
        return
    if valid and outcome != 'ok':
        ctx.fail(spec, 'verdict', 'rejected-valid', f'{left} {op} {right}', ['cmp:kinds', 'compound'])
    elif not valid and outcome == 'ok':
        ctx.fail(spec, 'verdict', 'accepted-invalid', f'{left} {op} {right}', ['cmp:kinds', 'compound'])


def enumerate_extra(ctx, shard, nshards):
    if shard != 0:
        return
    ctx.campaign = 'kind-pair'
    for left in _KIND_SPECS:
        for right in _KIND_SPECS:
            for op in _CMP:
                check_kind_pair(ctx, {'l': left, 'r': right, 'op': op})
    ctx.campaign = 'stmt'
    for base in _pool():
        if wellformed.check(base) is not None:
            raise HarnessError(f'pool statement not well-formed: {wellformed.violations(base)}')
        check_stmt(ctx, {'ast': base, 'rule': None, 'how': None, 'style': 'operator'})
        for rule, path, how in S.mutation_sites(base):
            for variant in (b'\x00' * 32, b'\xff\x55\xaa\x11' * 8, b'\x80\x01\x40\xc3\x07' * 8):
                try:
                    mutant = S._apply(S.ByteChooser(variant), base, rule, path, how)  # pylint: disable=protected-access
                    if mutant is None or mutant == base:
                        continue
                    found = wellformed.violations(mutant)
                except KeyError:
                    continue
                if found and {r for r, _ in found} == {rule}:
                    check_stmt(ctx, {'ast': mutant, 'rule': found[0][0], 'how': how, 'style': 'operator'})


LEVEL_TEXT = (
    'Generated-input search: thousands of statement ASTs per run - half conforming by construction, half carrying one '
    'verified single-rule violation - are built through the public DSL API and the outcome (success / GrammarError / '
    'schema) is compared with an independent well-formedness oracle working on the AST alone; plus every mutation site '
    'of a fixed pool of small statements. Evidence over the sampled grammar up to the depth bound, not a proof.'
)
LEVEL_NOTE = (
    'Trusted: vf/dslx/wellformed.py (rule reading of the property), vf/dslx/build.py, Hypothesis. Shapes where forml is '
    'stricter than the documented rules are not generated (see assumptions); int/float flavour of avg and division and '
    'names of unnamed outputs are not asserted.'
)
TECHNIQUE = 'property-based testing (Hypothesis, byte-stream driven grammar generator) + single-rule mutation of well-formed ASTs vs independent oracle'

# coverage-guided (atheris) pass of the thorough tier: (campaign, libFuzzer runs, instrumented module prefixes)
FUZZ = [('stmt', 30000, ['forml.io.dsl'])]
