"""C18 - persisted metadata and keys read back exactly as written.

Campaigns (all specs are JSON-able; every oracle is computed from the spec):
* tag      - generation tags (timestamps present/absent, naive/aware, ordinal of every TOML-representable primitive kind,
             0-5 states) built directly or through trigger/replace -> ``dumps`` -> ``loads`` -> field-exact comparison.
* relkey   - sets of PEP 440 version strings: acceptance, normal form, pairwise order/equality/hash against an own
             PEP 440 sort key, ``Level.Listing``; mutated candidate strings: not matching the PEP 440 grammar => rejected.
* genkey   - generation keys given as int / str / Key: natural order, ``next``, ``Listing``; invalid candidates rejected,
             open spellings only checked for consistency.
* manifest - ``Manifest.write`` -> ``Manifest.read`` / ``Package(dir).manifest`` in a scratch directory.
* package  - generated tiny projects packaged (zip, non-zip-safe zip, directory), installed and loaded in a forked child;
             the components are identified by marker values planted in the generated component modules.
"""
import datetime
import decimal
import fractions
import json
import keyword
import math
import os
import pathlib
import re
import shutil
import uuid

from hypothesis import strategies as st

from forml import flow  # noqa: F401  pylint: disable=unused-import  (pre-imported for the forked children)
from forml import project as prj
from forml.io import asset

from vf.core import ctx as ctxmod
from vf.core.hyp import Campaign
from vf.meta import iso

ID = 'C18'
LEVEL = 'exploration'
RULE = (
    'Hypothesis-generated (1) tags: training/tuning timestamp present or absent (naive or tz-aware, microseconds), ordinal '
    'none/int/float/bool/str/date/datetime, 0-5 states, built directly or via trigger/replace; (2) sets of 1-8 canonical '
    'PEP 440 strings (epochs, pre/post/dev, local, ties such as 1.0 vs 1.0.0) plus mutated candidate strings; (3) sets of '
    'generation keys given as int/str/Key plus invalid and open spellings; (4) manifests with PEP 508 names, PEP 440 '
    'versions, dotted identifier packages and module maps; (5) packaged tiny projects (zip / non-zip-safe zip / '
    'directory) installed in a forked child. Non-trivial: tag with a non-string ordinal or an absent timestamp; key set '
    'with >=3 keys containing a tie or a pre/post/dev/epoch/local part (release) or a duplicate (generation) or any '
    'candidate; manifest or package with a non-empty module map. Distinct = distinct spec digest.'
)
ASSUMPTIONS = [
    'ordinal domain = what TOML can represent of the primitive kinds: int64, float (incl. inf/nan), bool, str, date, '
    'datetime with whole-minute offsets; decimal.Decimal (no TOML type) and time-of-day are not generated',
    'an ordinal/score is only generated together with the timestamp of its mode (Tag() drops a mode without timestamp)',
    'invalid release key = string not matching the PEP 440 appendix-B grammar; invalid generation key = no integer >= 1 '
    'under int()/float(); other spellings (v1.0, 1_0, " 2 ", +3, 01, 1.0) are only checked for consistency when accepted',
    'names/packages/modules are ASCII (PEP 508 name charset, non-keyword identifiers); versions are written canonically',
    'string ordinals with C0/C1 control characters, a backslash followed by x, leading double quotes, or a backslash-u '
    'after a non-printable character hit defects of the toml 0.10.2 encoder/decoder used by Tag.dumps/loads; they are '
    'generated at a low rate and bucketed separately (the four shapes cover every failure among 1.6M fuzzed strings)',
]
FLOORS = {
    'tag:training-absent': 0.02,
    'tag:ordinal-nonstr': 0.1,
    'tag:tz-aware': 0.03,
    'relkey:tie': 0.02,
    'relkey:invalid-cand': 0.02,
    'genkey:invalid-cand': 0.02,
    'listing:dups': 0.03,
    'manifest:modules': 0.02,
    'package': 0.005,
}
SHARDS_THOROUGH = 16

_COUNTER = [0]


def _scratch(ctx, prefix: str) -> pathlib.Path:
    _COUNTER[0] += 1
    base = pathlib.Path(ctx.scratch) / 'c18' / f'{prefix}{os.getpid()}_{_COUNTER[0]}'
    base.mkdir(parents=True, exist_ok=True)
    return base


# =====================================================================================================================
# tags
# =====================================================================================================================
_TZ = [None, None, None, None, 0, 60, -300, 330, 765, -720, 840, 1, -1, 1439, -1439]
_STR_ALPHABET = list('abcXYZ019 _-.,:;#=[]{}()!?*+/\'"\\\n\t\r') + list('xnut') + ['é', 'ß', 'ж', '日', '😀', '\u2028', '\u200b']
_STR_NASTY = ['"', '""', '""a', '"""', 'C:\\x', '\\x41', 'a\\xb', '\\\\x', '\x00', 'a\x7fb', '\x1b[0m', 'a\xa0b', 'a\x00\\x', '\x85', '\u2028\\uX', '\u200b\\u0041']


def str_trigger(s: str):
    """Structural trigger classes of the known string-escaping defects of the toml library behind Tag.dumps/loads."""
    if any(ord(c) < 0x100 and not c.isprintable() and c not in '\n\r\t' for c in s):
        return 'str-ctrl'
    if '\\x' in s:
        return 'str-backslash-x'
    if s == '"' or s.startswith('""'):
        return 'str-leading-quotes'
    escaped = [i for i, c in enumerate(s) if ord(c) >= 0x100 and not c.isprintable()]  # dumped as \\uXXXX
    if escaped and '\\u' in s[escaped[0] :]:
        return 'str-backslash-u-after-escape'
    return None


@st.composite
def ts_spec(draw):
    if draw(st.integers(0, 9)) < 7:
        lo, hi = datetime.datetime(1990, 1, 1), datetime.datetime(2040, 12, 31, 23, 59, 59)
    else:
        lo, hi = datetime.datetime(1, 1, 1), datetime.datetime(9999, 12, 31, 23, 59, 59)
    dt = draw(st.datetimes(min_value=lo, max_value=hi))
    us = draw(st.sampled_from([0, 0, 0, 1, 10, 500000, 999999, 123456, dt.microsecond]))
    return [dt.year, dt.month, dt.day, dt.hour, dt.minute, dt.second, us, draw(st.sampled_from(_TZ))]


def mk_dt(spec):
    if spec is None:
        return None
    *fields, tz = spec
    tzinfo = None if tz is None else datetime.timezone(datetime.timedelta(minutes=tz))
    return datetime.datetime(*fields, tzinfo=tzinfo)


@st.composite
def ordinal_spec(draw):
    kind = draw(st.sampled_from(['none', 'int', 'int', 'float', 'float', 'bool', 'str', 'str', 'str', 'date', 'datetime', 'datetime']))
    if kind == 'none':
        return {'kind': kind}
    if kind == 'int':
        value = draw(st.one_of(st.integers(-(2**63), 2**63 - 1), st.sampled_from([0, 1, -1, 2**63 - 1, -(2**63), 10**15]), st.integers(-1000, 1000)))
    elif kind == 'float':
        value = draw(
            st.one_of(
                st.floats(allow_nan=False, allow_infinity=False),
                st.sampled_from([0.0, -0.0, 1.5, -2.25, 1e300, 5e-324, 1e-7, 123456789.12345679, float('inf'), float('-inf'), float('nan'), 1.0, 1e16]),
            )
        )
    elif kind == 'bool':
        value = draw(st.booleans())
    elif kind == 'str':
        if draw(st.integers(0, 99)) < 6:
            value = draw(st.sampled_from(_STR_NASTY))
        else:
            value = draw(st.text(st.sampled_from(_STR_ALPHABET), max_size=8))
    elif kind == 'date':
        d = draw(st.dates())
        value = [d.year, d.month, d.day]
    else:
        value = draw(ts_spec())
    return {'kind': kind, 'value': value}


def mk_ordinal(spec):
    kind = spec['kind']
    if kind == 'none':
        return None
    if kind == 'date':
        return datetime.date(*spec['value'])
    if kind == 'datetime':
        return mk_dt(spec['value'])
    return spec['value']


@st.composite
def tag_spec(draw):
    shape = draw(st.sampled_from(['both', 'both', 'training', 'training', 'training', 'tuning', 'empty']))
    training = {'ts': None, 'ordinal': {'kind': 'none'}}
    tuning = {'ts': None, 'score': None}
    if shape in ('both', 'training'):
        training = {'ts': draw(ts_spec()), 'ordinal': draw(ordinal_spec())}
    if shape in ('both', 'tuning'):
        score = draw(
            st.one_of(st.none(), st.floats(allow_nan=False, allow_infinity=False), st.sampled_from([0.0, 1.0, -1.0, 0.5, 3.3, 1e-9, float('inf'), -0.0]))
        )
        tuning = {'ts': draw(ts_spec()), 'score': score}
    states = draw(st.lists(st.uuids().map(str), max_size=5, unique=True))
    return {'training': training, 'tuning': tuning, 'states': states, 'build': draw(st.sampled_from(['direct', 'direct', 'ops']))}


def build_tag(spec) -> asset.Tag:
    T = asset.Tag
    tr_ts, ordinal = mk_dt(spec['training']['ts']), mk_ordinal(spec['training']['ordinal'])
    tu_ts, score = mk_dt(spec['tuning']['ts']), spec['tuning']['score']
    states = [uuid.UUID(s) for s in spec['states']]
    if spec['build'] == 'direct':
        return T(training=T.Training(tr_ts, ordinal), tuning=T.Tuning(tu_ts, score), states=states)
    tag = T()
    if tr_ts is not None:
        tag = tag.training.trigger(tr_ts)
    if ordinal is not None:
        tag = tag.training.replace(ordinal=ordinal)
    if tu_ts is not None:
        tag = tag.tuning.trigger(tu_ts)
    if score is not None:
        tag = tag.tuning.replace(score=score)
    if states:
        tag = tag.replace(states=tuple(states))
    return tag


def same_value(got, exp) -> bool:
    """Equality of type and value (nan equals nan, the utc offset counts; -0.0 == 0.0 as in Python)."""
    if exp is None:
        return got is None
    if isinstance(exp, bool):
        return type(got) is bool and got == exp
    if isinstance(exp, int):
        return type(got) is int and got == exp
    if isinstance(exp, float):
        if type(got) is not float:
            return False
        if math.isnan(exp):
            return math.isnan(got)
        return got == exp
    if isinstance(exp, str):
        return type(got) is str and got == exp
    if isinstance(exp, datetime.datetime):
        if not isinstance(got, datetime.datetime):
            return False
        if (got.tzinfo is None) != (exp.tzinfo is None):
            return False
        return got.replace(tzinfo=None) == exp.replace(tzinfo=None) and got.utcoffset() == exp.utcoffset()
    if isinstance(exp, datetime.date):
        return isinstance(got, datetime.date) and not isinstance(got, datetime.datetime) and got == exp
    raise AssertionError(f'unexpected expected value {exp!r}')


def diff_tag(tag: asset.Tag, spec) -> list:
    """Names of the tag fields that differ from what the spec says was written."""
    bad = []
    pairs = [
        ('training.timestamp', lambda: tag.training.timestamp, mk_dt(spec['training']['ts'])),
        ('training.ordinal', lambda: tag.training.ordinal, mk_ordinal(spec['training']['ordinal'])),
        ('tuning.timestamp', lambda: tag.tuning.timestamp, mk_dt(spec['tuning']['ts'])),
        ('tuning.score', lambda: tag.tuning.score, spec['tuning']['score']),
    ]
    for name, getter, exp in pairs:
        got = getter()
        if not same_value(got, exp):
            bad.append((name, f'{name}: got {got!r} expected {exp!r}'))
    states = tuple(tag.states)
    if not all(isinstance(s, uuid.UUID) for s in states) or [str(s) for s in states] != spec['states']:
        bad.append(('states', f'states: got {states!r} expected {spec["states"]!r}'))
    return bad


def check_tag(ctx, spec):
    okind = spec['training']['ordinal']['kind']
    tr_absent, tu_absent = spec['training']['ts'] is None, spec['tuning']['ts'] is None
    trig = str_trigger(spec['training']['ordinal']['value']) if okind == 'str' else None
    aware = any(
        t is not None and t[-1] is not None
        for t in (spec['training']['ts'], spec['tuning']['ts'], spec['training']['ordinal'].get('value') if okind == 'datetime' else None)
    )
    classes = ['tag', f'tag:ordinal-{okind}', f'tag:build-{spec["build"]}']
    classes += ['tag:training-absent'] if tr_absent else []
    classes += ['tag:tuning-absent'] if tu_absent else []
    classes += ['tag:empty'] if tr_absent and tu_absent else []
    classes += ['tag:ordinal-nonstr'] if okind not in ('none', 'str') else []
    classes += ['tag:tz-aware'] if aware else []
    classes += ['tag:states>=2'] if len(spec['states']) >= 2 else []
    classes += [f'tag:{trig}'] if trig else []
    ctx.case(spec, nontrivial=okind not in ('none', 'str') or tr_absent or tu_absent, classes=classes)
    shape = [f'ordinal:{okind}'] + (['training-ts-absent'] if tr_absent else []) + ([trig] if trig else [])
    try:
        tag = build_tag(spec)
    except Exception as exc:
        ctx.fail_exc(spec, 'tag-build', exc, shape + [spec['build']])
        return
    bad = diff_tag(tag, spec)
    if bad:
        ctx.fail(spec, 'tag-build', 'differs', '; '.join(d for _, d in bad), [spec['build']] + [n for n, _ in bad])
        return
    try:
        raw = tag.dumps()
        loaded = asset.Tag.loads(raw)
    except Exception as exc:
        if trig and not tr_absent:
            ctx.fail(spec, 'tag-roundtrip', 'not-faithful', f'{type(exc).__name__}: {exc}', [trig])
        elif tr_absent:
            ctx.mask(ctx.fail_exc(spec, 'tag-roundtrip', exc, ['training-ts-absent']))
        else:
            ctx.fail_exc(spec, 'tag-roundtrip', exc, shape)
        return
    bad = diff_tag(loaded, spec)
    if bad:
        names = [n for n, _ in bad]
        detail = '; '.join(d for _, d in bad) + f' raw={raw!r}'
        if trig and names == ['training.ordinal']:
            ctx.fail(spec, 'tag-roundtrip', 'not-faithful', detail, [trig])
        else:
            ctx.fail(spec, 'tag-roundtrip', 'differs', detail, names + (shape if 'training.ordinal' in names else []))
        return
    if not isinstance(raw, bytes):
        ctx.fail(spec, 'tag-roundtrip', 'dump-not-bytes', repr(type(raw)))


# =====================================================================================================================
# PEP 440 reference (grammar from PEP 440 appendix B, ordering from the section "Summary of permitted suffixes and
# relative ordering"); independent of packaging / forml
# =====================================================================================================================
_PEP440 = re.compile(
    r"""^\s*
    v?
    (?:
        (?:(?P<epoch>[0-9]+)!)?
        (?P<release>[0-9]+(?:\.[0-9]+)*)
        (?P<pre>[-_\.]?(?P<pre_l>(a|b|c|rc|alpha|beta|pre|preview))[-_\.]?(?P<pre_n>[0-9]+)?)?
        (?P<post>(?:-(?P<post_n1>[0-9]+))|(?:[-_\.]?(?P<post_l>post|rev|r)[-_\.]?(?P<post_n2>[0-9]+)?))?
        (?P<dev>[-_\.]?(?P<dev_l>dev)[-_\.]?(?P<dev_n>[0-9]+)?)?
    )
    (?:\+(?P<local>[a-z0-9]+(?:[-_\.][a-z0-9]+)*))?
    \s*$""",
    re.VERBOSE | re.IGNORECASE,
)
_PRE_NORM = {'alpha': 'a', 'beta': 'b', 'c': 'rc', 'pre': 'rc', 'preview': 'rc'}


def pep440(s: str):
    """Parse into {'epoch','release','pre','post','dev','local'} or None when ``s`` is not a PEP 440 version."""
    if not s.isascii():
        return None
    m = _PEP440.match(s)
    if m is None:
        return None
    pre = None
    if m['pre']:
        letter = m['pre_l'].lower()
        pre = [_PRE_NORM.get(letter, letter), int(m['pre_n'] or 0)]
    post = None
    if m['post']:
        post = int(m['post_n1'] or m['post_n2'] or 0)
    local = None
    if m['local']:
        local = [int(p) if p.isdigit() else p.lower() for p in re.split(r'[-_.]', m['local'])]
    return {
        'epoch': int(m['epoch'] or 0),
        'release': [int(x) for x in m['release'].split('.')],
        'pre': pre,
        'post': post,
        'dev': int(m['dev_n'] or 0) if m['dev'] else None,
        'local': local,
    }


def canon(v) -> str:
    out = (f"{v['epoch']}!" if v['epoch'] else '') + '.'.join(str(x) for x in v['release'])
    if v['pre']:
        out += f"{v['pre'][0]}{v['pre'][1]}"
    if v['post'] is not None:
        out += f".post{v['post']}"
    if v['dev'] is not None:
        out += f".dev{v['dev']}"
    if v['local']:
        out += '+' + '.'.join(str(p) for p in v['local'])
    return out


def vkey(v):
    release = list(v['release'])
    while len(release) > 1 and release[-1] == 0:
        release.pop()
    if v['pre'] is None and v['post'] is None and v['dev'] is not None:
        pre = (0, 0)
    elif v['pre'] is None:
        pre = (4, 0)
    else:
        pre = ({'a': 1, 'b': 2, 'rc': 3}[v['pre'][0]], v['pre'][1])
    post = -1 if v['post'] is None else v['post']
    dev = (1, 0) if v['dev'] is None else (0, v['dev'])
    if v['local'] is None:
        local = (0, ())
    else:
        local = (1, tuple((1, p, '') if isinstance(p, int) else (0, 0, p) for p in v['local']))
    return (v['epoch'], tuple(release), pre, post, dev, local)


_NUMS = [0, 0, 1, 1, 2, 3, 9, 10, 11, 100, 2024]


@st.composite
def version_str(draw):
    v = {
        'epoch': draw(st.sampled_from([0, 0, 0, 0, 0, 1, 2])),
        'release': draw(st.lists(st.sampled_from(_NUMS), min_size=1, max_size=4)),
        'pre': draw(st.sampled_from([None, None, None, None, ['a', 0], ['a', 1], ['b', 1], ['rc', 1], ['rc', 2], ['a', 10], ['b', 2]])),
        'post': draw(st.sampled_from([None, None, None, None, 0, 1, 2, 10])),
        'dev': draw(st.sampled_from([None, None, None, None, 0, 1, 3])),
        'local': draw(st.sampled_from([None] * 6 + [[1], [2], [10], ['a'], ['abc'], ['ubuntu', 1], [1, 2], ['a', 1], [1, 'a'], ['b']])),
    }
    return canon(v)


_REL_FIXED = [
    '', ' ', 'abc', '1..2', '1.', '.1', '1!', '!1', '1+', 'v1.0', ' 1.0 ', '1.0-1', '1.0_post1', '1.0RC1', '1.0.alpha.1',
    '1.0-preview-2', '1.0c1', '1.0-r3', '1.0+ABC', '1.0+a-b_c', '1,0', '1 0', '1/2', 'latest', '1.0a1b2', '1.0.dev1.post1',
    '-1', '1.0+', '1.0+a..b', '1e3', '0x1', '1.0.post', '1.0dev', '01.02', '1.0+001', 'V2', '1!', '1!!2', '1.0a', '1.0.rc.1',
    '1.0post1dev2', 'one', '1.0\n', '\t3', '1.0 rc1', '1._0', '1.0+a+b', '1.0-', '1.0.', 'None', '1.0.0.0.0.0', '2!1.0',
]  # fmt: skip
_MUT_ALPHABET = list('0123456789.!+-_abcrpostdevx ,/$')


@st.composite
def release_candidate(draw):
    if draw(st.booleans()):
        return draw(st.sampled_from(_REL_FIXED))
    s = draw(version_str())
    for _ in range(draw(st.integers(1, 2))):
        op = draw(st.sampled_from(['ins', 'del', 'rep']))
        pos = draw(st.integers(0, max(len(s) - 1, 0)))
        ch = draw(st.sampled_from(_MUT_ALPHABET))
        if op == 'ins':
            s = s[:pos] + ch + s[pos:]
        elif op == 'del' and s:
            s = s[:pos] + s[pos + 1 :]
        elif s:
            s = s[:pos] + ch + s[pos + 1 :]
    return s


@st.composite
def relkey_spec(draw):
    base = draw(st.lists(version_str(), min_size=1, max_size=6))
    dups = draw(st.lists(st.sampled_from(base), max_size=2))
    cands = draw(st.lists(release_candidate(), max_size=3))
    keys = base + dups
    return {'keys': draw(st.permutations(keys)), 'cands': cands}


def check_relkey(ctx, spec):
    Key = asset.Release.Key
    parsed = [pep440(s) for s in spec['keys']]
    assert all(p is not None and canon(p) == s for p, s in zip(parsed, spec['keys'])), 'generator produced a non-canonical version'
    ref = [vkey(p) for p in parsed]
    tie = len(set(ref)) < len(ref)
    rich = any(p['epoch'] or p['pre'] or p['post'] is not None or p['dev'] is not None or p['local'] for p in parsed)
    cparsed = [pep440(c) for c in spec['cands']]
    classes = ['relkey', 'listing']
    classes += ['relkey:tie', 'listing:dups'] if tie else []
    classes += ['relkey:rich'] if rich else []
    classes += ['relkey:invalid-cand'] if any(c is None for c in cparsed) else []
    classes += ['relkey:open-cand'] if any(c is not None for c in cparsed) else []
    ctx.case(spec, nontrivial=(len(ref) >= 3 and (tie or rich)) or bool(spec['cands']), classes=classes)
    # ---- construction, normal form, idempotence
    keys = []
    for s, p in zip(spec['keys'], parsed):
        try:
            key = Key(s)
            again = Key(key)
            back = Key(str(key))
        except Exception as exc:
            ctx.fail_exc(spec, 'relkey-valid-rejected', exc)
            return
        if str(key) != s:
            ctx.fail(spec, 'relkey-normal-form', 'differs', f'{s!r} -> {str(key)!r}')
            return
        if not (again == key and back == key and hash(again) == hash(key)):
            ctx.fail(spec, 'relkey-idempotence', 'differs', f'{s!r}: Key(key)={again!s} Key(str(key))={back!s}')
            return
        keys.append(key)
    # ---- pairwise order / equality / hash
    for i, (ka, ra) in enumerate(zip(keys, ref)):
        for kb, rb in zip(keys[i:], ref[i:]):
            got = (ka < kb, ka == kb, ka > kb, ka <= kb, ka >= kb, ka != kb)
            exp = (ra < rb, ra == rb, ra > rb, ra <= rb, ra >= rb, ra != rb)
            if got != exp:
                ctx.fail(spec, 'relkey-order', 'pairwise', f'{ka!s} vs {kb!s}: (<,==,>,<=,>=,!=) got {got} expected {exp}')
                return
            if ra == rb and hash(ka) != hash(kb):
                ctx.fail(spec, 'relkey-order', 'hash', f'{ka!s} == {kb!s} but hashes differ')
                return
    order = sorted(range(len(keys)), key=lambda i: ref[i])
    if [vkey(pep440(str(k))) for k in sorted(keys)] != [ref[i] for i in order]:
        ctx.fail(spec, 'relkey-order', 'sorted', f'sorted={[str(k) for k in sorted(keys)]} expected={[spec["keys"][i] for i in order]}')
        return
    # ---- listing: sorted, duplicate-free, last = max
    _check_listing(ctx, spec, keys, sorted(set(ref)), lambda k: vkey(pep440(str(k))), 'release')
    # ---- candidates
    for cand, p in zip(spec['cands'], cparsed):
        try:
            key = Key(cand)
        except Key.Invalid:
            continue  # rejecting is always allowed for a non-canonical spelling, and required for an invalid one
        except Exception as exc:
            ctx.fail_exc(spec, 'relkey-candidate-raises', exc, ['invalid' if p is None else 'open'])
            return
        if p is None:
            ctx.fail(spec, 'relkey-invalid-accepted', 'accepted', f'{cand!r} is not a PEP 440 version but Key gives {key!s}')
            return
        if str(key) != canon(p) or vkey(pep440(str(key))) != vkey(p):
            ctx.fail(spec, 'relkey-open-consistency', 'differs', f'{cand!r} accepted as {key!s}, PEP 440 normal form is {canon(p)!r}')
            return


def _check_listing(ctx, spec, keys, expected, ident, tag):
    """``Level.Listing(keys)`` is sorted, duplicate free, ``last`` is the maximum, empty => ``Listing.Empty``."""
    Listing = asset.Level.Listing
    try:
        listing = Listing(iter(keys))
        got = [ident(k) for k in listing]
    except Exception as exc:
        ctx.fail_exc(spec, 'listing-raises', exc, [tag])
        return
    if got != expected:
        kind = 'duplicates' if len(got) > len(expected) else ('order' if sorted(got) == expected else 'content')
        ctx.fail(spec, 'listing', kind, f'listing={[str(k) for k in listing]} expected idents={expected}', [tag])
        return
    try:
        last = listing.last
    except Listing.Empty:
        if expected:
            ctx.fail(spec, 'listing-last', 'empty-raised', 'non-empty listing raised Empty', [tag])
        return
    except Exception as exc:
        ctx.fail_exc(spec, 'listing-last', exc, [tag])
        return
    if not expected:
        ctx.fail(spec, 'listing-last', 'empty-not-raised', f'empty listing returned {last!r}', [tag])
    elif ident(last) != expected[-1]:
        ctx.fail(spec, 'listing-last', 'not-max', f'last={last!s} expected ident {expected[-1]}', [tag])


def _check_put_after(ctx, spec, existing) -> bool:
    """Generations persisted under the given (possibly gapped, not starting at 1) keys through ``Registry.close``; a
    generation then committed the lifecycle way (``Release.put``) becomes max+1 and every tag reads back as written."""
    from forml.provider.registry.filesystem import posix  # pylint: disable=import-outside-toplevel

    base = _scratch(ctx, 'g')
    try:
        prj.Manifest('gp', '1', 'gpkg').write(base / 'src')
        registry = posix.Registry(base / 'registry')
        registry.push(prj.Package(base / 'src'))
        project, release = asset.Project.Key('gp'), asset.Release.Key('1')
        level = asset.Directory(registry).get('gp').get('1')

        def tag(i):
            return asset.Tag(training=asset.Tag.Training(datetime.datetime(2023, 5, 1 + i % 20, 10, 30), i), states=[level.dump(f's{i}'.encode())])

        written = {}
        for n in existing:
            written[n] = tag(n)
            registry.close(project, release, asset.Generation.Key(n), written[n])
        ctx.klass('genkey:put-after-gap' if existing != list(range(1, len(existing) + 1)) else 'genkey:put-after-consecutive')
        new = tag(max(existing) + 1000)
        got = asset.Directory(registry).get('gp').get('1').put(new)
        written[max(existing) + 1] = new
        if int(got.key) != max(existing) + 1:
            ctx.fail(spec, 'put-key', 'not-max+1', f'existing {existing}: put() committed generation {got.key}', ['gap'] if existing != list(range(1, len(existing) + 1)) else [])
            return False
        fresh = asset.Directory(posix.Registry(base / 'registry')).get('gp').get('1')
        listed = [int(k) for k in fresh.list()]
        if listed != sorted(written):
            ctx.fail(spec, 'put-listing', 'differs', f'existing {existing}: listing after put {listed}', [])
            return False
        for n, want in written.items():
            if fresh.get(n).tag != want:
                ctx.fail(spec, 'put-tags', 'changed', f'existing {existing}: tag of generation {n} no longer reads back as written', [])
                return False
    except Exception as exc:  # pylint: disable=broad-except
        ctx.fail_exc(spec, 'put-raises', exc, [])
        return False
    finally:
        shutil.rmtree(base, ignore_errors=True)
    return True


# =====================================================================================================================
# generation keys
# =====================================================================================================================
_GEN_CANDS = [
    0, -1, -17, '0', '-0', '00', '-3', '1.5', '0.5', '2.75', '', ' ', 'abc', 'one', '1a', 'a1', '1-2', '1,000', '1/2', '--1',
    'NaN', 'nan', 'inf', 'None', 'True', '1_0', ' 2 ', '+3', '\u0663', '01', '1.0', '1e3', '0x1', '2\n', '\uff11', '10.', '1__0',
    '_1', '1_', '0.0', '-1.0', '1e-3', '+0', ' 0', '0b1', '1 2', '1.', '.5', '1.0.0', '9' * 30,
    # typed candidates (JSON-able as [type, literal]): what callers holding a number of another kind would pass
    ['float', 1.5], ['float', 2.7], ['float', 0.5], ['float', 2.0], ['float', 1e3], ['float', -1.0], ['float', 12.000001],
    ['bool', True], ['bool', False], ['bytes', '2'], ['bytes', '1.5'], ['none', None], ['decimal', '2.5'], ['decimal', '3'],
    ['fraction', '5/2'], ['fraction', '4/2'],
]  # fmt: skip


def cand_value(c):
    """The Python object a candidate stands for."""
    if not isinstance(c, list):
        return c
    kind, lit = c
    if kind == 'bytes':
        return lit.encode()
    if kind == 'decimal':
        return decimal.Decimal(lit)
    if kind == 'fraction':
        return fractions.Fraction(lit)
    return lit  # float / bool / None are JSON values already


def gen_denotes(v):
    """('invalid', None) | ('valid', n) | ('open', n): what the value denotes under Python's own number parsing."""
    if isinstance(v, list):
        val = cand_value(v)
        if val is None or val is False:
            return 'invalid', None
        if val is True:
            return 'open', 1
        if isinstance(val, bytes):
            return gen_denotes(val.decode()) if not re.fullmatch(r'[1-9][0-9]*', val.decode()) else ('open', int(val))
        if val != int(val) or val < 1:  # a non-integral or non-positive number is no natural number, however it is spelled
            return 'invalid', None
        return 'open', int(val)
    if isinstance(v, int):
        return ('valid', v) if v >= 1 else ('invalid', None)
    if re.fullmatch(r'[1-9][0-9]*', v):
        return 'valid', int(v)
    try:
        n = int(v)
    except ValueError:
        try:
            f = float(v)
        except ValueError:
            return 'invalid', None
        if math.isfinite(f) and f == int(f) and f >= 1:
            return 'open', int(f)
        return 'invalid', None
    return ('open', n) if n >= 1 else ('invalid', None)


@st.composite
def genkey_spec(draw):
    base = draw(st.lists(st.one_of(st.integers(1, 12), st.integers(1, 10**6), st.sampled_from([1, 2, 9, 10, 11, 99, 100, 2**63, 10**30])), max_size=7))
    dups = draw(st.lists(st.sampled_from(base), max_size=2)) if base else []
    keys = [{'n': n, 'as': draw(st.sampled_from(['int', 'str', 'key']))} for n in draw(st.permutations(base + dups))]
    cands = draw(st.lists(st.sampled_from(_GEN_CANDS), max_size=3))
    return {'keys': keys, 'cands': cands}


def check_genkey(ctx, spec):
    Key = asset.Generation.Key
    ns = [k['n'] for k in spec['keys']]
    dup = len(set(ns)) < len(ns)
    cls = [gen_denotes(c) for c in spec['cands']]
    classes = ['genkey', 'listing']
    classes += ['genkey:dups', 'listing:dups'] if dup else []
    classes += ['listing:empty'] if not ns else []
    classes += ['genkey:invalid-cand'] if any(c[0] == 'invalid' for c in cls) else []
    classes += ['genkey:open-cand'] if any(c[0] == 'open' for c in cls) else []
    ctx.case(spec, nontrivial=(len(ns) >= 3 and dup) or bool(spec['cands']), classes=classes)
    keys = []
    for item in spec['keys']:
        n = item['n']
        try:
            arg = {'int': n, 'str': str(n), 'key': None}[item['as']]
            key = Key(Key(n)) if arg is None else Key(arg)
            nxt = key.next
            back = Key(str(key))
        except Exception as exc:
            ctx.fail_exc(spec, 'genkey-valid-rejected', exc, [item['as']])
            return
        if not (isinstance(key, Key) and key == n and int(key) == n and str(key) == str(n) and hash(key) == hash(n) and back == n):
            ctx.fail(spec, 'genkey-value', 'differs', f'Key({arg!r}) = {key!r} (str {str(key)!r}, back {back!r}), expected {n}', [item['as']])
            return
        if not (isinstance(nxt, Key) and nxt == n + 1 and nxt > key):
            ctx.fail(spec, 'genkey-next', 'not-successor', f'Key({n}).next = {nxt!r}')
            return
        keys.append(key)
    for ka, na in zip(keys, ns):
        for kb, nb in zip(keys, ns):
            if ((ka < kb), (ka == kb), (ka > kb)) != ((na < nb), (na == nb), (na > nb)):
                ctx.fail(spec, 'genkey-order', 'pairwise', f'{ka!r} vs {kb!r}')
                return
    if [int(k) for k in sorted(keys)] != sorted(ns):
        ctx.fail(spec, 'genkey-order', 'sorted', f'sorted={sorted(keys)} expected={sorted(ns)}')
        return
    _check_listing(ctx, spec, keys, sorted(set(ns)), int, 'generation')
    if ns and max(ns) < 10**7 and not _check_put_after(ctx, spec, sorted(set(ns))[:4]):
        return
    for cand, (kind, n) in zip(map(cand_value, spec['cands']), cls):
        try:
            key = Key(cand)
        except Key.Invalid:
            if kind == 'valid':
                ctx.fail(spec, 'genkey-valid-rejected', 'rejected', f'{cand!r}')
                return
            continue
        except Exception as exc:
            ctx.fail_exc(spec, 'genkey-candidate-raises', exc, [kind])
            return
        if kind == 'invalid':
            ctx.fail(spec, 'genkey-invalid-accepted', 'accepted', f'{cand!r} does not denote an integer >= 1 but Key gives {key!r}')
            return
        if int(key) != n:
            ctx.fail(spec, 'genkey-open-consistency', 'differs', f'{cand!r} accepted as {key!r}, denotes {n}')
            return


# =====================================================================================================================
# manifests and packages
# =====================================================================================================================
_NAME_CHARS = 'abcxyzABZ0189'
_IDENTS = ['p_a', 'p_b', 'p_c', 'q1', 'Zz_9', '_u', 'proj', 'mypkg', 'a', 'b2', 'lib_x']


@st.composite
def name_str(draw):
    inner = draw(st.text(st.sampled_from(_NAME_CHARS + '._-'), max_size=8))
    first = draw(st.sampled_from(_NAME_CHARS))
    if draw(st.integers(0, 5)) == 0:
        return first
    return first + inner + draw(st.sampled_from(_NAME_CHARS))


ident = st.one_of(
    st.sampled_from(_IDENTS),
    st.from_regex(r'[a-z_][a-z0-9_]{0,6}', fullmatch=True).filter(lambda s: not keyword.iskeyword(s) and s.isascii()),
)
dotted = st.lists(ident, min_size=1, max_size=3).map('.'.join)


@st.composite
def manifest_spec(draw):
    comps = draw(st.lists(st.sampled_from(['source', 'pipeline', 'evaluation']), max_size=3, unique=True))
    return {
        'name': draw(name_str()),
        'version': draw(version_str()),
        'package': draw(dotted),
        'modules': {c: draw(dotted) for c in sorted(comps)},
    }


def manifest_diff(observed: dict, spec) -> list:
    bad = []
    if observed['name'] != spec['name']:
        bad.append(f"name {observed['name']!r} != {spec['name']!r}")
    if observed['version'] != spec['version']:
        bad.append(f"version {observed['version']!r} != {spec['version']!r}")
    if observed['package'] != spec['package']:
        bad.append(f"package {observed['package']!r} != {spec['package']!r}")
    if observed['modules'] != spec['modules']:
        bad.append(f"modules {observed['modules']!r} != {spec['modules']!r}")
    return bad


def observe_manifest(manifest) -> dict:
    return {
        'name': str(manifest.name) if isinstance(manifest.name, str) else repr(manifest.name),
        'version': str(manifest.version),
        'package': manifest.package,
        'modules': dict(manifest.modules),
    }


def check_manifest(ctx, spec):
    classes = ['manifest'] + (['manifest:modules'] if spec['modules'] else [])
    classes += ['manifest:rich-version'] if re.search(r'[!a-z+]', spec['version']) else []
    classes += ['manifest:special-name'] if re.search(r'[._-]', spec['name']) else []
    ctx.case(spec, nontrivial=bool(spec['modules']), classes=classes)
    base = _scratch(ctx, 'm')
    try:
        try:
            manifest = prj.Manifest(spec['name'], spec['version'], spec['package'], **spec['modules'])
            manifest.write(base)
        except Exception as exc:
            ctx.fail_exc(spec, 'manifest-write-raises', exc)
            return
        for clause, reader in (('manifest-read', lambda: prj.Manifest.read(base)), ('package-dir-manifest', lambda: prj.Package(base).manifest)):
            try:
                got = reader()
            except Exception as exc:
                ctx.fail_exc(spec, f'{clause}-raises', exc)
                return
            bad = manifest_diff(observe_manifest(got), spec)
            if bad:
                ctx.fail(spec, clause, 'differs', '; '.join(bad))
                return
            if not got == manifest:
                ctx.fail(spec, clause, 'unequal', f'{tuple(got)!r} != {tuple(manifest)!r}')
                return
    finally:
        shutil.rmtree(base, ignore_errors=True)


# ---- manifests rewritten at one path ------------------------------------------------------------------------------------
@st.composite
def rewrite_spec(draw):
    """2-4 manifests written one after another into the *same* directory (what re-building a project does), each read back
    right after its write. Edits keep the text length in half of the steps (a version digit, a module letter): the reader
    imports the manifest as a module, so anything that trusts an earlier load of that path - a memo keyed by the path, the
    interpreter's byte-code cache, which validates by size and mtime second - shows only then."""
    first = draw(manifest_spec())
    if not first['modules']:
        first['modules'] = {'source': draw(dotted)}
    seq = [first]
    for _ in range(draw(st.integers(1, 3))):
        prev = dict(seq[-1], modules=dict(seq[-1]['modules']))
        edit = draw(st.sampled_from(['digit', 'digit', 'letter', 'letter', 'fresh']))
        if edit == 'digit' and re.search(r'\d', prev['version']):
            pos = [m.start() for m in re.finditer(r'\d', prev['version'])][-1]
            old = prev['version'][pos]
            new = draw(st.sampled_from([d for d in '123456789' if d != old]))
            prev['version'] = prev['version'][:pos] + new + prev['version'][pos + 1:]
        elif edit == 'letter' and prev['modules']:
            comp = sorted(prev['modules'])[0]
            mod = prev['modules'][comp]
            new = draw(st.sampled_from([c for c in 'abcxyz' if c != mod[-1]]))
            prev['modules'][comp] = mod[:-1] + new
        else:
            prev = draw(manifest_spec())
        seq.append(prev)
    return {'seq': seq, 'bytecode': draw(st.sampled_from([True, True, False]))}


def _rewrite_child(base: str, spec) -> list:
    """In a forked child: byte-code caching as in production (./check switches it off for the harness itself), cache files
    kept under the scratch directory."""
    import sys

    if spec['bytecode']:
        sys.dont_write_bytecode = False
        sys.pycache_prefix = os.path.join(base, 'pycache')
    target = os.path.join(base, 'build')
    out = []
    for item in spec['seq']:
        step = {}
        try:
            prj.Manifest(item['name'], item['version'], item['package'], **item['modules']).write(target)
        except Exception as exc:  # pylint: disable=broad-except
            step['write'] = f'{type(exc).__name__}: {exc}'
            out.append(step)
            break
        for clause, reader in (('manifest-read', lambda: prj.Manifest.read(target)), ('package-dir-manifest', lambda: prj.Package(target).manifest)):
            try:
                step[clause] = observe_manifest(reader())
            except Exception as exc:  # pylint: disable=broad-except
                step[clause] = f'{type(exc).__name__}: {exc}'
        out.append(step)
    return out


def check_rewrite(ctx, spec):
    seq = spec['seq']
    samelen = [len(json.dumps(a, sort_keys=True)) == len(json.dumps(b, sort_keys=True)) for a, b in zip(seq, seq[1:])]
    classes = ['rewrite', f'rewrite:steps={len(seq)}'] + (['rewrite:same-length'] if any(samelen) else []) + (['rewrite:bytecode'] if spec['bytecode'] else [])
    ctx.case(spec, nontrivial=any(samelen), classes=classes)
    base = str(_scratch(ctx, 'rw'))  # fresh per case: a case is its own history (replayable)
    try:
        res = iso.forked(_rewrite_child, base, spec, timeout=120)
    finally:
        shutil.rmtree(base, ignore_errors=True)
    if isinstance(res, dict) and '__child_error__' in res:
        raise RuntimeError(f'rewrite child failed: {res}')
    tags = ['bytecode-cache' if spec['bytecode'] else 'no-bytecode']
    for i, (item, step) in enumerate(zip(seq, res)):
        pos = ['first-write'] if i == 0 else ['same-length' if samelen[i - 1] else 'other-length']
        if 'write' in step:
            ctx.fail(spec, 'manifest-write-raises', step['write'].split(':')[0], f'step {i}: {step["write"]}', tags + pos)
            return
        for clause in ('manifest-read', 'package-dir-manifest'):
            got = step[clause]
            if isinstance(got, str):
                ctx.fail(spec, f'{clause}-raises', got.split(':')[0], f'step {i}: {got}', tags + pos)
                return
            bad = manifest_diff(got, item)
            if bad:
                stale = i > 0 and any(not manifest_diff(got, earlier) for earlier in seq[:i])
                ctx.fail(spec, clause, 'stale-after-rewrite' if stale else 'differs', f'step {i}: ' + '; '.join(bad), tags + pos)
                return


_SOURCE_TMPL = '''from forml import project
from forml.io import dsl


class T(dsl.Schema):
    a = dsl.Field(dsl.Integer())


project.setup(project.Source.query(T.select(T.a).limit({mark})))
'''
_PIPELINE_TMPL = '''from forml import flow, project


class Op(flow.Operator):
    MARK = {mark}

    def compose(self, scope):
        return scope.expand()


project.setup(Op())
'''
_EVALUATION_TMPL = '''from forml import project

project.setup(project.Evaluation({mark}, None))
'''
_TMPL = {'source': _SOURCE_TMPL, 'pipeline': _PIPELINE_TMPL, 'evaluation': _EVALUATION_TMPL}
_COMPONENTS = ('source', 'pipeline', 'evaluation')


@st.composite
def package_spec(draw):
    package = '.'.join(
        draw(st.lists(st.sampled_from(['p_a', 'p_b', 'p_c', 'q1', 'Zz_9', '_u']), min_size=1, max_size=draw(st.sampled_from([1, 1, 2, 3])), unique=True))
    )
    marks = draw(st.lists(st.integers(1, 10**6), min_size=3, max_size=3, unique=True))
    comps = {}
    for comp, mark in zip(_COMPONENTS, marks):
        where = draw(st.sampled_from(['conv', 'conv', 'conv-mapped', 'rel', 'rel', 'abs', 'sub']))
        mod = f"m_{comp[:3]}_{draw(st.sampled_from(['x', 'y1', 'Zed', 'source', 'main']))}"
        if '.' not in package and where == 'rel' and draw(st.booleans()):
            mod = f'{package}_{comp[:3]}'  # a package-relative module whose name merely begins with the package name
        comps[comp] = {
            'where': where,
            'mod': mod,
            'mark': mark,
            'present': True if comp != 'evaluation' else draw(st.sampled_from([True, True, False])),
        }
    return {
        'name': draw(name_str()),
        'version': draw(version_str()),
        'package': package,
        'kind': draw(st.sampled_from(['zip', 'zip', 'zip-unsafe', 'dir'])),
        'comps': comps,
        'reinstall': draw(st.booleans()),
        # re-packaging: the source tree still carries the descriptor of an earlier release (other version, other module map)
        'stale': draw(st.booleans()),
        # the install target already holds another build of the same name and version (other module map, other code)
        'stale_install': draw(st.integers(0, 2)) == 0,
    }


def package_modules(spec) -> dict:
    """The module map of the manifest the spec describes."""
    modules = {}
    for comp in _COMPONENTS:
        c = spec['comps'][comp]
        if not c['present']:
            continue
        if c['where'] == 'conv-mapped':
            modules[comp] = comp
        elif c['where'] == 'rel':
            modules[comp] = c['mod']
        elif c['where'] == 'abs':
            modules[comp] = f"{spec['package']}.{c['mod']}"
        elif c['where'] == 'sub':
            modules[comp] = f"{spec['package']}.sub_{comp[:3]}.{c['mod']}"
    return modules


def _stale_child(base: str, spec) -> dict:
    """Runs in a forked child of its own (an earlier process): another build of the same name and version - other module
    map, code that must never run - installed at the target path our package is about to be installed to."""
    base = pathlib.Path(base)
    src = base / 'src0'
    level = src
    for part in spec['package'].split('.'):
        level = level / part
        level.mkdir(parents=True)
        (level / '__init__.py').write_text('')
    for name in ('source', 'pipeline', 'evaluation', 'stale_pipeline'):
        (level / f'{name}.py').write_text('raise RuntimeError("stale build loaded")\n')
    stale = {} if package_modules(spec) else {'pipeline': 'stale_pipeline'}
    manifest = prj.Manifest(spec['name'], spec['version'], spec['package'], **stale)
    if spec['kind'] == 'dir':
        manifest.write(src)
        package = prj.Package(src)
    else:
        if spec['kind'] == 'zip-unsafe':
            (level / 'data.txt').write_text('stale payload')
        package = prj.Package.create(src, manifest, base / 'dist' / 'stale.4ml')
    package.install(base / 'inst' / f"{spec['name']}-{spec['version']}")
    return {'ok': True}


def _package_child(base: str, spec) -> dict:
    """Runs in the forked child: build the source tree, package it, install it, load the components."""
    base = pathlib.Path(base)
    out = {'step': 'tree'}

    def failed(step, exc):
        out.update(step=step, exc=type(exc).__name__, frame=ctxmod.forml_frame(exc), msg=str(exc)[:500])
        return out

    src = base / 'src'
    level = src
    for part in spec['package'].split('.'):
        level = level / part
        level.mkdir(parents=True)
        (level / '__init__.py').write_text('')
    for comp in _COMPONENTS:
        c = spec['comps'][comp]
        if not c['present']:
            continue
        target = level
        if c['where'] == 'sub':
            target = level / f'sub_{comp[:3]}'
            target.mkdir()
            (target / '__init__.py').write_text('')
        fname = comp if c['where'] in ('conv', 'conv-mapped') else c['mod']
        (target / f'{fname}.py').write_text(_TMPL[comp].format(mark=c['mark']))
    if spec['kind'] == 'zip-unsafe':
        (level / 'data.txt').write_text('payload')
    try:
        manifest = prj.Manifest(spec['name'], spec['version'], spec['package'], **package_modules(spec))
        if spec['kind'] == 'dir':
            manifest.write(src)
            package = prj.Package(src)
        else:
            if spec.get('stale'):
                stale = {} if package_modules(spec) else {'pipeline': 'stale_pipeline'}
                prj.Manifest(spec['name'], '0.0.0.dev1', spec['package'], **stale).write(src)
            package = prj.Package.create(src, manifest, base / 'dist' / f"{spec['name']}-{spec['version']}.4ml")
    except Exception as exc:  # pylint: disable=broad-except
        return failed('create', exc)
    out['manifest'] = observe_manifest(package.manifest)
    try:
        out['reread'] = observe_manifest(prj.Package(package.path).manifest)
    except Exception as exc:  # pylint: disable=broad-except
        return failed('reread', exc)
    target = base / 'inst' / f"{spec['name']}-{spec['version']}"
    rounds = []
    for _ in range(2 if spec['reinstall'] else 1):
        try:
            artifact = package.install(target)
        except Exception as exc:  # pylint: disable=broad-except
            return failed('install', exc)
        try:
            comps = artifact.components
            marks = {
                'source': comps.source.extract.train.rows.count,
                'pipeline': type(comps.pipeline).MARK,
                'evaluation': None if comps.evaluation is None else comps.evaluation.metric,
            }
        except Exception as exc:  # pylint: disable=broad-except
            return failed('components', exc)
        rounds.append({'package': artifact.package, 'modules': dict(artifact.modules), 'marks': marks, 'target_is_file': target.is_file()})
    out['rounds'] = rounds
    out['step'] = 'done'
    return out


def check_package(ctx, spec):
    modules = package_modules(spec)
    wheres = sorted({c['where'] for c in spec['comps'].values() if c['present']})
    classes = ['package', f"package:{spec['kind']}"] + [f'package:{w}' for w in wheres]
    classes += ['package:no-evaluation'] if not spec['comps']['evaluation']['present'] else []
    classes += ['package:reinstall'] if spec['reinstall'] else []
    classes += ['package:stale-descriptor'] if spec.get('stale') and spec['kind'] != 'dir' else []
    classes += ['package:stale-install'] if spec.get('stale_install') else []
    ctx.case(spec, nontrivial=bool(modules), classes=classes)
    base = _scratch(ctx, 'p')
    try:
        (base / 'dist').mkdir()
        if spec.get('stale_install'):
            pre = iso.forked(_stale_child, str(base), spec)
            if '__child_error__' in pre:
                raise RuntimeError(f"stale install child failed: {pre['__child_error__']}\n{pre.get('traceback')}")
        res = iso.forked(_package_child, str(base), spec)
    finally:
        shutil.rmtree(base, ignore_errors=True)
    if '__child_error__' in res:
        raise RuntimeError(f"package child failed: {res['__child_error__']}\n{res.get('traceback')}")
    tags = [spec['kind']]
    if res['step'] != 'done':
        ctx.fail(spec, f"package-{res['step']}-raises", f"{res['exc']}@{res['frame']}", f"{res['exc']}: {res['msg']}", tags)
        return
    expected = {'name': spec['name'], 'version': spec['version'], 'package': spec['package'], 'modules': modules}
    for which, seen in (('created', res['manifest']), ('reread', res['reread'])):
        bad = manifest_diff(seen, expected)
        if bad:
            ctx.fail(spec, 'package-manifest', 'differs', f'{which}: ' + '; '.join(bad), tags)
            return
    marks = {comp: (spec['comps'][comp]['mark'] if spec['comps'][comp]['present'] else None) for comp in _COMPONENTS}
    for i, rnd in enumerate(res['rounds']):
        which = 'reinstall' if i else 'install'
        if rnd['package'] != spec['package'] or rnd['modules'] != modules:
            ctx.fail(spec, 'package-artifact', 'differs', f"{which}: artifact package={rnd['package']!r} modules={rnd['modules']!r}", tags + [which])
            return
        if rnd['marks'] != marks:
            wrong = sorted(c for c in _COMPONENTS if rnd['marks'][c] != marks[c])
            ctx.fail(spec, 'package-components', 'differs', f"{which}: markers {rnd['marks']} expected {marks}", tags + [which] + wrong)
            return


def campaigns(ctx):
    return [
        Campaign('tag', tag_spec(), check_tag, 3000, 30000),
        Campaign('relkey', relkey_spec(), check_relkey, 1500, 12000),
        Campaign('genkey', genkey_spec(), check_genkey, 1500, 12000),
        Campaign('manifest', manifest_spec(), check_manifest, 500, 4000),
        Campaign('package', package_spec(), check_package, 100, 500),
        Campaign('rewrite', rewrite_spec(), check_rewrite, 250, 1500),
    ]


def enumerate_extra(ctx, shard, nshards):
    """Deterministic corner cases: defaults, the empty listing, every fixed candidate string."""
    if shard != 0:
        return
    ctx.campaign = 'genkey'
    check_genkey(ctx, {'keys': [], 'cands': []})
    for cand in _GEN_CANDS:
        check_genkey(ctx, {'keys': [{'n': 1, 'as': 'int'}], 'cands': [cand]})
    try:
        if not (asset.Generation.Key() == 1 and asset.Generation.Key.MIN == 1):
            ctx.fail({'default': 'generation'}, 'genkey-default', 'not-one', repr(asset.Generation.Key()))
    except Exception as exc:
        ctx.fail_exc({'default': 'generation'}, 'genkey-default', exc)
    ctx.campaign = 'relkey'
    for cand in _REL_FIXED:
        check_relkey(ctx, {'keys': ['1'], 'cands': [cand]})
    ctx.campaign = 'tag'
    for nasty in _STR_NASTY:
        check_tag(
            ctx,
            {
                'training': {'ts': [2020, 1, 2, 3, 4, 5, 0, None], 'ordinal': {'kind': 'str', 'value': nasty}},
                'tuning': {'ts': None, 'score': None},
                'states': [],
                'build': 'direct',
            },
        )


LEVEL_TEXT = (
    'Generated-input search: thousands of tags, key sets and manifests and about a hundred packaged projects per run are '
    'written and read back through the public API and compared field by field (type-exact) with the generator spec; key '
    'order is compared with an own PEP 440 sort key / integer order. Appropriate because the property is a round-trip and '
    'ordering relation with a cheap exact oracle; it is evidence over the sampled value domain, not a proof.'
)
LEVEL_NOTE = (
    'Trusted: the PEP 440 grammar/sort key and the comparison helpers in vf/checks/c18.py, Hypothesis, fork isolation in '
    'vf/meta/iso.py. Values TOML cannot represent (Decimal, time of day, second-granular offsets) are outside the domain; '
    'key validity is taken narrowly (see assumptions).'
)
TECHNIQUE = 'property-based testing (Hypothesis), round-trip and reference-order oracles, forked children for package installs'

# coverage-guided (atheris) pass of the thorough tier: (campaign, libFuzzer runs, instrumented module prefixes)
FUZZ = [('tag', 30000, ['forml.io.asset', 'toml']), ('relkey', 30000, ['forml.io.asset']), ('genkey', 30000, ['forml.io.asset'])]
