"""C15 - served entries reach the pipeline in the query's schema.

Campaigns (all specs JSON-able):
* entry  - a query schema (1-5 fields), an entry whose columns are an arrangement of it (identity, permutation, superset
           with extras anywhere, one missing column, duplicate names, entry kinds needing a cast) and random rows; driven
           through a concrete ``io.Feed.Reader.__call__(statement, entry)`` directly and through RowDriver/TableDriver,
           payload as ``layout.Dense`` and ``layout.Frame``. Oracle from the spec: own reference cast and column routing.
* matrix - random matrices (0-6 x 1-6, mixed int/float/str/bool cells) for Dense.from_rows / Dense.from_columns /
           Frame(DataFrame): row/column views, take_rows / take_columns for random index lists (repeats, empty), chained
           takes and the label Slicer against plain list indexing.
* enumerate_extra - every arrangement of <=3 (thorough <=4) query fields with <=2 extras / one missing column x every
           position of the column needing a cast x both payload implementations; every index list of length <=3 over a
           3x3 matrix.
"""
import json
import datetime
import itertools
import numbers

import numpy
import pandas
from hypothesis import strategies as st

import forml
from forml import io
from forml.io import dsl, layout
from forml.io._input import extract

from vf.core.hyp import Campaign

ID = 'C15'
LEVEL = 'exploration'
RULE = (
    'Hypothesis-generated (query schema of 1-5 fields over int/float/str/bool/date/timestamp, entry arrangement = any '
    'permutation / superset with <=2 extras at any position / one missing column / duplicated name, per-column entry '
    'kind equal or castable ("7"->int, 1->float, 7->"7", 0/1->bool, ISO string->date/timestamp, date->timestamp), 1-4 '
    'rows of column-distinct values) x payload Dense/Frame x path reader/RowDriver/TableDriver; random matrices with '
    'random index lists; plus exhaustive arrangements for <=3 (thorough <=4) fields. Non-trivial: a non-identity '
    'arrangement with >=1 column needing a cast (entry campaign); a matrix with >=2 rows and >=2 columns and a '
    'non-empty selection with a repeat or reorder (matrix campaign). Distinct = distinct spec digest.'
)
ASSUMPTIONS = [
    'entries carry a dsl schema built with dsl.Schema.from_fields; schemas with duplicate field names cannot be built '
    '(GrammarError), so the duplicate-name arrangement is counted as unconstructible and not judged',
    'a tabular payload carries no column names: "exactly the query\'s columns in order" is judged by position using '
    'column-distinct cell values',
    'cells of a row are read by iterating the row (layout.RowMajor only promises the top dimension), values compared with '
    '== (an int seen as an equal float in a numpy/pandas row view is the same value); kinds are checked on the column view: '
    'int->numbers.Integral, float->numbers.Real, str->str, bool->bool/numpy.bool_, date->datetime.date, timestamp->datetime.datetime',
    'casts generated only where python/pandas semantics are unambiguous (no str->bool, no timestamp->date); integers stay '
    'below 2**31, floats are multiples of 0.5; entries have >=1 row',
]
FLOORS = {
    'entry:perm': 0.1,
    'entry:extras': 0.1,
    'entry:missing': 0.03,
    'entry:cast': 0.1,
    'entry:nontrivial': 0.08,
    'matrix:repeat': 0.05,
    'matrix:empty-selection': 0.02,
    'decoded:layouts-differ': 0.04,
}

KINDS = {
    'int': dsl.Integer(),
    'float': dsl.Float(),
    'str': dsl.String(),
    'bool': dsl.Boolean(),
    'date': dsl.Date(),
    'ts': dsl.Timestamp(),
}
CASTABLE = {'int': ['str', 'float'], 'float': ['str', 'int'], 'str': ['int', 'float'], 'bool': ['int'], 'date': ['str'], 'ts': ['str', 'date']}


class Reader(io.Feed.Reader):
    """Minimal concrete reader: the entry path of ``__call__`` needs neither a parser nor a storage."""

    @classmethod
    def parser(cls, sources, features):
        raise AssertionError('entry path must not parse')

    @classmethod
    def read(cls, statement, **kwargs):
        raise AssertionError('entry path must not read')


# ---- values ------------------------------------------------------------------------------------------------------------
def natural(kind: str, col: int, k: int):
    """JSON value of the given kind, distinct per column ``col`` (k = small random integer)."""
    if kind == 'int':
        return col * 1000 + k
    if kind == 'float':
        return col * 1000 + k + 0.5
    if kind == 'str':
        return f'v{col}_{k}'
    if kind == 'bool':
        return bool((k + col) % 2)
    if kind == 'date':
        return f'{2001 + col:04d}-{1 + k % 12:02d}-{1 + k % 28:02d}'
    if kind == 'ts':
        return f'{2001 + col:04d}-{1 + k % 12:02d}-{1 + k % 28:02d}T{k % 24:02d}:{k % 60:02d}:{(k * 7) % 60:02d}'
    raise ValueError(kind)


def source_cell(qkind: str, ekind: str, col: int, k: int):
    """JSON cell of entry kind ``ekind`` that is castable to the query kind ``qkind``."""
    if ekind == qkind:
        return natural(qkind, col, k)
    if (qkind, ekind) == ('int', 'str'):
        return str(col * 1000 + k)
    if (qkind, ekind) == ('int', 'float'):
        return float(col * 1000 + k)
    if (qkind, ekind) == ('float', 'str'):
        return repr(col * 1000 + k + 0.5)
    if (qkind, ekind) == ('float', 'int'):
        return col * 1000 + k
    if (qkind, ekind) == ('str', 'int'):
        return col * 1000 + k
    if (qkind, ekind) == ('str', 'float'):
        return col * 1000 + k + 0.5
    if (qkind, ekind) == ('bool', 'int'):
        return (k + col) % 2
    if (qkind, ekind) == ('date', 'str'):
        return natural('date', col, k)
    if (qkind, ekind) == ('ts', 'str'):
        return natural('ts', col, k)
    if (qkind, ekind) == ('ts', 'date'):
        return natural('date', col, k)
    raise ValueError((qkind, ekind))


def to_python(ekind: str, cell):
    """Entry cell as the python object the entry kind stands for."""
    if ekind == 'date':
        return datetime.date.fromisoformat(cell)
    if ekind == 'ts':
        return datetime.datetime.fromisoformat(cell)
    return cell


def ref_cast(qkind: str, ekind: str, cell):
    """Reference cast computed from the spec only."""
    value = to_python(ekind, cell)
    if qkind == ekind:
        return value
    if qkind == 'int':
        return int(value)
    if qkind == 'float':
        return float(value)
    if qkind == 'str':
        return str(value)
    if qkind == 'bool':
        return bool(value)
    if qkind == 'date':
        return datetime.date.fromisoformat(value)
    if qkind == 'ts':
        if isinstance(value, str):
            return datetime.datetime.fromisoformat(value)
        return datetime.datetime(value.year, value.month, value.day)
    raise ValueError(qkind)


def of_kind(qkind: str, value) -> bool:
    if qkind == 'int':
        return isinstance(value, numbers.Integral) and not isinstance(value, (bool, numpy.bool_))
    if qkind == 'float':
        return isinstance(value, numbers.Real) and not isinstance(value, (bool, numpy.bool_))
    if qkind == 'str':
        return isinstance(value, str)
    if qkind == 'bool':
        return isinstance(value, (bool, numpy.bool_))
    if qkind == 'date':
        return isinstance(value, datetime.date)
    if qkind == 'ts':
        return isinstance(value, datetime.datetime)
    raise ValueError(qkind)


def same(got, exp) -> bool:
    """Value equality; a string is never equal to a non-string."""
    if isinstance(exp, str) != isinstance(got, str):
        return False
    try:
        return bool(got == exp)
    except Exception:  # pylint: disable=broad-except
        return False


# ---- entry campaign: generator -----------------------------------------------------------------------------------------
@st.composite
def entry_spec(draw):
    n = draw(st.integers(1, 5))
    qkinds = [draw(st.sampled_from(sorted(KINDS))) for _ in range(n)]
    query = [[f'q{i}', k] for i, k in enumerate(qkinds)]
    cols = []  # (name, ekind, qindex or None)
    for i, k in enumerate(qkinds):
        ekind = draw(st.sampled_from(CASTABLE[k])) if draw(st.integers(0, 9)) < 4 else k
        cols.append([f'q{i}', ekind, i])
    shape = draw(st.sampled_from(['identity', 'perm', 'perm', 'extras', 'extras', 'perm+extras', 'perm+extras', 'missing', 'dup']))
    if shape == 'missing':
        cols.pop(draw(st.integers(0, n - 1)))
    if shape in ('extras', 'perm+extras') or (shape in ('missing', 'dup') and draw(st.booleans())):
        for x in range(draw(st.integers(1, 2))):
            pos = draw(st.integers(0, len(cols)))
            cols.insert(pos, [f'x{x}', draw(st.sampled_from(sorted(KINDS))), None])
    if shape == 'dup' and cols:
        src = draw(st.sampled_from(cols))
        cols.insert(draw(st.integers(0, len(cols))), [src[0], draw(st.sampled_from(sorted(KINDS))), None])
    if shape in ('perm', 'perm+extras') or (shape in ('missing', 'dup') and draw(st.booleans())):
        cols = list(draw(st.permutations(cols)))
    nrows = draw(st.integers(1, 4))
    rows = []
    for _ in range(nrows):
        row = []
        for pos, (name, ekind, qi) in enumerate(cols):
            k = draw(st.integers(0, 99))
            row.append(source_cell(qkinds[qi], ekind, qi, k) if qi is not None else natural(ekind, 10 + pos, k))
        rows.append(row)
    return {
        'query': query,
        'entry': [[name, ekind] for name, ekind, _ in cols],
        'rows': rows,
        'impl': draw(st.sampled_from(['dense', 'frame'])),
        'via': draw(st.sampled_from(['reader', 'reader', 'row', 'table'])),
        'stmt': draw(st.sampled_from(['table', 'select'])),
    }


# ---- entry campaign: execution -------------------------------------------------------------------------------------------
def make_schema(fields):
    return dsl.Schema.from_fields(*(dsl.Field(KINDS[k], name=n) for n, k in fields))


def make_tabular(impl: str, rows):
    if impl == 'dense':
        return layout.Dense.from_rows(rows)
    return layout.Frame(pandas.DataFrame(rows))


def analyse(spec):
    """Arrangement facts computed from the spec."""
    qnames = [n for n, _ in spec['query']]
    enames = [n for n, _ in spec['entry']]
    dup = len(set(enames)) < len(enames)
    missing = [n for n in qnames if n not in enames]
    present = [n for n in enames if n in qnames]
    order = [n for n in qnames if n in enames]
    perm = present != order
    extras = any(n not in qnames for n in enames)
    ekind = dict((n, k) for n, k in spec['entry'])
    casts = [n for n, k in spec['query'] if n in ekind and ekind[n] != k]
    return {'dup': dup, 'missing': missing, 'perm': perm, 'extras': extras, 'casts': casts, 'identity': enames == qnames}


def check_entry(ctx, spec):
    facts = analyse(spec)
    classes = ['entry', f'entry:{spec["impl"]}', f'entry:via-{spec["via"]}']
    for flag in ('perm', 'extras', 'dup', 'identity'):
        if facts[flag]:
            classes.append(f'entry:{flag}')
    if facts['missing']:
        classes.append('entry:missing')
    if facts['casts']:
        classes.append('entry:cast')
        for n, k in spec['query']:
            if n in facts['casts']:
                classes.append(f'entry:cast-to-{k}')
    nontrivial = bool(facts['casts']) and not facts['identity'] and not facts['missing'] and not facts['dup']
    if nontrivial:
        classes.append('entry:nontrivial')
    tags = sorted([t for t in ('perm', 'extras') if facts[t]] + (['cast'] if facts['casts'] else []))

    try:
        eschema = make_schema(spec['entry'])
    except dsl.GrammarError:
        if facts['dup']:
            classes.append('entry:dup-unconstructible')
            ctx.case(spec, nontrivial=False, classes=classes)
            return
        raise
    qschema = make_schema(spec['query'])
    table = dsl.Table(qschema)
    statement = table if spec['stmt'] == 'table' else table.select(*(table[n] for n, _ in spec['query']))
    ekinds = [k for _, k in spec['entry']]
    rows = [[to_python(k, c) for k, c in zip(ekinds, row)] for row in spec['rows']]
    entry = layout.Entry(eschema, make_tabular(spec['impl'], rows))
    reader = Reader({}, {})
    ctx.case(spec, nontrivial=nontrivial, classes=classes)

    out_rows = out_cols = None
    try:
        if spec['via'] == 'reader':
            out = reader(statement, entry)
        elif spec['via'] == 'table':
            out = extract.TableDriver(reader, extract.Statement.prepare(statement, None)).apply(entry)
        else:
            out = None
            out_rows = extract.RowDriver(reader, extract.Statement.prepare(statement, None)).apply(entry)
        if out is not None:
            out_rows, out_cols = out.to_rows(), out.to_columns()
        got_rows = [list(r) for r in out_rows]
        got_cols = None if out_cols is None else [list(c) for c in out_cols]
    except forml.MissingError as exc:
        if not facts['missing']:
            ctx.fail_exc(spec, 'complete-refused', exc, tags)
        return
    except Exception as exc:  # pylint: disable=broad-except
        ctx.fail_exc(spec, 'refusal-type' if facts['missing'] else 'read-raises', exc, tags)
        return
    if facts['missing']:
        ctx.fail(spec, 'refusal', 'missing-accepted', f'missing {facts["missing"]} but got rows {got_rows!r:.300}', tags)
        return

    # expected table from the spec
    pos = {n: i for i, (n, _) in enumerate(spec['entry'])}
    expected = [[ref_cast(qk, spec['entry'][pos[qn]][1], row[pos[qn]]) for qn, qk in spec['query']] for row in spec['rows']]
    raw = [[to_python(k, c) for k, c in zip(ekinds, row)] for row in spec['rows']]
    nq = len(spec['query'])
    seen = set()

    def report(clause, kind, detail):
        if (clause, kind) not in seen:
            seen.add((clause, kind))
            ctx.fail(spec, clause, kind, detail, tags)

    if len(got_rows) != len(expected):
        report('shape', 'row-count', f'{len(got_rows)} rows, expected {len(expected)}')
        return
    if any(len(r) != nq for r in got_rows) or (got_cols is not None and len(got_cols) != nq):
        report('shape', 'column-count', f'row widths {[len(r) for r in got_rows]} columns {None if got_cols is None else len(got_cols)}, expected {nq}')
        return
    if got_cols is not None and any(len(c) != len(expected) for c in got_cols):
        report('shape', 'column-length', f'column lengths {[len(c) for c in got_cols]}, expected {len(expected)}')
        return
    views = [('rows', lambda r, c: got_rows[r][c])]
    if got_cols is not None:
        views.append(('columns', lambda r, c: got_cols[c][r]))
    for view, cell in views:
        for r, erow in enumerate(expected):
            for c, exp in enumerate(erow):
                got = cell(r, c)
                qname, qkind = spec['query'][c]
                source = raw[r][pos[qname]]
                if same(got, exp):
                    if view == 'columns' and not of_kind(qkind, got):
                        # equal under == but of the wrong kind (1 for True, 7.0 for 7): still the uncast entry value?
                        skipped = qname in facts['casts'] and same(got, source) and type(got) is type(source)
                        report(
                            'cell',
                            'cast-skipped' if skipped else 'kind',
                            f'{view} ({r},{qname}) {got!r} is a {type(got).__name__}, not a {qkind}; entry columns {spec["entry"]}',
                        )
                    continue
                if qname in facts['casts'] and same(got, source):
                    kind = 'cast-skipped'
                elif any(
                    same(got, v)
                    for v in [expected[r][k] for k in range(nq) if k != c] + [raw[r][j] for j in range(len(raw[r])) if j != pos[qname]]
                ):
                    kind = 'misrouted'
                else:
                    kind = 'wrong-value'
                report('cell', kind, f'{view} ({r},{qname}:{qkind}) got {got!r} expected {exp!r}; entry columns {spec["entry"]}')
    for clause, kind in seen:
        if (clause, kind) == ('cell', 'cast-skipped'):
            ctx.mask('|'.join([clause, kind, ','.join(tags)]))


# ---- matrix campaign -----------------------------------------------------------------------------------------------------
_CELL = st.one_of(
    st.integers(-(2**31), 2**31),
    st.integers(-2000, 2000).map(lambda i: i / 2),
    st.text('abcxyz', min_size=0, max_size=4),
    st.booleans(),
)


@st.composite
def matrix_spec(draw):
    nrows, ncols = draw(st.integers(0, 6)), draw(st.integers(1, 6))
    typed = draw(st.booleans())  # columns of one type each (what a schema-bound table looks like) or freely mixed cells
    if typed:
        colgen = [draw(st.sampled_from([0, 1, 2, 3])) for _ in range(ncols)]
        pick = [st.integers(-(2**31), 2**31), st.integers(-2000, 2000).map(lambda i: i / 2), st.text('abcxyz', max_size=4), st.booleans()]
        cells = [[draw(pick[colgen[j]]) for j in range(ncols)] for _ in range(nrows)]
    else:
        cells = [[draw(_CELL) for _ in range(ncols)] for _ in range(nrows)]
    rsel = draw(st.lists(st.integers(0, max(nrows - 1, 0)), max_size=8)) if nrows else []
    csel = draw(st.lists(st.integers(0, ncols - 1), max_size=8))
    nf = draw(st.integers(0, ncols - 1))
    if draw(st.booleans()):
        label = nf
    else:
        label = [nf, draw(st.integers(0, ncols - nf))]
    return {'nrows': nrows, 'ncols': ncols, 'cells': cells, 'rows': rsel, 'cols': csel, 'nf': nf, 'label': label}


def builders(spec):
    cells, nrows, ncols = spec['cells'], spec['nrows'], spec['ncols']
    columns = [[row[j] for row in cells] for j in range(ncols)]
    out = []
    if nrows:
        out.append(('dense-rows', lambda: layout.Dense.from_rows([list(r) for r in cells])))
    out.append(('dense-columns', lambda: layout.Dense.from_columns(columns)))
    out.append(('frame', lambda: layout.Frame(pandas.DataFrame(cells, columns=list(range(ncols))))))
    return out


def table_diff(tab, expected, ncols):
    """Compare both views of a tabular with a plain row-major matrix; returns (kind, detail) or None."""
    rows, cols = tab.to_rows(), tab.to_columns()
    if len(rows) != len(expected):
        return 'row-count', f'{len(rows)} rows, expected {len(expected)}'
    if len(cols) != ncols:
        return 'column-count', f'{len(cols)} columns, expected {ncols}'
    grows = [list(r) for r in rows]
    gcols = [list(c) for c in cols]
    for i, erow in enumerate(expected):
        if len(grows[i]) != ncols:
            return 'row-width', f'row {i} has {len(grows[i])} cells, expected {ncols}'
        for j, exp in enumerate(erow):
            if len(gcols[j]) != len(expected):
                return 'column-length', f'column {j} has {len(gcols[j])} cells'
            if not same(grows[i][j], exp):
                return 'row-cell', f'to_rows()[{i}][{j}] = {grows[i][j]!r}, expected {exp!r}'
            if not same(gcols[j][i], exp):
                return 'column-cell', f'to_columns()[{j}][{i}] = {gcols[j][i]!r}, expected {exp!r}'
    return None


def rows_diff(got, expected, what):
    got = [list(r) for r in got]
    if len(got) != len(expected):
        return f'{what}-count', f'{len(got)} rows, expected {len(expected)}'
    for i, (g, e) in enumerate(zip(got, expected)):
        if len(g) != len(e) or not all(same(a, b) for a, b in zip(g, e)):
            return f'{what}-cell', f'{what} row {i} = {g!r}, expected {e!r}'
    return None


def check_matrix(ctx, spec):
    cells, nrows, ncols = spec['cells'], spec['nrows'], spec['ncols']
    rsel, csel = spec['rows'], spec['cols']
    classes = ['matrix']
    if nrows == 0:
        classes.append('matrix:no-rows')
    if len(set(rsel)) < len(rsel) or len(set(csel)) < len(csel):
        classes.append('matrix:repeat')
    if not rsel or not csel:
        classes.append('matrix:empty-selection')
    reorder = sorted(rsel) != rsel or sorted(csel) != csel
    nontrivial = nrows >= 2 and ncols >= 2 and bool(rsel or csel) and ('matrix:repeat' in classes or reorder)
    ctx.case(spec, nontrivial=nontrivial, classes=classes)
    by_rows = [cells[i] for i in rsel]
    by_cols = [[row[j] for j in csel] for row in cells]
    both = [[row[j] for j in csel] for row in by_rows]
    nf, label = spec['nf'], spec['label']
    for name, build in builders(spec):
        try:
            tab = build()
            steps = [
                ('view', tab, cells, ncols),
                ('take_rows', tab.take_rows(rsel), by_rows, ncols),
                ('take_columns', tab.take_columns(csel), by_cols, len(csel)),
                ('take_rows+take_columns', tab.take_rows(rsel).take_columns(csel), both, len(csel)),
                ('take_columns+take_rows', tab.take_columns(csel).take_rows(rsel), both, len(csel)),
            ]
            if rsel:  # a selection of a selection (positions refer to the intermediate table, not to the original one)
                again = list(range(len(rsel) - 1, -1, -1))
                steps.append(('take_rows+take_rows', tab.take_rows(rsel).take_rows(again), [by_rows[i] for i in again], ncols))
            if csel:
                again = list(range(len(csel) - 1, -1, -1))
                steps.append(
                    ('take_columns+take_columns', tab.take_columns(csel).take_columns(again), [[row[j] for j in again] for row in by_cols], len(csel))
                )
            for what, got, exp, width in steps:
                diff = table_diff(got, exp, width)
                if diff:
                    ctx.fail(spec, f'matrix:{what}', diff[0], f'{name}: {diff[1]}', [name])
            if nrows:
                labels = label if isinstance(label, int) else range(label[0], label[0] + label[1])
                if isinstance(label, int) or label[1] > 0:
                    table = dsl.Table(make_schema([[f'c{j}', 'int'] for j in range(ncols)]))
                    fcols = [table[f'c{j}'] for j in range(nf)]
                    lcols = table[f'c{label}'] if isinstance(label, int) else [table[f'c{j}'] for j in labels]
                    combined, builder = extract.Slicer.from_columns(fcols, lcols)
                    if len(combined) != nf + (1 if isinstance(label, int) else label[1]):
                        ctx.fail(spec, 'matrix:slicer', 'combined-columns', f'{name}: {combined}', [name])
                    feats, labs = builder().apply(tab)
                    diff = rows_diff(feats, [row[:nf] for row in cells], 'features')
                    if not diff:
                        if isinstance(label, int):
                            got = list(labs)
                            exp = [row[label] for row in cells]
                            if len(got) != len(exp) or not all(same(a, b) for a, b in zip(got, exp)):
                                diff = ('label-column', f'labels {got!r}, expected {exp!r}')
                        else:
                            diff = rows_diff(labs, [row[label[0] : label[0] + label[1]] for row in cells], 'labels')
                    if diff:
                        ctx.fail(spec, 'matrix:slicer', diff[0], f'{name}: {diff[1]}', [name])
        except Exception as exc:  # pylint: disable=broad-except
            ctx.fail_exc(spec, 'matrix:raises', exc, [name])


# ---- exhaustive small scopes ---------------------------------------------------------------------------------------------
_EKINDS = ['int', 'str', 'float', 'date']
_ESRC = {'int': 'str', 'str': 'int', 'float': 'str', 'date': 'str'}


def arrangements(n: int):
    """Every entry arrangement of n query columns: all / all-but-one present, 0-2 extras, every order."""
    for drop in [None] + list(range(n)):
        present = [i for i in range(n) if i != drop]
        for nx in (0, 1, 2):
            slots = present + [f'x{k}' for k in range(nx)]
            for order in itertools.permutations(slots):
                yield list(order)


def enumerate_extra(ctx, shard, nshards):
    top = 4 if ctx.tier == 'thorough' else 3
    ctx.campaign = 'entry'
    count = 0
    for n in range(1, top + 1):
        qkinds = [_EKINDS[i % 4] for i in range(n)]
        for order in arrangements(n):
            for castcol in [None] + list(range(n)):
                for impl in ('dense', 'frame'):
                    count += 1
                    if count % nshards != shard:
                        continue
                    entry, rows = [], [[], []]
                    for pos, slot in enumerate(order):
                        if isinstance(slot, int):
                            ekind = _ESRC[qkinds[slot]] if slot == castcol else qkinds[slot]
                            entry.append([f'q{slot}', ekind])
                            for r in (0, 1):
                                rows[r].append(source_cell(qkinds[slot], ekind, slot, 3 + 5 * r))
                        else:
                            entry.append([slot, 'int'])
                            for r in (0, 1):
                                rows[r].append(natural('int', 10 + pos, r))
                    spec = {
                        'query': [[f'q{i}', k] for i, k in enumerate(qkinds)],
                        'entry': entry,
                        'rows': rows,
                        'impl': impl,
                        'via': 'reader',
                        'stmt': 'table',
                    }
                    check_entry(ctx, spec)
                    ctx.klass('entry:enumerated')
    ctx.campaign = 'matrix'
    cells = [[11, 'b12', 13.5], [21, 'b22', 23.5], [31, 'b32', 33.5]]
    count = 0
    for length in range(0, 4):
        for rsel in itertools.product(range(3), repeat=length):
            for csel in itertools.product(range(3), repeat=length if length < 3 else 1):
                count += 1
                if count % nshards != shard:
                    continue
                spec = {'nrows': 3, 'ncols': 3, 'cells': cells, 'rows': list(rsel), 'cols': list(csel), 'nf': 2, 'label': 2}
                check_matrix(ctx, spec)
                spec = {'nrows': 3, 'ncols': 3, 'cells': cells, 'rows': list(csel), 'cols': list(rsel), 'nf': 1, 'label': [1, 2]}
                check_matrix(ctx, spec)
                ctx.klass('matrix:enumerated')
    if shard == 0:
        ctx.extra['exhaustive_arrangements_up_to_fields'] = top


# ---- decoded campaign: request histories decoded by the stock decoders within one process -----------------------------------
_DKINDS = ['int', 'int', 'float', 'str']


def _dvalue(kind: str, col: int, k: int):
    """Column-distinct values that survive JSON / CSV text unchanged."""
    if kind == 'int':
        return col * 1000 + k
    if kind == 'float':
        return col * 1000 + k + 0.5
    return f'c{col}v{k}'


@st.composite
def decoded_spec(draw):
    """2-4 requests against one query; the requests differ in names / order while mostly keeping the same sequence of
    column types, as clients with different field orders (or another model's clients) hitting one gateway process do."""
    n = draw(st.integers(2, 4))
    uniform = draw(st.integers(0, 3)) > 0
    kinds = [draw(st.sampled_from(_DKINDS))] * n if uniform else [draw(st.sampled_from(_DKINDS)) for _ in range(n)]
    query = [[f'q{i}', k] for i, k in enumerate(kinds)]
    requests = []
    for _ in range(draw(st.integers(2, 4))):
        cols = [[f'q{i}', k, i] for i, k in enumerate(kinds)]
        shape = draw(st.sampled_from(['identity', 'perm', 'perm', 'replace', 'replace', 'extras', 'missing']))
        if shape in ('replace', 'missing'):
            i = draw(st.integers(0, n - 1))
            kind = cols[i][1]
            cols.pop(i)
            if shape == 'replace':  # a required column replaced by a foreign one of the same type, at the same position
                cols.insert(i, [f'x{i}', kind, None])
        if shape == 'extras':
            cols.insert(draw(st.integers(0, len(cols))), ['x9', draw(st.sampled_from(_DKINDS)), None])
        if shape == 'perm' or draw(st.integers(0, 3)) == 0:
            cols = list(draw(st.permutations(cols)))
        nrows = draw(st.integers(1, 3))
        ks = [[draw(st.integers(0, 99)) for _ in cols] for _ in range(nrows)]
        rows = [[_dvalue(kind, (qi if qi is not None else 50 + pos), k) for pos, ((_, kind, qi), k) in enumerate(zip(cols, kr))] for kr in ks]
        requests.append({'names': [c[0] for c in cols], 'rows': rows, 'format': draw(st.sampled_from(['json', 'json', 'csv']))})
    return {'query': query, 'requests': requests, 'stmt': draw(st.sampled_from(['table', 'select']))}


def _encode(req) -> tuple:
    names = req['names']
    if req['format'] == 'json':
        return json.dumps([dict(zip(names, row)) for row in req['rows']]).encode(), 'application/json'
    text = ','.join(names) + '\n' + ''.join(','.join(str(v) for v in row) + '\n' for row in req['rows'])
    return text.encode(), 'text/csv'


def check_decoded(ctx, spec):
    qnames = [n for n, _ in spec['query']]
    qschema = make_schema(spec['query'])
    table = dsl.Table(qschema)
    statement = table if spec['stmt'] == 'table' else table.select(*(table[n] for n in qnames))
    reader = Reader({}, {})
    layouts = [tuple(r['names']) for r in spec['requests']]
    classes = ['decoded', f"decoded:requests={len(spec['requests'])}"]
    if len({k for _, k in spec['query']}) == 1:
        classes.append('decoded:uniform-types')
    if len(set(layouts)) > 1:
        classes.append('decoded:layouts-differ')
    if any(set(qnames) - set(names) for names in layouts):
        classes.append('decoded:some-incomplete')
    ctx.case(spec, nontrivial=len(set(layouts)) > 1, classes=classes)
    for idx, req in enumerate(spec['requests']):
        names = req['names']
        missing = [n for n in qnames if n not in names]
        tags = [req['format']] + (['later-request'] if idx else [])
        body, ctype = _encode(req)
        try:
            entry = layout.get_decoder(layout.Encoding(ctype)).loads(body)
        except Exception as exc:  # pylint: disable=broad-except
            ctx.fail_exc(spec, 'decode-raises', exc, tags)
            return
        try:
            got = [list(r) for r in reader(statement, entry).to_rows()]
        except forml.MissingError as exc:
            if not missing:
                ctx.fail_exc(spec, 'decoded-complete-refused', exc, tags)
                return
            continue
        except Exception as exc:  # pylint: disable=broad-except
            ctx.fail_exc(spec, 'decoded-refusal-type' if missing else 'decoded-read-raises', exc, tags)
            return
        if missing:
            ctx.fail(spec, 'decoded-refusal', 'missing-accepted', f'request {idx} {names} lacks {missing} but got {got!r:.300}', tags)
            return
        pos = {n: i for i, n in enumerate(names)}
        expected = [[row[pos[n]] for n in qnames] for row in req['rows']]
        if len(got) != len(expected) or any(len(g) != len(e) for g, e in zip(got, expected)):
            ctx.fail(spec, 'decoded-shape', 'differs', f'request {idx}: got {got!r:.300} expected {expected!r:.300}', tags)
            return
        for g, e in zip(got, expected):
            if not all(same(a, b) for a, b in zip(g, e)):
                ctx.fail(spec, 'decoded-cell', 'misrouted', f'request {idx} {names}: got {g!r} expected {e!r} (requests before: {layouts[:idx]})', tags)
                return


def campaigns(ctx):
    return [
        Campaign('entry', entry_spec(), check_entry, 2500, 20000),
        Campaign('matrix', matrix_spec(), check_matrix, 1200, 8000),
        Campaign('decoded', decoded_spec(), check_decoded, 600, 5000),
    ]


LEVEL_TEXT = (
    'Generated-input search with an independent oracle: thousands of (query schema, entry arrangement, rows) cases per run '
    'are pushed through a concrete Reader.__call__ / RowDriver / TableDriver for both tabular implementations and compared '
    'with a reference routing-and-cast computed from the spec; all arrangements of up to 3 (thorough 4) fields with up to 2 '
    'extras or one missing column are enumerated; Dense/Frame views and selections are compared with plain list indexing. '
    'Exhaustive only inside the enumerated small scope, sampled evidence elsewhere.'
)
LEVEL_NOTE = (
    'Trusted: reference cast/routing in vf/checks/c15.py, Hypothesis. Column identity is judged by position with '
    'column-distinct values (a tabular payload has no names); duplicate-name entry schemas cannot be constructed and are not '
    'judged; only unambiguous casts are generated.'
)
TECHNIQUE = 'property-based testing (Hypothesis) vs reference model; exhaustive enumeration of small arrangements; differential Dense vs Frame'

# coverage-guided (atheris) pass of the thorough tier: (campaign, libFuzzer runs, instrumented module prefixes)
FUZZ = [('entry', 30000, ['forml.io._input', 'forml.io.layout'])]
