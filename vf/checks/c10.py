"""C10 - ordinal windows deliver each record as the delivery semantic promises.

All campaigns run against ``vf.dslx.exec10``: one private in-memory SQLite database with one table
``ord_<kind>(id, ts, val)`` per ordinal kind behind a harness ``io.Feed`` with the SQLAlchemy reader.

* ``windows``   - ``project.Source.query(select id, ts [where val >= w], labels=val?, ordinal=ts, once=<spelling>)`` ->
                  for every window of an increasing bound sequence: ``Feed.load(extract, lower, upper)`` -> the returned
                  source operator's apply / train / label actors executed directly -> delivered rows.
* ``noordinal`` - the same path for a source *without* ordinal: any given bound must be refused (``UnexpectedError``).
* ``runner``    - ``runtime.Runner.train/apply(lower, upper)`` (dask runner, synchronous scheduler, compiled flow) over a
                  stub instance whose project is (source, recording pass-through pipeline) and whose registry tag is a
                  real ``asset.Tag`` carrying the ordinal of the last training: the rows that reach the pipeline.
* ``enumerate_extra`` - every kind x semantic x subset of four domain bounds (open ends included) over a fixed table with
                  duplicates on every bound, and every kind x every accepted spelling of the semantic.

Oracle, computed from the JSON spec only: a window ``(l, u)`` under *exactly* holds ``l <= ts < u``, under *atmost*
``l < ts <= u``, under *atleast* ``l <= ts <= u`` (the documented inclusion rules), a missing bound leaves the side open,
a given bound - also ``0`` / ``0.0`` / ``''`` - is never missing, comparison is the one of the ordinal column's kind
after casting the bound (``'10'`` for an integer column is the number 10). On top of the per-window row sets the tiling
statement of the property is judged on the *observed* deliveries: exactly => every record of ``[first, last)`` once,
atmost => never twice, atleast => every record of ``[first, last]`` at least once, records outside no delivery, and a
record delivered a number of times other than once strictly inside the covered range sits on a bound.
"""
import datetime
import os

import forml
from forml import project
from forml.io import dsl
from forml.provider.feed.reader import alchemy

from vf.core import caches
from vf.core.hyp import Campaign, st
from vf.dslx import exec10
from vf.sym import hygiene

ID = 'C10'
LEVEL = 'exploration'
RULE = (
    'Hypothesis-generated cases: ordinal kind in {integer, float, date, timestamp, string} x delivery semantic given in '
    'any accepted spelling (default, exactly/atmost/atleast and their aliases in random case, enum members) x a '
    'non-decreasing sequence of 0-4 bounds over a small per-kind domain (bounds equal to data values, between, outside; '
    'falsy bounds 0 / 0.0 / empty string; given natively or as strings / other natives to be cast) with optional open '
    'first and last windows x 0-8 random rows with duplicates drawn from the same domain x optional label column and '
    "pre-existing where clause; executed through Source.query -> Feed.load -> the source operator's apply/train/label "
    'actors over SQLite. Further: sources without ordinal given bounds; Runner.train/apply launches (dask synchronous) '
    'over a stub instance with a real registry tag carrying the last training ordinal. Plus an enumeration of all '
    'kind x semantic x bound subsets of four domain values and all spellings. Non-trivial: at least two windows sharing a '
    'bound that carries data (windows), a given bound (noordinal), a launch where the tag ordinal or a given lower bound '
    'cuts rows (runner). Distinct = distinct spec digest.'
)
ASSUMPTIONS = [
    'ordering of a kind = python ordering of its native values (string = code point order, as SQLite BINARY collation)',
    'integer bounds are given as int or decimal string, float bounds as float / integral int / decimal string, string '
    'bounds as str or int (cast to its decimal text), date bounds as datetime.date or ISO string, timestamp bounds as '
    'datetime.datetime or ISO string with T or space separator; no float bound for an integer column (truncation)',
    'spellings of the semantic beyond the three documented ones are those the Once enum accepts (aliases, any case)',
    'Runner path: stub instance (project descriptor + real asset.Tag), stateless recording pipeline, dask runner with the '
    'synchronous scheduler; a missing lower bound of train defaults to the ordinal of the last training when there is one',
    'rows are compared as multisets (no ordering is requested)',
]
FLOORS = {
    'windows': 0.5,
    'sem:exactly': 0.12,
    'sem:atmost': 0.12,
    'sem:atleast': 0.12,
    'kind:integer': 0.08,
    'kind:float': 0.08,
    'kind:date': 0.08,
    'kind:timestamp': 0.08,
    'kind:string': 0.08,
    'bound:falsy': 0.05,
    'bound:cast-form': 0.15,
    'shared-bound-with-data': 0.15,
    'runner': 0.05,
    'noordinal': 0.03,
}
SHARDS_THOROUGH = 16

DOMAIN = {
    'integer': [-1, 0, 1, 2, 3, 9, 10, 11],
    'float': [-0.5, 0.0, 0.5, 1.0, 1.5, 2.0, 9.5, 10.0],
    'string': ['', '1', '10', '2', '9', 'a', 'b'],
    'date': ['2019-12-31', '2020-01-01', '2020-01-02', '2020-01-10', '2020-02-01'],
    'timestamp': [
        '2020-01-01T00:00:00',
        '2020-01-01T09:30:00',
        '2020-01-01T10:00:00',
        '2020-01-02T00:00:00',
        '2020-01-02T10:00:00',
        '2020-01-10T00:00:00',
    ],
}
SPELLINGS = {
    'exactly': ['exactly', 'exact', 'exactlyonce', 'exactly-once'],
    'atmost': ['atmost', 'most', 'at-most', 'atmostonce', 'at-most-once'],
    'atleast': ['atleast', 'least', 'at-least', 'atleastonce', 'at-least-once'],
}
FALSY = {'integer': 0, 'float': 0.0, 'string': ''}


# ---- plain data <-> arguments ---------------------------------------------------------------------------------------------
def semantic_of(once) -> str:
    """Reference reading of a spelling: default exactly; ``enum:NAME``; otherwise the alias tables, case-insensitive."""
    if once is None:
        return 'exactly'
    if once.startswith('enum:'):
        return once[5:].lower()
    low = once.lower()
    for sem, names in SPELLINGS.items():
        if low in names:
            return sem
    raise ValueError(once)


def once_arg(once):
    if once is not None and once.startswith('enum:'):
        return project.Source.Extract.Ordinal.Once[once[5:]]
    return once


def forms_of(kind: str, value) -> list:
    """Forms a bound of the kind may be handed over in (first = native)."""
    if kind == 'integer':
        return ['native', 'str']
    if kind == 'float':
        return ['native', 'str'] + (['int'] if float(value).is_integer() else [])
    if kind == 'string':
        return ['native'] + (['int'] if value.isdigit() and str(int(value)) == value else [])
    if kind == 'date':
        return ['native', 'str']
    return ['native', 'str', 'str-space'] + (['date'] if value.endswith('T00:00:00') else [])


def bound_arg(kind: str, value, form: str):
    """The python object given to forml for the plain bound in the given form."""
    if value is None:
        return None
    if form == 'native':
        return exec10.native(kind, value)
    if form == 'str':
        return value if kind in ('date', 'timestamp') else repr(value) if kind == 'float' else str(value)
    if form == 'int':
        return int(value)
    if form == 'str-space':
        return value.replace('T', ' ')
    if form == 'date':
        return datetime.date.fromisoformat(value[:10])
    raise ValueError(form)


def in_window(kind: str, sem: str, ts, lower, upper) -> bool:
    """Documented inclusion rules on native values of the kind."""
    value = exec10.native(kind, ts)
    if lower is not None:
        low = exec10.native(kind, lower)
        if not (value > low if sem == 'atmost' else value >= low):
            return False
    if upper is not None:
        high = exec10.native(kind, upper)
        if not (value < high if sem == 'exactly' else value <= high):
            return False
    return True


def base_rows(spec) -> list:
    """Rows of the statement without any window: ``[id, ts, val]`` honouring the statement's own where clause."""
    return [r for r in spec['rows'] if spec.get('where_val') is None or r[2] >= spec['where_val']]


def windows_of(spec) -> list:
    """``[(lower, lower form, upper, upper form)]`` in launch order."""
    bounds, forms = spec['bounds'], spec['forms']
    out = []
    if spec['open_first'] and bounds:
        out.append((None, 'native', bounds[0], forms[0]))
    for i in range(len(bounds) - 1):
        out.append((bounds[i], forms[i], bounds[i + 1], forms[i + 1]))
    if spec['open_last'] and bounds:
        out.append((bounds[-1], forms[-1], None, 'native'))
    if not bounds:
        out.append((None, 'native', None, 'native'))
    return out


# ---- database --------------------------------------------------------------------------------------------------------------
_DB = {}


def database() -> exec10.Database:
    pid = os.getpid()
    if pid not in _DB:
        _DB.clear()
        _DB[pid] = exec10.Database()
    return _DB[pid]


def _clear_caches():
    caches.clear(dsl.Source, dsl.Source.Schema, alchemy.Reader)  # wherever forml memoises: not named one by one


def _ids(rows) -> list:
    return sorted(r[0] for r in rows)


# ---- generators ------------------------------------------------------------------------------------------------------------
def _casing(text: str, mask: int) -> str:
    return ''.join(c.upper() if (mask >> (i % 8)) & 1 else c for i, c in enumerate(text))


@st.composite
def once_spec(draw):
    how = draw(st.sampled_from(['default', 'doc', 'doc', 'alias', 'alias', 'enum']))
    sem = draw(st.sampled_from(['exactly', 'atmost', 'atleast']))
    if how == 'default':
        return None
    if how == 'doc':
        return sem
    if how == 'enum':
        return 'enum:' + sem.upper()
    return _casing(draw(st.sampled_from(SPELLINGS[sem])), draw(st.sampled_from([0, 0, 0xFF, 0x01, 0x55])))


@st.composite
def rows_spec(draw, kind, max_rows=8):
    n = draw(st.integers(0, max_rows))
    dom = DOMAIN[kind]
    hot = draw(st.sampled_from(dom))  # duplicates gather here
    rows = []
    for i in range(n):
        ts = hot if draw(st.integers(0, 3)) == 0 else draw(st.sampled_from(dom))
        rows.append([i + 1, ts, draw(st.integers(0, 3))])
    return rows


@st.composite
def bound_spec(draw, kind, value):
    forms = forms_of(kind, value)
    return forms[0] if draw(st.integers(0, 9)) < 5 else draw(st.sampled_from(forms))


@st.composite
def windows_spec(draw):
    kind = draw(st.sampled_from(exec10.KINDS))
    dom = DOMAIN[kind]
    rows = draw(rows_spec(kind))
    n = draw(st.sampled_from([0, 1, 1, 2, 2, 2, 3, 3, 4]))
    if kind in FALSY and n and draw(st.integers(0, 3)) == 0:
        picks = [dom.index(FALSY[kind])] + [draw(st.integers(0, len(dom) - 1)) for _ in range(n - 1)]
    else:
        picks = [draw(st.integers(0, len(dom) - 1)) for _ in range(n)]
    if draw(st.integers(0, 5)) > 0:
        picks = sorted(set(picks))  # strictly increasing mostly
    else:
        picks = sorted(picks)  # sometimes a repeated bound: an empty or single-point window
    bounds = [dom[i] for i in picks]
    forms = [draw(bound_spec(kind, b)) for b in bounds]
    open_first = draw(st.booleans())
    open_last = draw(st.booleans())
    if len(bounds) == 1 and not (open_first or open_last):
        open_last = True
    return {
        'kind': kind,
        'once': draw(once_spec()),
        'labels': draw(st.booleans()),
        'where_val': draw(st.sampled_from([None, None, None, 1, 2])),
        'rows': rows,
        'bounds': bounds,
        'forms': forms,
        'open_first': open_first,
        'open_last': open_last,
        # which feed serves the windows: the bare SQLAlchemy reader, or forml's stock alchemy feed with its result cache
        'stock': draw(st.integers(0, 2)) == 0,
    }


@st.composite
def noordinal_spec(draw):
    kind = draw(st.sampled_from(exec10.KINDS))
    dom = DOMAIN[kind]
    pool = [None] * 4 + dom + ([FALSY[kind]] * 5 if kind in FALSY else [])
    lower = draw(st.sampled_from(pool))
    upper = draw(st.sampled_from(pool))
    return {
        'kind': kind,
        'rows': draw(rows_spec(kind, 4)),
        'lower': lower,
        'upper': upper,
        'lform': 'native' if lower is None else draw(bound_spec(kind, lower)),
        'uform': 'native' if upper is None else draw(bound_spec(kind, upper)),
        'labels': draw(st.booleans()),
    }


@st.composite
def runner_spec(draw):
    kind = draw(st.sampled_from(exec10.KINDS))
    dom = DOMAIN[kind]
    falsy = [FALSY[kind]] * 2 if kind in FALSY else []
    lower = draw(st.sampled_from([None] * 4 + dom + falsy))
    upper = draw(st.sampled_from([None, None] + dom))
    if lower is not None and upper is not None and exec10.native(kind, lower) > exec10.native(kind, upper):
        lower, upper = upper, lower
    return {
        'kind': kind,
        'once': draw(once_spec()),
        'rows': draw(rows_spec(kind, 6)),
        'mode': draw(st.sampled_from(['train', 'train', 'apply'])),
        'last': draw(st.sampled_from([None] + dom + falsy)),
        'lower': lower,
        'upper': upper,
        'lform': 'native' if lower is None else draw(bound_spec(kind, lower)),
        'uform': 'native' if upper is None else draw(bound_spec(kind, upper)),
    }


# ---- campaign: windows -----------------------------------------------------------------------------------------------------
def _bound_classes(kind, rows, bounds, forms) -> list:
    classes = []
    data = {r[1] for r in rows}
    natives = sorted(exec10.native(kind, v) for v in data)
    for b, f in zip(bounds, forms):
        if kind in FALSY and b == FALSY[kind] and type(b) is type(FALSY[kind]) and f in ('native', 'int'):
            classes.append('bound:falsy')
        if f != 'native':
            classes.append('bound:cast-form')
        if b in data:
            classes.append('bound:equals-data')
        elif natives and (exec10.native(kind, b) < natives[0] or exec10.native(kind, b) > natives[-1]):
            classes.append('bound:outside-data')
        elif natives:
            classes.append('bound:between-data')
    return sorted(set(classes))


def check_windows(ctx, spec):
    kind, rows = spec['kind'], spec['rows']
    sem = semantic_of(spec['once'])
    wins = windows_of(spec)
    base = base_rows(spec)
    shared = [
        b
        for i, b in enumerate(spec['bounds'])
        if any(r[1] == b for r in base) and (i > 0 or spec['open_first']) and (i < len(spec['bounds']) - 1 or spec['open_last'])
    ]
    classes = ['windows', f'kind:{kind}', f'sem:{sem}', f'nwin:{min(len(wins), 4)}'] + _bound_classes(kind, rows, spec['bounds'], spec['forms'])
    once = spec['once']
    classes.append('once:default' if once is None else 'once:enum' if once.startswith('enum:') else 'once:doc' if once == sem else 'once:alias')
    if once is not None and once != once.lower():
        classes.append('once:mixed-case')
    if spec['open_first']:
        classes.append('open-first')
    if spec['open_last']:
        classes.append('open-last')
    if spec['labels']:
        classes.append('labels')
    if spec.get('stock'):
        classes.append('feed:stock-alchemy')
    if spec.get('where_val') is not None:
        classes.append('where')
    if shared:
        classes.append('shared-bound-with-data')
    if len({r[1] for r in base}) < len(base):
        classes.append('duplicate-ordinals')
    ctx.case(spec, nontrivial=len(wins) >= 2 and bool(shared), classes=classes)

    tags = [sem]
    _clear_caches()
    db = database()
    db.load(kind, rows)
    feed = db.feed
    if spec.get('stock'):
        exec10.StockFeed.fresh_results(os.path.join(ctx.scratch, f'c10-results-{os.getpid()}'))
        feed = db.stock
    try:
        source = exec10.source(kind, once=once_arg(once), labels=spec['labels'], where_val=spec.get('where_val'))
    except Exception as exc:  # pylint: disable=broad-except
        ctx.fail_exc(spec, 'source-raises', exc, tags)
        return
    got_sem = repr(source.extract.ordinal.once)
    if got_sem != sem:
        ctx.fail(spec, 'spelling', 'wrong-semantic', f'once={once!r} read as {got_sem}, expected {sem}', [])
        return
    vals = {r[0]: r[2] for r in rows}
    counts = {'apply': {r[0]: 0 for r in base}, 'train': {r[0]: 0 for r in base}}
    window_failed = False
    for lower, lform, upper, uform in wins:
        expected = _ids([r for r in base if in_window(kind, sem, r[1], lower, upper)])
        largs = bound_arg(kind, lower, lform)
        uargs = bound_arg(kind, upper, uform)
        cast = any(b is not None and f != 'native' for f, b in ((lform, lower), (uform, upper)))
        wtags = tags + (['cast-form'] if cast else [])  # the path and the exact form are in the detail, not in the key
        try:
            got = exec10.run_drivers(feed, source.extract, largs, uargs, kind)
        except Exception as exc:  # pylint: disable=broad-except
            ctx.fail_exc(spec, 'window-raises', exc, wtags)
            return
        for path in ('apply', 'train'):
            ids = _ids(got[path])
            for i in ids:
                if i in counts[path]:
                    counts[path][i] += 1
            tsmap = {r[0]: r[1] for r in rows}
            if ids != expected or any(tsmap.get(r[0]) != r[1] for r in got[path]):
                window_failed = True
                missing = sorted(set(expected) - set(ids))
                extra = sorted(i for i in ids if i not in expected)
                on_bound = all(tsmap.get(i) in (lower, upper) for i in missing + extra)
                kind_ = 'bound-inclusion' if on_bound and (missing or extra) else 'rows-differ'
                ctx.fail(
                    spec,
                    'window',
                    kind_,
                    f'{path}: {kind} ordinal, once={once!r} ({sem}), window lower={largs!r} upper={uargs!r} over rows {base}: '
                    f'expected ids {expected}, delivered {got[path]}',
                    wtags,
                )
        if spec['labels']:
            labels = got['labels']
            if labels is None or len(labels) != len(got['train']) or any(vals.get(r[0]) != lab for r, lab in zip(got['train'], labels)):
                ctx.fail(spec, 'labels', 'misaligned', f'train rows {got["train"]} labels {labels} (val by id: {vals})', tags)
        elif got['labels'] is not None:
            ctx.fail(spec, 'labels', 'unexpected', f'labels {got["labels"]} for a source without labels', tags)
    if window_failed:
        return
    # ---- tiling statement on the observed deliveries ---------------------------------------------------------------------
    first, last = wins[0][0], wins[-1][2]
    bset = set(spec['bounds'])
    for path in ('apply', 'train'):
        for rid, ts, _ in base:
            n = counts[path][rid]
            value = exec10.native(kind, ts)
            below = first is not None and value < exec10.native(kind, first)
            above = last is not None and value > exec10.native(kind, last)
            at_first = first is not None and ts == first
            at_last = last is not None and ts == last
            problem = None
            if below or above:
                if n:
                    problem = 'outside-delivered'
            elif sem == 'exactly' and not at_last and n != 1:
                problem = 'exactly-not-once'
            elif sem == 'atmost' and n > 1:
                problem = 'atmost-twice'
            elif sem == 'atleast' and n < 1:
                problem = 'atleast-dropped'
            elif n != 1 and ts not in bset and not at_first and not at_last:
                problem = 'off-bound-miscount'
            if problem:
                ctx.fail(spec, 'tiling', problem, f'{path}: record id={rid} ts={ts!r} delivered {n}x over windows {wins} ({sem})', tags)
                return


# ---- campaign: no ordinal --------------------------------------------------------------------------------------------------
def check_noordinal(ctx, spec):
    kind = spec['kind']
    lower, upper = spec['lower'], spec['upper']
    given = lower is not None or upper is not None
    largs, uargs = bound_arg(kind, lower, spec['lform']), bound_arg(kind, upper, spec['uform'])
    falsy = given and not largs and not uargs  # every given bound is falsy (python truth value of what is handed over)
    classes = ['noordinal', f'kind:{kind}', 'noordinal:given' if given else 'noordinal:none']
    if falsy:
        classes += ['noordinal:falsy-only', 'bound:falsy']
    ctx.case(spec, nontrivial=given, classes=classes)
    _clear_caches()
    db = database()
    db.load(kind, spec['rows'])
    source = exec10.source(kind, ordinal=False, labels=spec['labels'])
    tags = ['falsy-bound'] if falsy else []
    try:
        got = exec10.run_drivers(db.feed, source.extract, largs, uargs, kind)
    except forml.UnexpectedError as exc:
        if not given:
            ctx.fail_exc(spec, 'no-ordinal', exc, ['no-bounds'])
        return
    except Exception as exc:  # pylint: disable=broad-except
        ctx.fail_exc(spec, 'no-ordinal-raises', exc, tags)
        return
    if given:
        ctx.fail(spec, 'no-ordinal', 'not-refused', f'source without ordinal, lower={largs!r} upper={uargs!r}: delivered {got["apply"]} instead of UnexpectedError', tags)
        return
    for path in ('apply', 'train'):
        if _ids(got[path]) != _ids(spec['rows']):
            ctx.fail(spec, 'no-ordinal', 'rows-differ', f'{path}: expected all of {spec["rows"]}, delivered {got[path]}', [path])


# ---- campaign: runner ------------------------------------------------------------------------------------------------------
_DASK = []


def _runner_type():
    if not _DASK:
        from forml.provider.runner import dask  # pylint: disable=import-outside-toplevel

        _DASK.append(dask.Runner)
    return _DASK[0]


def check_runner(ctx, spec):
    kind, rows, mode = spec['kind'], spec['rows'], spec['mode']
    sem = semantic_of(spec['once'])
    lower, upper, last = spec['lower'], spec['upper'], spec['last']
    eff_lower = lower if lower is not None or mode != 'train' else last
    expected = _ids([r for r in rows if in_window(kind, sem, r[1], eff_lower, upper)])
    largs, uargs = bound_arg(kind, lower, spec['lform']), bound_arg(kind, upper, spec['uform'])
    falsy_lower = lower is not None and not largs
    classes = ['runner', f'runner:{mode}', f'kind:{kind}', f'sem:{sem}']
    if falsy_lower:
        classes += ['runner:falsy-lower', 'bound:falsy']
    if spec['lform'] != 'native' or spec['uform'] != 'native':
        classes.append('bound:cast-form')
    if mode == 'train' and lower is None and last is not None:
        classes.append('runner:default-from-tag')
    if mode == 'train' and lower is not None and last is not None:
        classes.append('runner:given-overrides-tag')
    ctx.case(spec, nontrivial=len(expected) < len(rows), classes=classes)
    _clear_caches()
    db = database()
    db.load(kind, rows)
    source = exec10.source(kind, once=once_arg(spec['once']))
    tags = [mode] + (['falsy-bound'] if falsy_lower and mode == 'train' else [])
    try:
        got = exec10.run_runner(
            _runner_type(), db.feed, source, None if last is None else exec10.native(kind, last), mode, largs, uargs, kind, scheduler='synchronous'
        )
    except Exception as exc:  # pylint: disable=broad-except
        ctx.fail_exc(spec, 'runner-raises', exc, tags)
        return
    finally:
        hygiene.release_graph()
    if _ids(got) != expected:
        ctx.fail(
            spec,
            'runner',
            'rows-differ',
            f'Runner.{mode}(lower={largs!r}, upper={uargs!r}), last training ordinal {last!r}, once={spec["once"]!r} ({sem}) over {rows}: '
            f'expected ids {expected}, pipeline received {got}',
            tags,
        )


def campaigns(ctx):
    return [
        Campaign('windows', windows_spec(), check_windows, 1300, 6000),
        Campaign('noordinal', noordinal_spec(), check_noordinal, 200, 1000),
        Campaign('runner', runner_spec(), check_runner, 400, 1500),
    ]


# ---- enumeration -----------------------------------------------------------------------------------------------------------
def _enum_domain(kind):
    dom = DOMAIN[kind]
    if kind in FALSY:
        i = dom.index(FALSY[kind])
        return dom[i : i + 4]
    return dom[:4]


def enumerate_extra(ctx, shard, nshards):
    """kind x semantic x every subset of four domain bounds (both ends open) over a table holding every domain value
    twice plus one value below/above; kind x every spelling over one bound set."""
    if shard != 0:
        return
    ctx.campaign = 'windows'
    for kind in exec10.KINDS:
        four = _enum_domain(kind)
        dom = DOMAIN[kind]
        values = [v for v in dom for _ in (0, 1)]
        rows = [[i + 1, v, i % 4] for i, v in enumerate(values)]
        for sem in ('exactly', 'atmost', 'atleast'):
            for mask in range(16):
                bounds = [b for j, b in enumerate(four) if (mask >> j) & 1]
                for opens in ((True, True), (False, False)):
                    if len(bounds) < 2 and not opens[0]:
                        continue
                    spec = {
                        'kind': kind,
                        'once': sem,
                        'labels': False,
                        'where_val': None,
                        'rows': rows,
                        'bounds': bounds,
                        'forms': ['native'] * len(bounds),
                        'open_first': opens[0],
                        'open_last': opens[1],
                    }
                    check_windows(ctx, spec)
        spellings = [None] + [f'enum:{s.upper()}' for s in SPELLINGS]
        for names in SPELLINGS.values():
            for name in names:
                spellings += [name, name.upper(), name.title()]
        for once in spellings:
            spec = {
                'kind': kind,
                'once': once,
                'labels': True,
                'where_val': None,
                'rows': rows,
                'bounds': four[:3],
                'forms': [forms_of(kind, b)[-1] for b in four[:3]],
                'open_first': True,
                'open_last': True,
            }
            check_windows(ctx, spec)


LEVEL_TEXT = (
    'Generated-input search plus a small-scope enumeration: bound sequences, spellings, bound forms and random tables are '
    'pushed through Source.query -> Feed.load -> extract drivers -> SQLAlchemy parser -> SQLite (and through '
    'Runner.train/apply with a compiled flow), and both the per-window row sets and the tiling counts over consecutive '
    'windows are compared with the documented inclusion rules evaluated on the plain spec. Evidence over the sampled '
    'domain, not a proof.'
)
LEVEL_NOTE = (
    'Trusted: reference window predicate in vf/checks/c10.py, vf/dslx/exec10.py harness (SQLite in memory, stub instance '
    'with a real asset.Tag), Hypothesis. One storage engine (SQLite); small per-kind value domains; Runner path uses the '
    'dask runner synchronously with a stateless recording pipeline. Known findings: falsy bounds are lost by Runner.train '
    'and not refused for sources without ordinal.'
)
TECHNIQUE = 'property-based testing (Hypothesis) + small-scope enumeration vs reference window model, end to end over SQLite'
