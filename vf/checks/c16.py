"""C16 - concurrent serving never crosses, loses or duplicates responses.

A case is a **batch**: 1-64 requests fired concurrently (``asyncio.gather``-style, one loop) at one real
``runtime._service.Engine`` (spawned model pools and all) over a scratch posix registry whose four model generations
learned four distinct constants, served through seven ``application.Generic`` descriptors (Explicit / Latest / ABTest).
Each request carries its own row tokens, a processing delay slept by a pipeline actor, a pre-send stagger and possibly
an injected platform fault. The oracle is computed from the JSON spec and the constants of the fixed plan
(``vf/proj/serving.py``) - never from the engine.

Campaigns:
* small / mid / big - batches of 1-7 / 8-31 / 32-64 requests on the long-lived, warmed engine of this process.
* cold - every batch (1-16 requests) gets a fresh engine and is fired at the cold descriptor cache with a slow inventory:
         the in-memory one of the harness or forml's own posix inventory (descriptor *modules* loaded on first use; those
         batches address one application each, see batch_spec).
"""
import atexit
import os
import sys
import time


def _quiet_forml_logging() -> None:
    """forml logs INFO/WARNING of every (spawned) worker to stderr; raise the console threshold through the user
    config dir, which ./check points to a scratch directory (also picked up by the spawned pools)."""
    home = os.environ.get('FORML_HOME')
    scratch = os.environ.get('VERIF_SCRATCH')
    if home and scratch and os.path.abspath(home).startswith(os.path.abspath(scratch)):
        path = os.path.join(home, 'logging.ini')
        if not os.path.exists(path):
            os.makedirs(home, exist_ok=True)
            with open(path, 'w') as fh:
                fh.write('[handler_console]\nlevel=ERROR\n')
    if 'forml' in sys.modules:
        import logging

        for name in list(logging.root.manager.loggerDict) + ['']:
            for handler in logging.getLogger(name).handlers:
                if isinstance(handler, logging.StreamHandler) and not isinstance(handler, logging.FileHandler):
                    handler.setLevel(logging.ERROR)


_quiet_forml_logging()

if os.environ.get('VERIF_C16_DEBUG'):  # dev aid: kill -USR1 <pid> dumps all thread stacks to stderr
    import faulthandler
    import signal

    faulthandler.register(signal.SIGUSR1, all_threads=True)

# pylint: disable=wrong-import-position
from hypothesis import strategies as st

import forml
from forml.io import layout

from vf.core.hyp import Campaign
from vf.proj import serving as sv

ID = 'C16'
LEVEL = 'fault_enumeration'
RULE = (
    'Hypothesis-generated request batches fired concurrently on one loop at a real serving Engine (pool size 2 in the '
    'quick tier, 1-4 across the 8 thorough shards) over 4 trained model generations with distinct constants and 7 applications '
    '(Explicit/Latest/ABTest selectors, two pairs sharing an instance). A batch = 1-64 requests over 1-3 applications, '
    'each with 1-4 payload rows carrying unique tokens, a payload-carried processing delay (0-80 ms), a pre-send stagger, '
    'request/accept encodings, and a fault in {none, unsupported content type, unsupported accept, unknown application, '
    'missing feature column} at arbitrary positions; warm batches run on the long-lived engine, cold batches on a fresh '
    'engine with a slow inventory (in-memory, or forml\'s posix inventory with one application per batch). After every batch a probe batch (one healthy request per application) is judged too. '
    'Non-trivial: >=8 requests over >=2 applications with >=1 fault and non-monotone delays. Distinct = spec digest.'
)
ASSUMPTIONS = [
    'schedules are sampled through payload delays, staggers and inventory pauses - not enumerated; the OS scheduler is '
    'not controlled, so races with sub-millisecond windows can be missed',
    'registry content and application set are one fixed plan per run (2 projects, 3 releases, 4 generations, 7 apps); '
    'no generation is added while serving, so Latest has one right answer',
    'ABTest selection is stateful and order dependent across concurrent requests: asserted only that the instance is one '
    'of the variants and that the response values are those of the reported instance',
    'payload columns are sent in query order with integer values (column permutation/casting belongs to C15); response '
    'bodies are decoded by the harness with json/csv, request bodies use the plain application/json (row dicts, TF '
    'instances) and text/csv decoders because pandas.read_json is unusable under pandas 3 here',
    'a batch that does not complete within its deadline is inconclusive unless it times out again on two fresh engines',
    'most batches run behind a warm-up (one sequential request, then one per application); cold batches (fresh engine, '
    'no warm-up, slow inventory) are counted separately',
]
FLOORS = {'size:8+': 0.4, 'size:32-64': 0.15, 'fault:any': 0.4, 'apps:2+': 0.25, 'selector:abtest': 0.06, 'cold': 0.02, 'nonmonotone': 0.4}
SHARDS_THOROUGH = 8  # two shards per pool size 1-4; every shard runs its own engine with ~20 processes
LEVEL_TEXT = (
    'Fault enumeration over sampled schedules: generated batches of concurrent requests with injected platform faults '
    '(each fault kind at arbitrary batch positions) are fired at a real engine with spawned model pools and every '
    'response/exception is compared with a per-request reference computed from the spec; a probe batch after each batch '
    'checks that faults left nothing behind. This is the weakest claim of the set: interleavings are only sampled via '
    'payload delays, staggers and inventory pauses, not enumerated, and the OS scheduler is not owned.'
)
LEVEL_NOTE = (
    'Trusted: harness actors/feed/inventory (vf/proj), own json/csv response decoder, Hypothesis. Sampled schedules '
    'only; races with sub-millisecond windows can be missed. Batch timeouts are inconclusive unless reproduced twice on '
    'fresh engines. ABTest applications are judged for self-consistency only. The first-request race of the descriptor '
    'cache (cold batches) was repaired by 8141b26; its signature is still recognised and would be reported.'
)
TECHNIQUE = 'property-based testing (Hypothesis) of concurrent request batches with fault injection vs per-request reference model'

FAULTS = ['ctype', 'accept', 'app', 'column']
QUICK_PROCS = 2

# ---- generators ------------------------------------------------------------------------------------------------------
_DELAYS = [0, 0, 0, 1, 2, 5, 10, 20, 40, 80]
_STAGGERS = [0, 0, 0, 0, 1, 3, 10, 25, 50]


@st.composite
def request_spec(draw, apps):
    fault = draw(st.sampled_from(['none'] * 5 + FAULTS))
    nrow = draw(st.sampled_from([1, 1, 1, 2, 3, 4]))
    req = {
        'app': draw(st.sampled_from(apps)),
        'rows': [draw(st.integers(0, sv.SCALE - 1)) for _ in range(nrow)],
        'delay': draw(st.sampled_from(_DELAYS)),
        'stagger': draw(st.sampled_from(_STAGGERS)),
        'fault': fault,
        'accept': draw(st.sampled_from(['values', 'values', 'records', 'split', 'csv'])),
        'ctype': draw(st.sampled_from(['json', 'json', 'instances', 'csv'])),
    }
    if fault == 'column':
        req['drop'] = draw(st.sampled_from(['x', 'rid', 'delay']))
    # clients list the features in their own order (JSON objects / CSV header): 0 = the query's order
    req['order'] = draw(st.sampled_from([0, 0, 0, 1, 2, 3, 4, 5]))
    return req


@st.composite
def batch_spec(draw, procs: int, cold: bool, lo: int, hi: int):
    napps = draw(st.sampled_from([2, 1, 3, 2, 3]))
    apps = draw(st.lists(st.sampled_from(sv.APP_NAMES), min_size=napps, max_size=napps, unique=True))
    if cold:
        size = draw(st.sampled_from([2, 3, 4, 1, 8, 16, 2]))
    else:
        size = draw(st.integers(lo, hi))
    reqs = [draw(request_spec(apps)) for _ in range(size)]
    spec = {'procs': procs, 'cold': cold, 'nonce': draw(st.integers(1, 10**6)), 'reqs': reqs}
    if cold:
        spec['list_ms'] = draw(st.sampled_from([30, 5, 100, 0]))
        spec['get_ms'] = draw(st.sampled_from([0, 0, 5, 30]))
        # half of the cold engines get forml's own file-system inventory: descriptors are modules loaded on first use.
        # Those batches address ONE application (by any number of concurrent first requests): loading a descriptor module
        # takes `forml` out of sys.modules for a moment (setup.load), and a model pool forked by another application's
        # request inside that window inherits the hole - a residual race we saw once in 28 runs after repair 3 of the
        # descriptor loading and cannot reproduce at will; it is described in DESIGN.md 7.3 and not claimed
        spec['inventory'] = draw(st.sampled_from(['posix', 'memory']))
        if spec['inventory'] == 'posix':
            for req in reqs:
                req['app'] = reqs[0]['app']
    else:
        spec['list_ms'] = draw(st.sampled_from([0, 0, 5, 30]))
        spec['get_ms'] = 0
    return spec


def _single(app: str, nonce: int) -> dict:
    req = {'app': app, 'rows': [7], 'delay': 0, 'stagger': 0, 'fault': 'none', 'accept': 'values', 'ctype': 'json'}
    return {'procs': 0, 'cold': False, 'nonce': nonce, 'reqs': [req], 'list_ms': 0, 'get_ms': 0}


def warmup_specs(procs: int) -> list:
    """First one sequential request (fills the descriptor cache), then one per application, then a few more to the
    ABTest applications so that every variant's executor is up."""
    first = dict(_single(sv.APP_NAMES[0], 1), procs=procs)
    second = {
        'procs': procs,
        'cold': False,
        'nonce': 2,
        'list_ms': 0,
        'get_ms': 0,
        'reqs': [_single(a, 0)['reqs'][0] for a in sv.APP_NAMES[1:]],
    }
    third = {
        'procs': procs,
        'cold': False,
        'nonce': 3,
        'list_ms': 0,
        'get_ms': 0,
        'reqs': [_single(a, 0)['reqs'][0] for a in sv.APP_NAMES if sv.APPS[a][0] == 'abtest' for _ in range(4)],
    }
    return [first, second, third]


def probe_spec(spec: dict) -> dict:
    return {
        'procs': spec['procs'],
        'cold': False,
        'nonce': int(spec['nonce']) + 2 * 10**6,
        'list_ms': 0,
        'get_ms': 0,
        'reqs': [
            # behind a cold posix-inventory batch the probes arrive one second apart (see batch_spec: descriptor modules of
            # different applications must not be loaded while another application's model pool is being forked)
            dict(_single(a, 0)['reqs'][0], stagger=1000 * i if spec.get('inventory') == 'posix' else 0)
            for i, a in enumerate(sv.APP_NAMES)
        ],
    }


# ---- oracle ----------------------------------------------------------------------------------------------------------
def deadline(spec: dict, first_use: bool) -> float:
    """Generous completion deadline (s) of a batch: never the thing that is measured."""
    procs = max(int(spec['procs']), 1)
    work = sum(r['delay'] for r in spec['reqs']) / 1000.0 / procs
    wait = max([r['stagger'] for r in spec['reqs']] + [0]) / 1000.0
    pauses = (spec.get('list_ms', 0) + spec.get('get_ms', 0)) / 1000.0 * len(spec['reqs'])
    return 15.0 + 3.0 * (work + wait + pauses) + 0.05 * len(spec['reqs']) + (30.0 if first_use else 0.0)


def judge(ctx, spec: dict, outcomes: list, tags: list) -> int:
    """Compare the outcome of every request of the batch with the reference; returns the number of timeouts."""
    cold = 'cold' in tags
    racy = cold and spec['procs'] >= 2 and len(spec['reqs']) >= 2
    owner = {}
    for i, req in enumerate(spec['reqs']):
        for j in range(len(req['rows'])):
            owner[sv.rid(spec, i, j)] = i
    timeouts = 0
    for i, (req, got) in enumerate(zip(spec['reqs'], outcomes)):
        fault = req['fault']
        kind, variants = sv.APPS[req['app']]
        if got[0] == 'timeout':
            timeouts += 1
            continue
        if got[0] == 'err':
            exc = got[1]
            if fault == 'none' or not _documented(fault, exc):
                clause = 'healthy-request-raises' if fault == 'none' else 'faulty-request-wrong-error'
                extra = []
                if (
                    racy
                    and fault != 'app'
                    and type(exc) is forml.MissingError  # pylint: disable=unidiomatic-typecheck
                    and f'Application {req["app"]} not found' in str(exc)
                ):
                    extra = ['first-request-race']
                ftag = [f'fault-{fault}'] if fault != 'none' and not extra else []
                key = ctx.fail_exc(spec, clause, exc, tags + extra + ftag)
                if extra:
                    ctx.mask(key)
            continue
        if got[0] == 'undecodable':
            if fault == 'none':
                ctx.fail(spec, 'response', 'undecodable', f'request {i}: {got[1]}', tags)
            else:
                ctx.fail(spec, 'faulty-request-answered', f'fault-{fault}', f'request {i}: {got[1]}', tags)
            continue
        _, rows, instance, header = got
        if fault != 'none':
            ctx.fail(
                spec, 'faulty-request-answered', f'fault-{fault}', f'request {i} ({req}) answered {rows} by {instance}', tags
            )
            continue
        want_header = sv.ACCEPT[req['accept']]
        if instance not in variants:
            ctx.fail(
                spec, 'response', 'wrong-instance', f'request {i} app={req["app"]}: instance {instance}, expected one of {variants}', tags
            )
            continue
        const = sv.CONSTANT[instance]
        expected = [[sv.rid(spec, i, j), const * sv.SCALE + int(x)] for j, x in enumerate(req['rows'])]
        if rows == expected:
            if header.replace(' ', '') != want_header.replace(' ', ''):
                ctx.fail(spec, 'response', 'wrong-encoding', f'request {i}: {header!r} instead of {want_header!r}', tags)
            continue
        tokens = [r[0] if r else None for r in rows]
        mine = [e[0] for e in expected]
        if tokens != mine:
            others = {owner.get(t) for t in tokens}
            if tokens and others <= set(range(len(spec['reqs']))) - {i} and None not in others:
                mismatch = 'crossed'  # the payload of another request of this batch
            elif set(tokens) == set(mine) and len(tokens) > len(mine):
                mismatch = 'duplicated-rows'
            elif set(tokens) < set(mine):
                mismatch = 'lost-rows'
            else:
                mismatch = 'foreign-payload'
        elif all(len(r) == 2 and r[1] % sv.SCALE == e[1] % sv.SCALE for r, e in zip(rows, expected)):
            mismatch = 'wrong-model'  # own payload, but the constant of a different instance than the reported one
        else:
            mismatch = 'wrong-value'
        ctx.fail(
            spec,
            'response',
            mismatch,
            f'request {i} app={req["app"]} instance={instance}: got {rows}, expected {expected}',
            tags,
        )
    return timeouts


def _documented(fault: str, exc: BaseException) -> bool:
    if fault in ('ctype', 'accept'):
        return isinstance(exc, layout.Encoding.Unsupported)
    # unknown application / missing feature column: MissingError proper (Unsupported is its subclass but says otherwise)
    return isinstance(exc, forml.MissingError) and not isinstance(exc, layout.Encoding.Unsupported)


# ---- sessions --------------------------------------------------------------------------------------------------------
_STATE = {'phase': 'pre', 'sessions': {}, 'registry': None, 'atexit': False, 'dead': {}, 'confirmed': 0, 'rechecks': 0, 't0': 0.0}
MAX_CONFIRMED_TIMEOUTS = 1  # per process: confirming costs two fresh engines and three deadlines
MAX_TIMEOUT_RECHECKS = 3  # per process: on an overloaded machine re-checking every slow batch only adds load
#: wall-clock budget (s) of the generated search of one process; batches drawn after it are skipped and reported as
#: inconclusive coverage (never as a violation). The quick tier is bounded by its case counts, this is a safety net.
BUDGET_S = {'quick': 400.0, 'thorough': 720.0}


def _registry(ctx) -> str:
    have = _STATE['registry']
    if have is None or have[0] != os.getpid():
        base = os.path.join(ctx.scratch, f'c16-{os.getpid()}')
        _STATE['registry'] = (os.getpid(), sv.build_registry(base))
    if not _STATE['atexit']:
        _STATE['atexit'] = True
        atexit.register(sv.close_all)
    return _STATE['registry'][1]


def _bump(ctx, name: str, by=1) -> None:
    ctx.extra[name] = ctx.extra.get(name, 0) + by


def _note(ctx, message: str) -> None:
    if len(ctx.inconclusive) < 20:
        ctx.inconclusive.append(message)


def _engine(ctx, procs: int, warm: bool, inventory: str = 'memory'):
    """A new engine, warmed if asked (the warm-up requests are judged like any other). A warm-up that does not complete
    is retried on two more fresh engines; three timeouts in a row are a violation and ``None`` is returned."""
    for attempt in (1, 2, 3):
        session = sv.Session(_registry(ctx), procs, inventory)
        _bump(ctx, 'engines_started')
        if not warm:
            return session
        stuck = None
        for spec in warmup_specs(procs):
            outcomes = session.fire(spec, deadline(spec, True))
            if judge(ctx, spec, outcomes, ['warmup']):
                stuck = spec
                break
        if stuck is None:
            return session
        session.broken = True
        session.close()
        if attempt < 3:
            _note(ctx, f'warm-up of an engine (procs={procs}) timed out (attempt {attempt}), retrying on a fresh engine')
    ctx.fail(stuck, 'completes-once', 'timeout', 'warm-up request(s) never completed on three fresh engines', ['warmup'])
    return None


def _session(ctx, procs: int):
    """The long-lived warm engine of this process for the pool size (explore/post phases)."""
    sessions = _STATE['sessions']
    session = sessions.get(procs)
    if session is not None and (session.broken or session.closed):
        session.close()
        session = None
        sessions.pop(procs, None)
    if session is None:
        if _STATE['dead'].get(procs):
            return None
        for other in list(sessions.values()):  # one long-lived engine at a time
            other.close()
        sessions.clear()
        session = _engine(ctx, procs, warm=True)
        if session is None:
            _STATE['dead'][procs] = True
            return None
        sessions[procs] = session
    return session


def _run(ctx, spec: dict, session, tags: list, first_use: bool) -> int:
    """Batch + probe on the session; returns the number of timed out requests."""
    outcomes = session.fire(spec, deadline(spec, first_use))
    timeouts = judge(ctx, spec, outcomes, tags)
    if timeouts:
        return timeouts
    probe = probe_spec(spec)
    outcomes = session.fire(probe, deadline(probe, first_use))
    before = len(ctx.failures)
    ptime = judge(ctx, probe, outcomes, tags + ['probe'])
    # a probe failure is reported with the batch that preceded it (that is what has to be replayed)
    for k in range(before, len(ctx.failures)):
        f = ctx.failures[k]
        ctx.failures[k] = f._replace(spec=spec, detail='probe batch after the batch: ' + f.detail)
    return ptime


def _confirm_timeout(ctx, spec: dict, tags: list) -> None:
    """A batch did not complete: try it on two fresh engines; a violation only if it times out on both."""
    if _STATE['phase'] == 'explore' and (
        _STATE['confirmed'] >= MAX_CONFIRMED_TIMEOUTS or _STATE['rechecks'] >= MAX_TIMEOUT_RECHECKS
    ):
        _bump(ctx, 'batch_timeouts_not_rechecked')
        _note(ctx, 'batch timeout not re-checked on fresh engines (re-check quota of this process used up)')
        return
    _STATE['rechecks'] += 1
    cold = bool(spec['cold'])
    for attempt in (1, 2):
        sub = type(ctx)(ctx.pid, ctx.tier, ctx.seed, ctx.level)
        session = _engine(ctx, spec['procs'], warm=not cold, inventory=spec.get('inventory', 'memory'))
        if session is None:
            return  # reported by _engine
        try:
            timeouts = _run(sub, spec, session, tags, True)
        finally:
            session.close()
        if not timeouts:
            _note(ctx, f'batch timeout not reproduced on fresh engine #{attempt} ({len(spec["reqs"])} requests)')
            return
    _STATE['confirmed'] += 1
    pending = 'request(s) never completed within the deadline on the first engine and on two fresh engines'
    ctx.fail(spec, 'completes-once', 'timeout', pending, tags)


def classes_of(spec: dict) -> tuple[list, bool]:
    reqs = spec['reqs']
    n = len(reqs)
    apps = sorted({r['app'] for r in reqs})
    faults = sorted({r['fault'] for r in reqs if r['fault'] != 'none'})
    delays = [r['delay'] for r in reqs]
    nonmono = delays != sorted(delays) and delays != sorted(delays, reverse=True)
    classes = ['cold' if spec['cold'] else 'warm', f'procs:{spec["procs"]}']
    if spec.get('inventory') == 'posix':
        classes.append('cold:posix-inventory')
    classes.append('size:1' if n == 1 else 'size:2-7' if n < 8 else 'size:8-31' if n < 32 else 'size:32-64')
    if n >= 8:
        classes.append('size:8+')
    classes.append(f'apps:{len(apps)}')
    if len(apps) >= 2:
        classes.append('apps:2+')
    classes += [f'fault:{f}' for f in faults]
    if faults:
        classes.append('fault:any')
    if len({r.get('order', 0) for r in reqs}) > 1:
        classes.append('orders:mixed')
    if reqs[0]['fault'] != 'none':
        classes.append('fault:first-position')
    if reqs[-1]['fault'] != 'none':
        classes.append('fault:last-position')
    classes += sorted({f'selector:{sv.APPS[a][0]}' for a in apps})
    instances = [set(sv.APPS[a][1]) for a in apps]
    if any(instances[i] & instances[j] for i in range(len(apps)) for j in range(i)):
        classes.append('shared-instance')
    if any(len(r['rows']) > 1 for r in reqs):
        classes.append('multi-row')
    if nonmono:
        classes.append('nonmonotone')
    if any(r['stagger'] for r in reqs):
        classes.append('staggered')
    classes += sorted({f'accept:{r["accept"]}' for r in reqs} | {f'ctype:{r["ctype"]}' for r in reqs})
    nontrivial = n >= 8 and len(apps) >= 2 and bool(faults) and nonmono
    return classes, nontrivial


def check_batch(ctx, spec: dict) -> None:
    if _STATE['phase'] == 'explore' and time.time() - _STATE['t0'] > _budget(ctx):
        if not ctx.extra.get('batches_skipped_budget'):
            _note(ctx, f'wall-clock budget of {_budget(ctx):.0f}s used up: remaining generated batches skipped')
        _bump(ctx, 'batches_skipped_budget')
        return
    classes, nontrivial = classes_of(spec)
    ctx.case(spec, nontrivial=nontrivial, classes=classes)
    _bump(ctx, 'requests_fired', len(spec['reqs']))
    cold = bool(spec['cold'])
    tags = ['cold' if cold else 'warm'] + (['posix-inventory'] if spec.get('inventory') == 'posix' else [])
    persistent = _STATE['phase'] != 'pre' and not cold
    if persistent:
        session = _session(ctx, spec['procs'])
        if session is None:  # the warm-up itself never completed and was reported
            _bump(ctx, 'batches_skipped_no_engine')
            return
        timeouts = _run(ctx, spec, session, tags, False)
    else:
        session = _engine(ctx, spec['procs'], warm=not cold, inventory=spec.get('inventory', 'memory'))
        if session is None:
            _bump(ctx, 'batches_skipped_no_engine')
            return
        try:
            timeouts = _run(ctx, spec, session, tags, True)
        finally:
            session.close(background=_STATE['phase'] == 'explore')
    if timeouts:
        _bump(ctx, 'batch_timeouts')
        _confirm_timeout(ctx, spec, tags)


def _budget(ctx) -> float:
    return float(os.environ.get('VERIF_C16_BUDGET_S') or BUDGET_S.get(ctx.tier, 400.0))


def _procs(ctx) -> int:
    if ctx.tier == 'thorough' and 'shard' in ctx.extra:
        return 1 + int(ctx.extra['shard']) % 4
    return QUICK_PROCS


def campaigns(ctx):
    procs = _procs(ctx)
    # the size classes are separate campaigns so that their shares do not depend on Hypothesis' sampling bias
    return [
        Campaign('small', batch_spec(procs, False, 1, 7), check_batch, 5, 40),
        Campaign('mid', batch_spec(procs, False, 8, 31), check_batch, 11, 90),
        Campaign('big', batch_spec(procs, False, 32, 64), check_batch, 6, 50),
        Campaign('cold', batch_spec(procs, True, 1, 16), check_batch, 6, 14),
    ]


def explore(ctx, shard: int, nshards: int) -> None:
    from vf.core import hyp  # pylint: disable=import-outside-toplevel

    _STATE['phase'] = 'explore'
    _STATE['t0'] = time.time()
    try:
        for i, camp in enumerate(campaigns(ctx)):
            n = camp.quick if ctx.tier == 'quick' else camp.thorough
            hyp.run_campaign(ctx, camp, n, ctx.seed * 1000 + shard * 17 + i)
    finally:
        _STATE['sessions'].clear()
        sv.close_all()
        _STATE['phase'] = 'post'
