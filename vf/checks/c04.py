"""C04 - persisted states are bound to the actors that produced them in every mode.

A generated pipeline is packaged as a real project, published to a scratch posix registry and driven through a
generated history of lifecycle steps (train, train again, apply latest/explicit generation, perftrack evaluation,
serving calls), each in a freshly forked process. Symbolic actors make every output a provenance term, which is compared
with a model keeping, per release and generation, the state of every stateful actor occurrence.
"""
import gc
import os
import shutil
import uuid

from hypothesis import strategies as st

from vf.core.hyp import Campaign
from vf.proj import lifecycle as lc
from vf.sym import actors, opgen, term
from vf.sym.term import BOT, T

ID = 'C04'
LEVEL = 'exploration'
RULE = (
    'Hypothesis-generated pipelines (>=2 stateful actors; decorated operators incl. train-only and label actors, MapReduce '
    'branches, docs StatefulMapper, twice-expanding wrapper, FullStack) x histories of 3-7 lifecycle steps over 1-2 '
    'releases: train (distinct data nonce), incremental re-train, batch apply of the latest or an explicit generation, '
    'perftrack evaluation, serving calls (pyfunc) - every step in a freshly forked process against a real posix registry. '
    'Non-trivial: the history loads a generation trained in another process with >=2 persistent actors. Distinct = spec digest.'
)
ASSUMPTIONS = [
    'symbolic feed (overrides Feed.load) and recording sink; dask synchronous scheduler drives the batch modes',
    'a forked child of a parent that imported forml but never touched the registry is observationally a fresh process',
    'perftrack steps run with the cyclic garbage collector disabled in the child so that the outcome is a deterministic '
    'function of the history (see the known finding about trainer liveness)',
]
FLOORS = {'cross-process-load': 0.6, 'incremental': 0.3, 'serve': 0.1, 'perftrack': 0.05, 'explicit-generation': 0.1, 'same-process-use': 0.08, 'train-without-sink': 0.25}
LEVEL_TEXT = (
    'Generated-history search against a reference model: every stateful actor is an uninterpreted symbol whose state term '
    'records which actor trained it, on what data and on top of which previous state, so after every apply/eval/serve step '
    'the output term tells exactly which state each actor received; it must equal the state its own counterpart committed '
    'in the selected generation. The real runner driver, composition, persistent-list derivation, asset accessors, posix '
    'registry and pyfunc runner are exercised end to end across processes.'
)
LEVEL_NOTE = (
    'Trusted: history model in vf/checks/c04.py on top of the denotation vf/sym/opgen.py, Hypothesis, fork as a fresh '
    'process. Histories up to 7 steps, pipelines up to ~6 operators; mlflow registry not exercised.'
)
TECHNIQUE = 'model-based property testing of lifecycle histories in forked processes (provenance terms vs generation/state model)'

E = actors.hp_term({})

# ---- generator ---------------------------------------------------------------------------------------------------------------


def _nstateful(expr):
    return 'stateful>=2' in opgen.classes(expr) and len(Model(expr).persistent) >= 2


@st.composite
def fanout_tails(draw):
    """Pipelines whose persistent order depends most on how the walk treats joins: a fan-out with a stateful actor in a
    second or later branch, closed by (or followed by) further stateful actors, optionally behind a prefix."""
    names = opgen._Names()  # pylint: disable=protected-access
    if draw(st.integers(0, 2)) == 0:
        # one operator instantiated two or three times with the very same builder object: distinct worker groups, distinct
        # states, one builder
        shared = {'op': 'smapper', 'name': names('sm'), 'hp': {}, 'share': True}
        items = [dict(shared)]
        for _ in range(draw(st.integers(1, 2))):
            if draw(st.booleans()):
                items.append({'op': 'simple', 'name': names('m'), 'hp': {}, 'mapper': 'fn', 'apply': None, 'train': None, 'label': None})
            items.append(dict(shared))
        return {'op': 'seq', 'items': items}
    k = draw(st.integers(2, 3))
    kinds = draw(st.lists(st.sampled_from(['st', 'fn']), min_size=k, max_size=k).filter(lambda ks: 'st' in ks[1:]))
    fan = {'op': 'mapreduce', 'name': names('mr'), 'mappers': [{'name': names('mm'), 'kind': kd, 'hp': {}} for kd in kinds]}

    def stateful():
        if draw(st.booleans()):
            return {'op': 'smapper', 'name': names('sm'), 'hp': {}}
        return {'op': 'simple', 'name': names('m'), 'hp': {}, 'mapper': 'st', 'apply': None, 'train': None, 'label': None}

    items = [stateful()] if draw(st.booleans()) else []
    items.append(fan)
    items.extend(stateful() for _ in range(draw(st.integers(0, 2))))
    if draw(st.integers(0, 3)) == 0:
        items.append({'op': 'simple', 'name': names('m'), 'hp': {}, 'mapper': 'fn', 'apply': None, 'train': None, 'label': None})
    return items[0] if len(items) == 1 else {'op': 'seq', 'items': items}


@st.composite
def histories(draw, exprs=None):
    expr = draw((exprs if exprs is not None else opgen.expressions(depth=1, max_items=3)).filter(_nstateful))
    steps = [{'op': 'train', 'nosink': draw(st.booleans())}]
    nsteps = draw(st.integers(2, 6))
    releases = 1
    for _ in range(nsteps):
        op = draw(st.sampled_from(['train', 'apply', 'apply', 'perftrack', 'serve', 'serve', 'release']))
        if op == 'release':
            if releases >= 2:
                op = 'train'
            else:
                releases += 1
                steps.append({'op': 'release'})
                steps.append({'op': 'train', 'nosink': draw(st.booleans())})
                continue
        step = {'op': op}
        if op == 'train':
            step['nosink'] = draw(st.booleans())  # the CLI trains without a sink, runtime.Virtual with one
        if op == 'train' and draw(st.integers(0, 3)) == 0:
            # use the freshly committed generation in the *same* process (warm caches, same interpreter)
            step['then'] = draw(st.sampled_from(['apply', 'serve', 'perftrack']))
            if step['then'] == 'serve':
                step['entries'] = draw(st.lists(st.sampled_from(['e1', 'e2', 'e3']), min_size=1, max_size=2))
        if op != 'train':
            # which generation: None = latest of the latest release, or explicit (release index, generation back-offset)
            step['pick'] = draw(st.sampled_from([None, None, [draw(st.integers(0, 1)), draw(st.integers(0, 2))]]))
        if op == 'serve':
            step['entries'] = draw(st.lists(st.sampled_from(['e1', 'e2', 'e3']), min_size=1, max_size=2))
        steps.append(step)
    return {'expr': expr, 'steps': steps}


# ---- model ---------------------------------------------------------------------------------------------------------------------


class TrainSem(opgen.Sem):
    """Training run: the n-th stateful actor occurrence continues from the n-th state of the previous generation when it
    is persistent."""

    def __init__(self, prev, persistent):
        self.prev = prev
        self.persistent = persistent
        self.states = []

    def state(self, name, h, train_on):
        idx = len(self.states)
        before = self.prev[idx] if (self.prev is not None and self.persistent is not None and idx in self.persistent) else BOT
        sigma = T('S', name, h, before, train_on[0], train_on[1])
        self.states.append(sigma)
        return sigma


class LoadSem(opgen.Sem):
    """Apply-like run: the n-th stateful actor occurrence holds the n-th state of the selected generation."""

    def __init__(self, states):
        self.states = states
        self.n = 0

    def state(self, name, h, train_on):
        idx = self.n
        self.n += 1
        return self.states[idx]


class Model:
    def __init__(self, expr):
        self.expr = expr
        dry = TrainSem(None, None)
        a, t, l = lc.source_terms(0)
        a1, _, _ = opgen.denote(expr, sem=dry)(a, t, l)
        # persistent = states held by actors on the apply *data path* (not those only mentioned inside another state's
        # training provenance): walk the apply output without descending into state terms
        subs, stack, seen = set(), [a1], set()
        while stack:
            x = stack.pop()
            if not isinstance(x, term.Term) or x.dig in seen:
                continue
            seen.add(x.dig)
            if x.tag == 'S':
                subs.add(x.dig)
                continue
            stack.extend(x.kids)
        self.persistent = {i for i, sigma in enumerate(dry.states) if sigma.dig in subs}
        self.npersistent_groups = None
        self.releases = []  # list of lists of generation state vectors

    def train(self, release, nonce):
        gens = self.releases[release]
        prev = gens[-1] if gens else None
        sem = TrainSem(prev, self.persistent)
        a, t, l = lc.source_terms(nonce)
        opgen.denote(self.expr, sem=sem)(a, t, l)
        gens.append(sem.states)

    def output(self, release, gen, a_input):
        sem = LoadSem(self.releases[release][gen])
        dummy = T('unused')
        return opgen.denote(self.expr, sem=sem)(a_input, dummy, dummy)[0]

    def head_fed_trainers(self):
        """True when some persistent actor's trainer is fed on both its train and label port directly by the trunk head
        (no worker between the pipeline head and the trainer on the train path nor on the label path)."""
        probe_t, probe_l = T('HEAD_T'), T('HEAD_L')
        sem = TrainSem(None, None)
        opgen.denote(self.expr, sem=sem)(T('HEAD_A'), probe_t, probe_l)
        return any(i in self.persistent and s.kids[3] == probe_t and s.kids[4] == probe_l for i, s in enumerate(sem.states))


# ---- execution -------------------------------------------------------------------------------------------------------------------


def check_history(ctx, spec):
    expr, steps = spec['expr'], spec['steps']
    model = Model(expr)
    workdir = os.path.join(ctx.scratch, f'c04-{uuid.uuid4().hex[:10]}')
    os.makedirs(workdir)
    cls = set(opgen.classes(expr))
    loads = 0
    try:
        version = 0
        nonce = 0
        sid = 0
        trained_any = False

        def publish():
            nonlocal version, sid
            version += 1
            pkg = lc.write_package(workdir, 'p', f'{version}.0', {'expr': expr})
            sid += 1
            res = lc.run_step({'id': sid, 'op': 'publish', 'package': pkg}, workdir)[0]
            model.releases.append([])
            return res

        res = publish()
        if not res['ok']:
            ctx.fail(spec, 'publish', f"{res['error']}@{res['frame']}", res['message'])
            return
        for step in steps:
            op = step['op']
            sid += 1
            nonce += 1
            if op == 'release':
                res = publish()
                if not res['ok']:
                    ctx.fail(spec, 'publish', f"{res['error']}@{res['frame']}", res['message'])
                    return
                cls.add('second-release')
                continue
            latest_release = len(model.releases) - 1
            if op == 'train':
                if model.releases[latest_release]:
                    cls.add('incremental')
                chain = []
                if step.get('then'):
                    use = {'id': f'{sid}b', 'op': step['then'], 'nonce': nonce + 1000, 'release': f'{latest_release + 1}.0',
                           'generation': len(model.releases[latest_release]) + 1}
                    if step['then'] == 'serve':
                        use['entries'] = step['entries']
                    if step['then'] == 'perftrack':
                        use['nogc'] = os.environ.get('VF_C04_GC') != '1'
                    chain.append(use)
                results = lc.run_step({'id': sid, 'op': 'train', 'nonce': nonce, 'release': None, 'nosink': bool(step.get('nosink'))}, workdir, chain)
                if step.get('nosink'):
                    cls.add('train-without-sink')
                res = results[0]
                if not res['ok']:
                    ctx.fail(spec, 'train-raises', f"{res['error']}@{res['frame']}", res['message'] + res.get('trace', '')[-600:], opgen.copy_scope_tags(expr))
                    return
                model.train(latest_release, nonce)
                want_gen = len(model.releases[latest_release])
                if res['generation'] != want_gen:
                    ctx.fail(spec, 'train', 'generation-number', f"got generation {res['generation']} expected {want_gen}")
                if chain and len(results) > 1:
                    cls.add('same-process-use')
                    cls.add(step['then'])
                    judge(ctx, spec, model, step['then'], results[1], latest_release, want_gen - 1, nonce + 1000, step.get('entries'), 'same-process')
                continue
            # pick the generation
            pick = step.get('pick')
            if pick is None:
                rel = latest_release
                if not model.releases[rel]:
                    continue  # nothing trained for the newest release yet: not part of this property
                gen = len(model.releases[rel]) - 1
                release_arg, generation_arg = None, None
            else:
                rel = min(pick[0], latest_release)
                if not model.releases[rel]:
                    continue
                gen = max(len(model.releases[rel]) - 1 - pick[1], 0)
                release_arg, generation_arg = f'{rel + 1}.0', gen + 1
                cls.add('explicit-generation')
            loads += 1
            cls.add(op)
            request = {'id': sid, 'op': op, 'nonce': nonce, 'release': release_arg, 'generation': generation_arg}
            if op == 'serve':
                request['entries'] = step['entries']
            if op == 'perftrack':
                request['nogc'] = os.environ.get('VF_C04_GC') != '1'
            res = lc.run_step(request, workdir)[0]
            judge(ctx, spec, model, op, res, rel, gen, nonce, step.get('entries'), '')
    finally:
        if loads:
            cls.add('cross-process-load')
        ctx.case(spec, nontrivial=bool(loads) and len(model.persistent) >= 2, classes=sorted(cls))
        term.clear()
        shutil.rmtree(workdir, ignore_errors=True)


def judge(ctx, spec, model, op, res, rel, gen, nonce, entries, where):
    """Compare the outcome of one apply-like step with the model state of generation (rel, gen)."""
    step = {'entries': entries}
    tags = [where] if where else []
    if op == 'perftrack' and model.head_fed_trainers():
        tags = tags + ['head-fed-trainer']
    if not res['ok']:
        tags = tags + opgen.copy_scope_tags(spec['expr'], whole=op == 'perftrack')
        ctx.fail(spec, f'{op}-raises', f"{res['error']}@{res['frame']}", res['message'] + res.get('trace', '')[-600:], tags)
        return
    a, t, l = lc.source_terms(nonce)
    if op == 'apply':
        want = [model.output(rel, gen, a)]
        got = res['records']
    elif op == 'perftrack':
        want = [T('metric', l, model.output(rel, gen, t))]
        got = res['records']
    else:
        want = [model.output(rel, gen, lc.serve_input(nonce, e)) for e in step['entries']]
        got = res['returned']
    if len(got) != len(want):
        ctx.fail(spec, f'{op}-output', 'count', f'{len(got)} outputs for {len(want)} expected', tags)
        return
    for w, g in zip(want, got):
        if w != g:
            from vf.checks import c03

            kind, detail = c03.diff_kind(w, g) if isinstance(g, term.Term) else ('not-a-term', repr(g)[:200])
            # which state did the offending actor get instead?
            ctx.fail(spec, f'{op}-state-binding', kind, detail, tags)
            break


def campaigns(ctx):
    return [
        Campaign('history', histories(), check_history, 70, 400),
        Campaign('fanout-tail', histories(fanout_tails()), check_history, 30, 200),
    ]
