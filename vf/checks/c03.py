"""C03 - operator composition realises train/apply coherence for every expression.

expression spec -> real operators (library decorators, MapReduce, FullStack, operators written against the public API)
-> flow.Composition(source, expression, probe) -> compile train segment (states dumped/committed through a fake
generation) and apply segment (states loaded) -> reference interpreter; the tail values are compared term-for-term with
the denotational model of the expression (vf.sym.opgen.denote).
"""
from forml import flow
from forml.io import asset
from forml.io._input import extract

from vf.core.hyp import Campaign
from vf.sym import actors, graphgen, hygiene, interp, opgen, ops, term
from vf.sym.term import BOT, T

ID = 'C03'
LEVEL = 'exploration'
RULE = (
    'Hypothesis-generated operator expression trees (1-7 operators quick; decorated operators with every mapper/apply/'
    'train/label actor combination x stateful/stateless, MapReduce, the docs StatefulMapper, a twice-expanding scope '
    'wrapper, FullStack with 1-2 (possibly composite) bases and 2-3 folds, explicit right-nesting) composed behind the '
    'real source operator and followed by a stateful probe; train and apply tails compared with the denotation. '
    'Non-trivial: >=2 stateful actors and (explicit right nesting or a label operator or a multi-expanding operator). '
    'Distinct = spec digest.'
)
ASSUMPTIONS = [
    'actors are uninterpreted symbols; the denotational model in vf/sym/opgen.py is taken from docs/workflow/operator.rst '
    'and the operator docstrings',
    'apply-mode states are carried from the train run through asset.State over an in-memory generation (real registry: C04)',
]
FLOORS = {'stateful>=2': 0.4, 'right-nested': 0.08, 'label-op': 0.2, 'multi-expand': 0.1, 'fullstack': 0.04, 'mapreduce': 0.08}
LEVEL_TEXT = (
    'Generated-program search with an exact oracle: random operator expressions are composed by the real composition '
    'machinery, compiled and interpreted with symbolic actors; since terms carry full provenance (which actor, which '
    'hyper-parameters, trained on which features/labels, applied to what) a single term equality per mode decides whether '
    'every stateful actor was trained on exactly the preceding path and applied with that state, and whether repeated '
    'expansions stayed independent.'
)
LEVEL_NOTE = (
    'Trusted: denotational model vf/sym/opgen.py (denote), reference interpreter, Hypothesis. Expressions up to 7 operators '
    '(12 thorough) of the listed operator kinds; Dump/Sniff debug operators not generated (need file/manager side channels).'
)
TECHNIQUE = 'property-based testing: random operator expressions -> real composition -> interpreter vs denotational model'


def source_terms():
    a = T('F', 'src_a', actors.hp_term({}))
    x = T('F', 'src_x', actors.hp_term({}), T('F', 'src_t', actors.hp_term({})))
    return a, T('O', 0, x), T('O', 1, x)


def make_source():
    return extract.Operator(
        actors.Fn.builder('src_a', 0, 1), actors.Fn.builder('src_t', 0, 1), actors.Fn.builder('src_x', 1, 2)
    )


PROBE = {'op': 'simple', 'name': 'probe', 'hp': {}, 'mapper': 'st', 'apply': None, 'train': None, 'label': None}


def expected(expr):
    a, t, l = source_terms()
    full = {'op': 'seq', 'items': [expr, PROBE]}
    a1, t1, l1 = opgen.denote(full)(a, t, l)
    return a1, t1


def tail_value(symbols, results, name):
    """Result of the last applied instruction of the named actor that nobody depends on."""
    used = {id(a) for s in symbols for a in s.arguments}
    out = []
    for s in symbols:
        ins = s.instruction
        if id(ins) in used:
            continue
        builder = getattr(ins, 'builder', None)
        if builder is not None and builder.kwargs.get('name') == name and 'train' not in repr(ins.action):
            out.append(results[id(ins)])
    return out


def first_diff(want, got, path=''):
    if not isinstance(want, term.Term) or not isinstance(got, term.Term):
        return (path, repr(want), repr(got)) if want != got else None
    if want == got:
        return None
    if want.tag != got.tag or len(want.kids) != len(got.kids):
        return path + '/' + want.tag, term.show(want, 3), term.show(got, 3)
    for i, (w, g) in enumerate(zip(want.kids, got.kids)):
        d = first_diff(w, g, f'{path}/{want.tag}[{i}]')
        if d:
            return d
    return None


def diff_kind(want, got):
    d = first_diff(want, got)
    if d is None:
        return 'equal', ''
    path, w, g = d
    steps = [p.split('[')[0] for p in path.split('/') if p]
    # the innermost S on the path tells that a *state* (what an actor was trained on) is wrong, else a data path
    kind = 'state-provenance' if 'S' in steps else 'data-path'
    return kind, f'at {path}: expected {w} got {g}'


def run_expr(expr):
    """Returns dict(train=term|None, apply=term|None, notes)."""
    actors.reset()
    pipeline = opgen.build({'op': 'seq', 'items': [expr, PROBE]})
    composition = flow.Composition(make_source(), pipeline)
    log = []
    generation = graphgen.FakeGeneration(log)
    persistent = composition.persistent
    symbols = flow.compile(composition.train, asset.State(generation, persistent, asset.Tag()))
    interp.structure(symbols)
    results = interp.evaluate(symbols)
    train_tail = tail_value(symbols, results, 'probe')
    puts = [e for e in log if e[0] == 'put']
    dumped = generation.release.dumped
    states = [dumped[sid] for sid in puts[0][1]] if puts else []

    class Loaded(graphgen.FakeGeneration):
        def get(self, index):
            self.log.append(('get', index))
            return states[index]

    symbols2 = flow.compile(composition.apply, asset.State(Loaded(log), persistent, asset.Tag()))
    interp.structure(symbols2)
    results2 = interp.evaluate(symbols2)
    apply_tail = tail_value(symbols2, results2, 'probe')
    return train_tail, apply_tail, len(persistent), len(states)


def check_expr(ctx, expr):
    cls = opgen.classes(expr)
    ctx.case(expr, nontrivial=opgen.nontrivial(expr), classes=cls + [f'size:{min(opgen.size(expr), 8)}'])
    want_a, want_t = expected(expr)
    tags = [c for c in cls if c in ('fullstack', 'multi-expand')][:1]
    try:
        train_tail, apply_tail, npers, nstates = run_expr(expr)
    except interp.TableError as err:
        ctx.fail(expr, 'structure', err.kind, str(err))
        return
    except Exception as exc:
        ctx.fail_exc(expr, 'compose-compile-run-raises', exc, tags + opgen.copy_scope_tags(expr))
        return
    finally:
        term.clear()
        hygiene.release_graph()
    if npers != nstates:
        ctx.fail(expr, 'persistent-states', 'count', f'{npers} persistent groups but {nstates} states committed')
    for mode, want, got in (('train', want_t, train_tail), ('apply', want_a, apply_tail)):
        if len(got) != 1:
            ctx.fail(expr, f'{mode}-tail', 'not-unique', f'{len(got)} tail values')
            continue
        if got[0] != want:
            kind, detail = diff_kind(want, got[0])
            ctx.fail(expr, f'{mode}-tail', kind, detail, tags)


def campaigns(ctx):
    return [
        Campaign('expr', opgen.expressions(depth=2, max_items=4), check_expr, 700, 6000),
        Campaign('expr-large', opgen.expressions(depth=3, max_items=5), check_expr, 60, 600),
        Campaign('scoped', opgen.scoped_expressions(), check_expr, 160, 1200),
    ]


def _small_ops():
    def simple(**k):
        return {'op': 'simple', 'hp': {}, 'mapper': None, 'apply': None, 'train': None, 'label': None, **k}

    return [
        lambda n: simple(name=n, mapper='st'),
        lambda n: simple(name=n, mapper='fn'),
        lambda n: simple(name=n, apply='st'),
        lambda n: simple(name=n, train='st'),
        lambda n: simple(name=n, label='st'),
        lambda n: simple(name=n, label='fn'),
        lambda n: simple(name=n, apply='st', train='st', label='st'),
        lambda n: {'op': 'smapper', 'name': n, 'hp': {}},
        lambda n: {'op': 'twice', 'name': n},
        lambda n: {'op': 'siamese', 'name': n, 'hp': {}},
        lambda n: {'op': 'mapreduce', 'name': n, 'mappers': [{'name': n + 'a', 'kind': 'st', 'hp': {}}, {'name': n + 'b', 'kind': 'fn', 'hp': {}}]},
        lambda n: {'op': 'fullstack', 'name': n, 'nsplits': 2, 'bases': [simple(name=n + 'b', mapper='st')]},
    ]


def small_expressions(maxlen):
    """Every expression of up to ``maxlen`` operators over the small operator alphabet, in every parenthesisation."""
    import itertools

    ops_ = _small_ops()
    for n in range(1, maxlen + 1):
        for combo in itertools.product(range(len(ops_)), repeat=n):
            items = [ops_[k](f'o{i}') for i, k in enumerate(combo)]
            if n == 1:
                yield items[0]
            elif n == 2:
                yield {'op': 'seq', 'items': items}
            else:
                yield {'op': 'seq', 'items': items}  # ((a b) c)
                yield {'op': 'seq', 'items': [items[0], {'op': 'seq', 'items': items[1:]}]}  # (a (b c))


def enumerate_extra(ctx, shard, nshards):
    """Exhaustive small scope: quick = all expressions of <=2 operators, thorough = <=3 operators x parenthesisations."""
    ctx.campaign = 'expr'
    n = 0
    for k, expr in enumerate(small_expressions(3 if ctx.tier == 'thorough' else 2)):
        if k % nshards != shard:
            continue
        check_expr(ctx, expr)
        n += 1
    ctx.extra['enumerated_small_scope'] = ctx.extra.get('enumerated_small_scope', 0) + n
