"""C08 - DSL objects are equal exactly when they are structurally identical.

Campaigns (JSON specs, ``vf.dslx`` ASTs):
* ``pair``  - a well-formed statement ``a`` and ``b`` = an independent rebuild of the same AST or a verified single-leaf
              edit (literal incl. hash-colliding twins, operator, alias, direction, column, table, reference name, join
              kind, set kind, limit, select order, operand order). Oracle = structural equality of the two specs. Judged:
              ``==`` / ``hash`` / set and dict membership of the statements, their schemas, their corresponding features
              and predicates and kinds; pickle round trip; ``Source.__getitem__`` (memoised per *equal* source): every
              positional member and named output of ``b`` is b's own although ``a`` was used before; the parse cache
              ``Reader._parse_statement``: SQL compiled with literal binds for ``b`` after ``a`` (fresh reader, and the
              same reader) must equal the SQL of ``b`` parsed alone in a state that never saw ``a``; independence of
              verdicts and hashes from unrelated live schemas with equal class names. (Re-using one *parser instance*
              for two statements is not judged: ``Visitor.generate_feature`` memoises per instance and even the same
              statement parsed twice by one instance comes out wrong - ``Reader`` never does that.)
* ``intra`` - one statement carrying the same predicate twice with one colliding literal flipped (where vs having):
              SQL from the caching parser must equal SQL from the same parser with ``generate_feature`` un-cached.
``enumerate_extra``: all pairs of a fixed pool of small features, sources, schemas and kinds.
"""
import json
import pickle

from sqlalchemy import sql

from forml.io import dsl
from forml.io.dsl import parser as parsmod
from forml.provider.feed.reader import alchemy

from vf.core import caches
from vf.core.hyp import Campaign, HarnessError, st
from vf.dslx import ast as A
from vf.dslx import build, catalog, strategies as S, wellformed

ID = 'C08'
LEVEL = 'exploration'
RULE = (
    'Pairs (a, b) of well-formed statement ASTs over a 5-table catalog (incl. a structural twin table): b is an '
    'independent rebuild of a, or a verified still-well-formed single-leaf edit of a (literal value incl. the '
    'hash-colliding pairs -1/-2, 0/2**61-1, -1.0/-2.0; comparison/arithmetic/logical operator; aggregate; alias; order '
    'direction; column; table; reference name; join kind; set kind; limit; select order; operand order); plus all pairs '
    'of a fixed pool of small features/sources/schemas/kinds; plus statements repeating a predicate with one colliding '
    'literal flipped. Non-trivial: every single-leaf-edit pair and every rebuilt pair of source depth >= 2; '
    'colliding-literal pairs are counted separately (class edit:literal-collide). Distinct = distinct (a, b) digest.'
)
ASSUMPTIONS = [
    'structural identity = equality of the JSON ASTs under the generator normal forms (no alias of alias, no reference of '
    'reference, set operands are queries); a guard re-derives it from the built objects with a reflection-only '
    'fingerprint and skips pairs where an edit turned out to be structurally equivalent',
    'hash inequality of different objects is not demanded on its own (only equality, set/dict separation and lookups)',
    'parser output is compared only when the SQLAlchemy parser parses both statements standalone; statements it cannot '
    'parse (negation, two-table and/or, boolean column operands, abs(), non-equi self-join, windows: C06 matter) are '
    'counted as masked',
    'window features are not generated (their ordering member is a generator object: neither comparable nor picklable)',
    'clauses needing .schema are masked for statements with unnamed outputs (C07 finding: .schema recursion)',
]
FLOORS = {
    'mode:edit': 0.25,
    'mode:rebuild': 0.12,
    'edit:literal-collide': 0.03,
    'shape:join': 0.22,
    'shape:nested': 0.10,
    'parse:compared': 0.25,
}
SHARDS_THOROUGH = 16

_SHAPES = ('join', 'self-join', 'two-table-pred', 'not', 'or', 'groupby', 'nested', 'set', 'lit-collide', 'dup-names', 'unnamed')
_SQL_SOURCES = None


# ---- reflection-only fingerprint ------------------------------------------------------------------------------------
def canon(obj):
    """Structural fingerprint of a forml object that never calls its ``__eq__`` / ``__hash__``."""
    if isinstance(obj, dsl.Source.Schema):
        return ('schema', [(f.name, canon(f.kind)) for f in obj])
    if isinstance(obj, dsl.Table):
        return ('Table', obj.schema.__name__, [(f.name, canon(f.kind)) for f in obj.schema])
    if isinstance(obj, dsl.Any):
        if isinstance(obj, tuple):
            return (type(obj).__name__,) + tuple(canon(x) for x in tuple.__iter__(obj))
        return type(obj).__name__
    if isinstance(obj, (dsl.Source, dsl.Feature)):
        return (type(obj).__name__,) + tuple(canon(x) for x in tuple.__iter__(obj))
    if isinstance(obj, tuple):
        return ('tuple:' + type(obj).__name__,) + tuple(canon(x) for x in obj)
    if isinstance(obj, type):
        return ('type', obj.__name__)
    if hasattr(obj, 'value') and type(obj).__module__.startswith('forml'):
        return ('enum', type(obj).__name__, obj.value)
    return (type(obj).__name__, repr(obj))


# ---- parsing ----------------------------------------------------------------------------------------------------------
def _sources():
    global _SQL_SOURCES
    if _SQL_SOURCES is None:
        _SQL_SOURCES = {tab: sql.table(name) for name, tab in catalog.BY_NAME.items()}
    return _SQL_SOURCES


class _Uncached(alchemy.Parser):
    """The alchemy parser without any ``generate_feature`` memo: the two-line body of the method, restated here so that
    the reference does not depend on how (or whether) forml caches it."""

    def generate_feature(self, feature):  # pylint: disable=arguments-differ
        feature.accept(self)
        return self.context.symbols.pop()


def _compiled(selectable) -> str:
    return ' '.join(str(selectable.compile(compile_kwargs={'literal_binds': True})).split())


def _reader():
    return alchemy.Reader(_sources(), {}, 'sqlite://')


def _parse_with(parser, statement) -> str:
    with parser as visitor:
        statement.accept(visitor)
        return _compiled(visitor.fetch())


def _try(fn):
    try:
        return fn(), None
    except RecursionError as exc:
        return None, ('RecursionError', str(exc)[:120])
    except Exception as exc:  # pylint: disable=broad-except
        return None, (type(exc).__name__, str(exc)[:200])


# ---- spec generation ----------------------------------------------------------------------------------------------------
_PREFER = ('literal-collide', 'table', 'select-order', 'column', 'ref-name')


def make_pair(data: bytes):
    ch = S.ByteChooser(data)
    a = S.gen_statement(ch, 3, 3, 'identity')
    spec = {'a': a, 'b': a, 'mode': 'rebuild', 'edit': None}
    if ch.pct(0.7):
        edit = S.gen_edit(ch, a, prefer=_PREFER)
        if edit is not None:
            spec = {'a': a, 'b': edit['ast'], 'mode': 'edit', 'edit': edit['edit']}
    return spec


pair_strategy = st.binary(min_size=S.STATEMENT_BYTES + 64, max_size=S.STATEMENT_BYTES + 64).map(make_pair)


def _flip_first_collision(feature):
    for path, node in A.walk_paths(feature):
        if node.get('f') == 'lit':
            twin = S._twin(node['kind'], node['v'])  # pylint: disable=protected-access
            if twin is not None:
                return A.replace(feature, path, A.lit(twin, node['kind']))
    return None


def make_intra(data: bytes):
    """Ungrouped single-source query whose having repeats its where with one colliding literal flipped."""
    ch = S.ByteChooser(data)
    gen = S._Gen(ch, 'semantic', 1, 3)  # pylint: disable=protected-access
    tab = gen.table()
    elems = S._elems(tab)  # pylint: disable=protected-access
    for _ in range(6):
        where = gen.pred(elems, 1)
        if any(n.get('f') in ('not', 'and', 'or') for n in A.walk(where)):
            continue  # keep to what the alchemy parser can parse
        flipped = _flip_first_collision(where)
        if flipped is not None:
            select = [A.col(tab['name'], TABLE_FIRST[tab['name']])]
            return {'ast': A.query(tab, select, where, [], flipped), 'flipped': True}
    where = A.cmp('gt', A.col(tab['name'], TABLE_FIRST[tab['name']]), A.lit(-1, 'int'))
    return {'ast': A.query(tab, [A.col(tab['name'], TABLE_FIRST[tab['name']])], where, [], _flip_first_collision(where)), 'flipped': True}


TABLE_FIRST = {'A': 'id', 'B': 'id', 'C': 'id', 'D': 'id', 'E': 'id'}
intra_strategy = st.binary(min_size=96, max_size=96).map(make_intra)


# ---- structural diff of two specs -> root-cause trigger tags ---------------------------------------------------------------
_ROOT_CAUSES = ('lit-collide', 'table-twin', 'alias-vs-bare', 'none-vs-feature')


def _diff(a, b, out):
    """Classes of the places where two specs differ (aligned, position by position)."""
    if a == b:
        return
    if isinstance(a, dict) and isinstance(b, dict):
        if a.get('t') == b.get('t') and a.get('f') == b.get('f') and a.keys() == b.keys():
            if a.get('f') == 'lit':
                twin = a['kind'] == b['kind'] and S._twin(a['kind'], a['v']) == b['v'] and S._twin(a['kind'], a['v']) is not None  # pylint: disable=protected-access
                out.add('lit-collide' if twin and type(a['v']) is type(b['v']) else 'literal')
                return
            if a.get('t') == 'table' or a.get('f') == 'col':
                key = 'name' if a.get('t') == 'table' else 'table'
                rest_equal = all(a[k] == b[k] for k in a if k != key)
                out.add('table-twin' if rest_equal and {a[key], b[key]} == {'C', 'E'} else 'leaf')
                return
            for k in a:
                _diff(a[k], b[k], out)
            return
        out.add('alias-vs-bare' if (a.get('f') == 'alias') != (b.get('f') == 'alias') else 'node')
        return
    if isinstance(a, list) and isinstance(b, list):
        if len(a) != len(b):
            out.add('length')
            return
        for x, y in zip(a, b):
            _diff(x, y, out)
        return
    if (a is None) != (b is None) and (isinstance(a, dict) or isinstance(b, dict)):
        out.add('none-vs-feature')
        return
    out.add('attr')


def _normalise(node):
    """Copy of a spec node with every literal replaced by the representative of its hash-collision class."""
    if isinstance(node, dict):
        if node.get('f') == 'lit':
            twin = S._twin(node['kind'], node['v'])  # pylint: disable=protected-access
            if twin is not None and repr(twin) < repr(node['v']):
                return dict(node, v=twin)
            return node
        return {k: _normalise(v) for k, v in node.items()}
    if isinstance(node, list):
        return [_normalise(v) for v in node]
    return node


def twins_within(stmt) -> bool:
    """The statement itself contains two different sub-structures that differ only by hash-colliding literals (forml
    then confuses them with each other *inside* the one statement)."""
    groups = {}
    for node in A.walk(stmt):
        groups.setdefault(json.dumps(_normalise(node), sort_keys=True), set()).add(json.dumps(node, sort_keys=True))
    return any(len(g) > 1 for g in groups.values())


def trigger_tags(a, b, fallback):
    """Root-cause classes when the two specs differ *only* in such places, else those plus the fallback label (which
    is replaced by ``twins-within`` when a statement carries colliding twins in itself)."""
    found = set()
    _diff(a, b, found)
    roots = sorted(found & set(_ROOT_CAUSES))
    if found and found <= set(_ROOT_CAUSES):
        return roots
    if (A.is_source(a) and twins_within(a)) or (A.is_source(b) and twins_within(b)):
        return roots + ['twins-within']
    return roots + [fallback]


# ---- campaign: pair -----------------------------------------------------------------------------------------------------
def _expected_index(stmt, name):
    names = [A.name_of(f) for f in A.features_of(stmt)]
    return names.index(name)


def _clear_caches():
    """Isolation between cases / phases: the process-global memo tables of forml keyed by DSL objects."""
    caches.clear(dsl.Source, dsl.Source.Schema, alchemy.Reader)  # wherever forml memoises: not named one by one


def _raw(obj, index):
    """Positional member read without forml's (memoised) ``__getitem__``."""
    return tuple.__getitem__(obj, index)


def _member_mismatch(src):
    """First (source, index) whose public item access returns something else than its own member (recursively over the
    sources reachable from ``src``), else None."""
    for index in range(tuple.__len__(src)):
        own = _raw(src, index)
        got, err = _try(lambda: src[index])  # pylint: disable=cell-var-from-loop
        if err is not None or canon(got) != canon(own):
            return src, index, got if err is None else err
        if isinstance(own, dsl.Source) and not isinstance(own, dsl.Table):
            found = _member_mismatch(own)
            if found is not None:
                return found
    return None


def check_pair(ctx, spec):
    a, b = spec['a'], spec['b']
    same_spec = a == b
    tags_a, tags_b = S.features(a), S.features(b)
    edit = spec.get('edit') or 'rebuild'
    trig = trigger_tags(a, b, edit)
    classes = [f'mode:{spec["mode"]}', f'edit:{edit}'] + [f'shape:{t}' for t in _SHAPES if t in tags_a]
    nontrivial = spec['mode'] == 'edit' or A.depth(a) >= 2
    crash = sorted({'unnamed', 'bare-proxy'} & (tags_a | tags_b))

    # -- phase 0: b alone, in a process state that has never seen a -----------------------------------------------------
    _clear_caches()
    alone, err = _try(lambda: build.build_statement(b)[0])
    if err is not None:
        if err[0] == 'SpecError':
            raise HarnessError(f'spec not buildable: {err}')
        ctx.case(spec, nontrivial=nontrivial, classes=classes + ['build:masked'])
        ctx.mask(f'build-raises:{err[0]}|' + ','.join(crash))
        return
    cb = canon(alone)
    pickled, err_p = _try(lambda: pickle.loads(pickle.dumps(alone)))  # judged below, once the case is registered
    alone_b, err_b = _try(lambda: _compiled(_reader()._parse_statement(alone)))  # pylint: disable=protected-access
    alone = None  # drop the only reference: nothing of the b-alone build survives into phase 1
    _clear_caches()

    # -- phase 1: a is built and used, then b is built next to it -----------------------------------------------------------
    built, err = _try(lambda: (build.build_statement(a)[0], build.build_statement(a)[0]))
    if err is not None:
        ctx.case(spec, nontrivial=nontrivial, classes=classes + ['build:masked'])
        ctx.mask(f'build-raises:{err[0]}|' + ','.join(crash))
        return
    sa, sa2 = built
    ca = canon(sa)
    if canon(sa2) != ca:
        raise HarnessError('two builds of one AST differ structurally')
    alone_a, err_a = _try(lambda: _compiled(_reader()._parse_statement(sa)))  # pylint: disable=protected-access
    bad = _member_mismatch(sa)
    if bad is not None:
        ctx.fail(spec, 'member-access', 'own-member-wrong', f'{bad[0]!r}[{bad[1]}] -> {bad[2]!r}', ['twins-within'] if twins_within(a) else [])
    sb = build.build_statement(b)[0]
    if canon(sb) != cb:  # item access on a reference of b handed out an element of a's (equal-hashing) reference
        ctx.fail(spec, 'build-after-other', 'structure-differs', f'b built after a was used: {canon(sb)} ; b built alone: {cb}', trig)
    same = ca == cb
    if same_spec and not same:
        raise HarnessError('equal specs built different structures')
    if same and not same_spec:
        if edit == 'operand-swap':
            # python evaluates ``element == column`` through the reflected ``column.__eq__(element)`` (Column subclasses
            # Element), so swapping the operands of ==/!= can build the very same structure: judge as identical
            classes.append('edit-equivalent')
        else:
            ctx.fail(spec, 'build', 'different-specs-same-structure', f'both specs built {ca}', trig)
    ctx.case(spec, nontrivial=nontrivial, classes=classes + ['pair:same' if same else 'pair:different'])

    def judge(clause, x, y, expect_same, extra=()):
        """==, hash, set and dict behaviour of two objects against the expected structural verdict."""
        tg = trig + list(extra)
        res, err = _try(lambda: (bool(x == y), bool(y == x), hash(x), hash(y)))
        if err is not None:
            ctx.fail(spec, clause, 'raises-' + err[0], f'{err[1]}', tg)
            return
        eq, qe, hx, hy = res
        if eq != qe:
            ctx.fail(spec, clause, 'asymmetric', f'x==y is {eq}, y==x is {qe}: {x!r} / {y!r}', tg)
        if expect_same:
            if not eq:
                ctx.fail(spec, clause, 'same-unequal', f'{x!r} != {y!r}', tg)
            if hx != hy:
                ctx.fail(spec, clause, 'same-hash-differs', f'{x!r}', tg)
        elif eq:
            ctx.fail(spec, clause, 'different-equal', f'{canon(x)} == {canon(y)}' + (' (hashes equal too)' if hx == hy else ' (hashes differ)'), tg)
        res, err = _try(lambda: (len({x, y}), {x: 'x'}.get(y), y in {x}, y in [x]))
        if err is not None:
            ctx.fail(spec, clause + '-container', 'raises-' + err[0], f'{err[1]}', tg)
            return
        size, found, inset, inlist = res
        ok = (size == 1 and found == 'x' and inset and inlist) if expect_same else (size == 2 and found is None and not inset and not inlist)
        if not ok:
            ctx.fail(
                spec,
                clause + '-container',
                'same-separate' if expect_same else 'different-merged',
                f'len({{x,y}})={size} dict-lookup={found} in-set={inset} in-list={inlist}: {canon(x)} / {canon(y)}',
                tg,
            )

    # -- 1. equality / hash / containers of the statements; pickle round trip of the never-parsed build ------------------
    if err_p is not None:
        ctx.fail(spec, 'pickle', 'raises-' + err_p[0], err_p[1], crash)
    else:
        if canon(pickled) != cb:
            ctx.fail(spec, 'pickle', 'structure-changed', f'{cb} -> {canon(pickled)}', crash)
        judge('pickle', sb, pickled, True)
    judge('statement', sa, sb, same)
    judge('statement-rebuilt', sa, sa2, True)

    # -- 2. member access: every source reachable from b returns *its own* members although a was used before ------------
    bad = _member_mismatch(sb)
    if bad is not None:
        ctx.fail(spec, 'member-access', 'member-of-other-statement', f'{canon(bad[0])}[{bad[1]}] -> {bad[2]!r}', trig)

    # -- 3. pickle of the build that went through the parser (the never-parsed one was judged in phase 0) -------------------
    if err_a is None:
        res, err = _try(lambda: pickle.loads(pickle.dumps(sa)))
        if err is not None:
            ctx.fail(spec, 'pickle-after-parse', 'raises-' + err[0], err[1], crash)
        else:
            if canon(res) != ca:
                ctx.fail(spec, 'pickle-after-parse', 'structure-changed', f'{ca} -> {canon(res)}', crash)
            judge('pickle-after-parse', sa, res, True)

    # -- 4. corresponding parts (read positionally, not through the memoised accessors): features, predicates, kinds -----
    parts = []
    if a['t'] == 'query' and b['t'] == 'query':
        if len(_raw(sa, 1)) == len(_raw(sb, 1)):
            parts += [('feature', x, y) for x, y in zip(_raw(sa, 1), _raw(sb, 1))]
        for clause, index in (('where', 2), ('having', 4)):
            if _raw(sa, index) is not None and _raw(sb, index) is not None:
                parts.append((clause, _raw(sa, index), _raw(sb, index)))
        if len(_raw(sa, 3)) == len(_raw(sb, 3)):
            parts += [('grouping', x, y) for x, y in zip(_raw(sa, 3), _raw(sb, 3))]
    for clause, x, y in parts:
        judge(clause, x, y, canon(x) == canon(y))
        if clause == 'feature':
            kx, ky = _try(lambda: x.kind)[0], _try(lambda: y.kind)[0]  # pylint: disable=cell-var-from-loop
            if kx is not None and ky is not None:
                judge('kind', kx, ky, canon(kx) == canon(ky))

    # -- 5. schemas and named item / attribute access ---------------------------------------------------------------------
    if crash:
        ctx.mask('schema-clauses|' + ','.join(crash))
    else:
        ea, eb = wellformed.schema_of(a), wellformed.schema_of(b)
        res, err = _try(lambda: (sa.schema, sb.schema))
        if err is not None:
            ctx.fail(spec, 'schema', 'raises-' + err[0], err[1], trig)
        else:
            dup = ['dup-names'] if 'dup-names' in tags_a | tags_b else []
            judge('schema', res[0], res[1], canon(res[0]) == canon(res[1]), dup)
            res2, err = _try(lambda: pickle.loads(pickle.dumps(res[0])))
            if err is not None:
                ctx.fail(spec, 'schema-pickle', 'raises-' + err[0], err[1], [])
            else:
                judge('schema-pickle', res[0], res2, True)
            exact = 'num' not in [k for _, k in ea + eb] and None not in [n for n, _ in ea + eb]
            if not dup and exact and (ea == eb) != (canon(res[0]) == canon(res[1])):
                ctx.fail(spec, 'schema', 'structure-vs-spec', f'expected {ea} / {eb}; got {canon(res[0])} / {canon(res[1])}', trig)
        for stmt, src, other in ((a, sa, sb), (b, sb, sa)):
            names = [n for n, _ in wellformed.schema_of(stmt) if n is not None]
            dupn = ['dup-names'] if len(set(names)) < len(names) else []
            own = (_raw(src, 1) or _raw(src, 0).features) if isinstance(src, dsl.Query) else src.features
            for name in sorted(set(names)):
                idx = _expected_index(stmt, name)
                _try(lambda: other[name])  # pylint: disable=cell-var-from-loop
                got, err = _try(lambda: src[name])  # pylint: disable=cell-var-from-loop
                if err is not None:
                    ctx.fail(spec, 'getitem', 'raises-' + err[0], f'{src!r}[{name!r}]: {err[1]}', dupn or trig)
                    break
                if idx >= len(own) or canon(got) != canon(own[idx]):
                    ctx.fail(
                        spec,
                        'getitem',
                        'wrong-feature',
                        f'{src!r}[{name!r}] -> {got!r}, expected output #{idx} {own[idx] if idx < len(own) else None!r}',
                        dupn or trig,
                    )
                    break
                if name.isidentifier() and not hasattr(dsl.Query, name) and not hasattr(dsl.Set, name):
                    attr, err = _try(lambda: getattr(src, name))  # pylint: disable=cell-var-from-loop
                    if err is not None or canon(attr) != canon(got):
                        ctx.fail(spec, 'getattr', 'differs-from-getitem', f'{src!r}.{name}: {err or attr!r}', dupn or trig)
                        break

    # -- 6. independence from unrelated live schemas with equal class names -----------------------------------------------
    before, err = _try(lambda: (hash(sa), hash(sb), bool(sa == sb)))
    if err is None:
        decoys = _decoys()
        after, err = _try(lambda: (hash(sa), hash(sb), bool(sa == sb)))
        twin_ok, err2 = _try(lambda: bool(decoys[0] == catalog.A) and hash(decoys[0]) == hash(catalog.A) and not bool(decoys[1] == catalog.A))
        del decoys
        if err is not None or after != before:
            ctx.fail(spec, 'independence', 'verdict-changed', f'{before} -> {after or err}', trig)
        if err2 is not None or not twin_ok:
            ctx.fail(spec, 'independence', 'namesake-schema', f'identical re-declaration of A unequal or different one equal: {err2}', [])

    # -- 7. parse caches: b parsed after a must come out as b parsed alone ----------------------------------------------------
    if err_a is not None or err_b is not None:
        ctx.klass('parse:masked')
        ctx.mask('parse-raises:' + (err_a or err_b)[0])
        return
    ctx.klass('parse:compared')
    fresh, err = _try(lambda: _compiled(_reader()._parse_statement(sb)))  # pylint: disable=protected-access
    if err is not None:
        ctx.fail(spec, 'parse-after-other', 'raises-' + err[0], err[1], trig)
    elif fresh != alone_b:
        ctx.fail(spec, 'parse-after-other', 'stale', f'b through a fresh reader after a was used: {fresh} ; b alone: {alone_b}', trig)
    reader = _reader()
    res, err = _try(lambda: (_compiled(reader._parse_statement(sa)), _compiled(reader._parse_statement(sb))))  # pylint: disable=protected-access
    if err is not None:
        ctx.fail(spec, 'reader-cache', 'raises-' + err[0], err[1], trig)
    else:
        if res[0] != alone_a:
            ctx.fail(spec, 'reader-cache', 'first-differs', f'a through the shared reader: {res[0]} ; a alone: {alone_a}', trig)
        if res[1] != alone_b:
            ctx.fail(spec, 'reader-cache', 'stale', f'b after a through one reader: {res[1]} ; b alone: {alone_b}', trig)


def _decoys():
    """Unrelated schemas with the class name of a catalog table: one identical re-declaration, one different."""

    class A(dsl.Schema):  # pylint: disable=redefined-outer-name
        id = dsl.Field(dsl.Integer())
        x = dsl.Field(dsl.Integer())
        f = dsl.Field(dsl.Float())
        s = dsl.Field(dsl.String())
        b = dsl.Field(dsl.Boolean())
        d = dsl.Field(dsl.Date())
        t = dsl.Field(dsl.Timestamp())

    twin = A

    class A(dsl.Schema):  # noqa: F811  pylint: disable=function-redefined
        id = dsl.Field(dsl.String())
        other = dsl.Field(dsl.Integer())

    return twin, A


# ---- campaign: intra-statement cache --------------------------------------------------------------------------------------
def check_intra(ctx, spec):
    stmt = spec['ast']
    if wellformed.check(stmt) is not None:
        raise HarnessError(f'intra statement not well-formed: {wellformed.violations(stmt)}')
    ctx.case(stmt, nontrivial=True, classes=['intra'])
    src, err = _try(lambda: build.build_statement(stmt)[0])
    if err is not None:
        ctx.mask('build-raises:' + err[0])
        return
    plain, err = _try(lambda: _parse_with(_Uncached(_sources(), {}), src))
    if err is not None:
        ctx.klass('intra:masked')
        ctx.mask('parse-raises:' + err[0])
        return
    cached, err = _try(lambda: _parse_with(alchemy.Parser(_sources(), {}), src))
    if err is not None:
        ctx.fail(spec, 'parser-cache', 'raises-' + err[0], err[1], ['intra'])
    elif cached != plain:
        ctx.fail(spec, 'parser-cache', 'stale', f'caching parser: {cached} ; same parser without the memo: {plain}', ['intra', 'lit-collide'])


# ---- campaign: literals that are equal as values but print differently ------------------------------------------------------
_TWINS = [
    ['float', '0.0', '-0.0'],
    ['decimal', '10.0', '10.00'],
    ['decimal', '10', '1E+1'],
    ['decimal', '0', '-0'],
    ['timestamp', '2020-01-01T12:00:00+00:00', '2020-01-01T13:00:00+01:00'],
    ['int', '7', '7'],  # control: the very same value
]
twin_strategy = st.fixed_dictionaries({'twin': st.sampled_from(_TWINS), 'wrap': st.sampled_from(['bare', 'alias', 'arith', 'cmp', 'where', 'select'])})


def _twin_value(kind: str, text: str):
    import datetime  # pylint: disable=import-outside-toplevel
    import decimal  # pylint: disable=import-outside-toplevel

    if kind == 'float':
        return float(text)
    if kind == 'int':
        return int(text)
    if kind == 'decimal':
        return decimal.Decimal(text)
    return datetime.datetime.fromisoformat(text)


def check_twin(ctx, spec):
    """A literal is identified by its value: two python-equal values of one type give equal, equally hashing literals
    (and features / statements around them), however the values print."""
    kind, ta, tb = spec['twin']
    ctx.case(spec, nontrivial=ta != tb, classes=['twin', f'twin:{kind}', f"twin-wrap:{spec['wrap']}"])
    table = catalog.BY_NAME['A']
    column = table.x if kind in ('int', 'float', 'decimal') else table.t

    def wrap(value):
        lit = dsl.Literal(value)
        how = spec['wrap']
        if how == 'bare':
            return lit
        if how == 'alias':
            return lit.alias('n')
        if how == 'arith':
            return (column + lit) if kind != 'timestamp' else (column > lit)
        if how == 'cmp':
            return column > lit
        if how == 'where':
            return table.select(table.id).where(column > lit)
        return table.select(table.id, lit.alias('n'))

    va, vb = _twin_value(kind, ta), _twin_value(kind, tb)
    if not (va == vb and type(va) is type(vb) and hash(va) == hash(vb)):
        raise HarnessError(f'twin values are not python-equal: {va!r} {vb!r}')
    res, err = _try(lambda: (wrap(va), wrap(vb)))
    if err is not None:
        ctx.fail(spec, 'twin-build', 'raises-' + err[0], err[1], [kind])
        return
    x, y = res
    res, err = _try(lambda: (bool(x == y), bool(y == x), hash(x) == hash(y), len({x, y}), {x: 1}.get(y)))
    if err is not None:
        ctx.fail(spec, 'twin', 'raises-' + err[0], err[1], [kind, spec['wrap']])
        return
    eq, qe, heq, size, found = res
    if not (eq and qe):
        ctx.fail(spec, 'twin', 'equal-values-unequal', f'{x!r} vs {y!r}: == {eq}/{qe}', [kind])
    elif not heq or size != 1 or found != 1:
        ctx.fail(spec, 'twin', 'equal-but-not-interchangeable', f'{x!r} == {y!r} yet hash-equal={heq} len(set)={size} dict-hit={found}', [kind])


def campaigns(ctx):
    return [
        Campaign('pair', pair_strategy, check_pair, 700, 5000),
        Campaign('intra', intra_strategy, check_intra, 100, 1000),
        Campaign('twin', twin_strategy, check_twin, 72, 72),
    ]


# ---- fixed pool: all pairs ---------------------------------------------------------------------------------------------------
def _kind_pool():
    prim = {k: v for k, v in catalog.KINDS.items()}
    specs = [[k] for k in sorted(prim)] + [['decimal']]
    specs += [['array', 'int'], ['array', 'float'], ['array', 'str'], ['map', 'str', 'int'], ['map', 'str', 'float'], ['map', 'int', 'int']]
    specs += [['struct', ['a', 'int']], ['struct', ['a', 'float']], ['struct', ['b', 'int']], ['struct', ['a', 'int'], ['b', 'int']], ['struct', ['b', 'int'], ['a', 'int']]]
    return specs


def _mk_kind(spec):
    prim = dict(catalog.KINDS, decimal=dsl.Decimal())
    if spec[0] in prim:
        return prim[spec[0]]
    if spec[0] == 'array':
        return dsl.Array(prim[spec[1]])
    if spec[0] == 'map':
        return dsl.Map(prim[spec[1]], prim[spec[2]])
    return dsl.Struct(**{n: prim[k] for n, k in spec[1:]})


def _feature_pool():
    c, lit = A.col, A.lit
    x, f, s = c('A', 'x'), c('A', 'f'), c('A', 's')
    pool = [x, f, s, c('A', 'id'), c('B', 'id'), c('C', 'z'), c('E', 'z'), c('D', 'value'), c('B', 's')]
    pool += [lit(v, 'int') for v in (-1, -2, 0, 2**61 - 1, 1)] + [lit(v, 'float') for v in (-1.0, -2.0, 1.0, 0.0)]
    pool += [lit(True, 'bool'), lit(False, 'bool'), lit('a', 'str'), lit('', 'str'), lit('1', 'str')]
    pool += [lit('2020-01-01', 'date'), lit('2020-01-01T00:00:00', 'timestamp'), lit('2021-06-15', 'date')]
    for op in A.CMP_OPS:
        pool.append(A.cmp(op, x, lit(1, 'int')))
    pool += [A.cmp('gt', lit(1, 'int'), x), A.cmp('gt', x, lit(-1, 'int')), A.cmp('gt', x, lit(-2, 'int')), A.cmp('gt', x, f), A.cmp('gt', f, x)]
    for op in A.ARITH_OPS:
        pool.append(A.arith(op, x, lit(2, 'int')))
    pool += [A.arith('add', lit(2, 'int'), x), A.arith('add', x, lit(2.0, 'float'))]
    p, q = A.cmp('gt', x, lit(1, 'int')), A.cmp('lt', f, lit(1.5, 'float'))
    pool += [A.and_(p, q), A.or_(p, q), A.and_(q, p), A.not_(p), A.not_(q), A.unary('isnull', s), A.unary('notnull', s), A.unary('isnull', x)]
    pool += [A.agg(fn, x) for fn in A.AGG_FNS] + [A.agg('sum', f)]
    pool += [A.cast(x, 'str'), A.cast(x, 'float'), A.cast(f, 'str'), A.unary('abs', x), A.unary('ceil', f), A.unary('floor', f), A.unary('abs', f)]
    pool += [A.unary('year', c('A', 'd')), A.unary('year', c('A', 't'))]
    pool += [A.alias(x, 'n'), A.alias(x, 'm'), A.alias(f, 'n'), A.alias(A.arith('add', x, lit(-1, 'int')), 'n'), A.alias(A.arith('add', x, lit(-2, 'int')), 'n')]
    pool += [A.elem('r', 'x', of=A.table('A')), A.elem('r', 'f', of=A.table('A')), A.elem('q', 'x', of=A.table('A'))]
    return pool


def _source_pool():
    c, lit = A.col, A.lit
    ta, tb, tc, te = A.table('A'), A.table('B'), A.table('C'), A.table('E')
    on = A.cmp('eq', c('A', 'id'), c('B', 'a'))
    pool = [ta, tb, tc, te, A.table('D'), A.ref(ta, 'r'), A.ref(ta, 'q'), A.ref(tb, 'r')]
    pool += [A.join(ta, tb, k, on) for k in ('inner', 'left', 'right', 'full')] + [A.join(ta, tb, 'cross'), A.join(tb, ta, 'cross')]
    pool += [A.join(ta, tb, 'inner', A.cmp('eq', c('A', 'x'), c('B', 'a')))]
    base = [c('A', 'x'), c('A', 'f')]
    pool += [A.query(ta), A.query(ta, base), A.query(ta, base[::-1]), A.query(ta, base[:1]), A.query(tc, [c('C', 'z')]), A.query(te, [c('E', 'z')])]
    for v in (-1, -2, 0, 2**61 - 1):
        pool.append(A.query(ta, base, A.cmp('gt', c('A', 'x'), lit(v, 'int'))))
    pool += [A.query(ta, base, None, [], None, [[c('A', 'x'), d]]) for d in ('asc', 'desc')]
    pool += [A.query(ta, base, None, [], None, [], lim) for lim in ([3, 0], [3, 1], [4, 0])]
    pool += [A.query(ta, [c('A', 'x'), A.alias(A.agg('sum', c('A', 'f')), 'v')], None, [c('A', 'x')])]
    left, right = A.query(ta, [c('A', 'x')]), A.query(tb, [A.alias(c('B', 'a'), 'x')])
    pool += [A.setop(left, right, k) for k in A.SET_KINDS] + [A.setop(right, left, 'union')]
    pool += [A.ref(A.query(ta, base), 'r'), A.ref(A.query(ta, base[::-1]), 'r')]
    return pool


def cross_interpreter(ctx):
    """Identity survives pickling *into another interpreter* (different hash seed - what dask workers are): pool objects
    are built and hashed here, pickled, and compared with their rebuilt twins by ``vf.dslx.xproc`` in a fresh process."""
    import json
    import os
    import pickle
    import subprocess
    import sys

    items = [('source', s) for s in _source_pool()] + [('feature', s) for s in _feature_pool()]
    payload, kept = [], []
    for label, spec in items:
        try:
            obj = build.build_source(spec, {}) if label == 'source' else build.build_feature(spec, {})
            hash(obj)  # whatever the object remembers about its hash, it remembers from *this* interpreter
            payload.append((label, spec, pickle.dumps(obj)))
            kept.append((label, spec))
        except Exception:  # pylint: disable=broad-except
            continue  # unpicklable / unhashable pool members are the business of the other clauses
    path = os.path.join(ctx.scratch, f'c08-xproc-{ctx.seed}.pkl')
    with open(path, 'wb') as fh:
        pickle.dump(payload, fh)
    env = dict(os.environ, PYTHONHASHSEED='424242' if os.environ.get('PYTHONHASHSEED') != '424242' else '7')
    proc = subprocess.run([sys.executable, '-W', 'ignore', '-m', 'vf.dslx.xproc', path], capture_output=True, text=True, env=env, timeout=600, check=False)
    line = next((ln for ln in proc.stdout.splitlines() if ln.startswith('XPROC ')), None)
    if line is None:
        raise HarnessError(f'cross-interpreter helper failed: {proc.stderr[-500:]}')
    ctx.campaign = 'xproc'
    bad = {idx: (sym, detail) for idx, sym, detail in json.loads(line[6:])}
    for idx, (label, spec) in enumerate(kept):
        ctx.case({'label': label, 'x': spec, 'mode': 'cross-interpreter'}, nontrivial=True, classes=['xproc', f'xproc:{label}'])
        if idx in bad:
            ctx.fail({'label': label, 'x': spec}, 'cross-interpreter-pickle', bad[idx][0], bad[idx][1], [label])


def enumerate_extra(ctx, shard, nshards):
    if shard != 0:
        return
    cross_interpreter(ctx)
    ctx.campaign = 'pool'
    kinds = _kind_pool()
    feats = _feature_pool()
    srcs = _source_pool()
    for label, specs, mk in (
        ('kind', kinds, _mk_kind),
        ('feature', feats, lambda s: build.build_feature(s, {})),
        ('source', srcs, lambda s: build.build_source(s, {})),
        ('schema', [s for s in srcs], lambda s: build.build_source(s, {}).schema),
    ):
        objs = [mk(s) for s in specs]
        again = [mk(s) for s in specs]
        fps = [canon(o) for o in objs]
        for i, si in enumerate(specs):
            # one case = one pool object against the whole pool (its own rebuild included)
            row = {'label': label, 'x': si, 'against': len(specs)}
            ctx.case(row, nontrivial=True, classes=[f'pool:{label}'])
            for j, sj in enumerate(specs):
                x, y = objs[i], again[j]
                same = fps[i] == fps[j]
                if label != 'schema' and si == sj and not same:
                    raise HarnessError(f'two builds of one pool spec differ: {si}')
                if label != 'schema' and si != sj and same:
                    ctx.fail({'label': label, 'x': si, 'y': sj}, 'pool', 'different-specs-same-structure', f'both built {fps[i]}', [label] + trigger_tags(si, sj, 'other'))
                    continue
                spec = {'label': label, 'x': si, 'y': sj}
                collide = _pool_collision(si, sj)
                ctx.klass('pool-pair:same' if same else 'pool-pair:different')
                if collide:
                    ctx.klass('pool-pair:collide')
                check_pool(ctx, spec, x, y, same, label, collide)


def _lits(node):
    if isinstance(node, dict):
        if node.get('f') == 'lit':
            yield (node['kind'], node['v'])
        for v in node.values():
            yield from _lits(v)
    elif isinstance(node, list):
        for v in node:
            yield from _lits(v)


def _pool_collision(si, sj) -> bool:
    li, lj = list(_lits(si)), list(_lits(sj))
    if len(li) != len(lj) or li == lj:
        return False
    return all(p == q or S._twin(p[0], p[1]) == q[1] and p[0] == q[0] for p, q in zip(li, lj))  # pylint: disable=protected-access


def check_pool(ctx, spec, x, y, same, label, collide):
    tags = [label] + [t for t in trigger_tags(spec['x'], spec['y'], 'other') if label != 'kind']
    res, err = _try(lambda: (bool(x == y), hash(x), hash(y), len({x, y}), {x: 1}.get(y)))
    if err is not None:
        ctx.fail(spec, 'pool', 'raises-' + err[0], err[1], tags)
        return
    eq, hx, hy, size, found = res
    if same:
        if not eq or hx != hy or size != 1 or found != 1:
            ctx.fail(spec, 'pool', 'same-distinguished', f'eq={eq} hashes-equal={hx == hy} set-size={size} lookup={found}: {x!r}', tags)
    else:
        if eq:
            ctx.fail(spec, 'pool', 'different-equal', f'{x!r} == {y!r}', tags)
        if size != 2 or found is not None:
            ctx.fail(spec, 'pool', 'different-merged', f'set-size={size} lookup={found}: {x!r} / {y!r}', tags)


def replay(ctx, name, spec):
    """Replays of the fixed pool (campaign 'pool')."""
    if name != 'pool':
        raise HarnessError(f'unknown campaign {name}')
    label = spec['label']
    mk = {'kind': _mk_kind, 'feature': lambda s: build.build_feature(s, {}), 'source': lambda s: build.build_source(s, {}), 'schema': lambda s: build.build_source(s, {}).schema}[label]
    x, y = mk(spec['x']), mk(spec['y'])
    ctx.case(spec, nontrivial=True, classes=[f'pool:{label}'])
    check_pool(ctx, spec, x, y, canon(x) == canon(y), label, _pool_collision(spec['x'], spec['y']))


LEVEL_TEXT = (
    'Generated-input search: pairs of independently built DSL statements (identical rebuild or one verified single-leaf '
    'edit, colliding literals included) are compared through ==, hash, set/dict membership, pickling, item/attribute '
    'access and the two parse caches against structural equality of their JSON specs; plus all pairs of a fixed pool of '
    'small features, sources, schemas and kinds. Evidence over the sampled pairs, not a proof.'
)
LEVEL_NOTE = (
    'Trusted: vf/dslx builder and AST normal forms, the reflection-only fingerprint canon(), SQLAlchemy literal-bind '
    'compilation. Parser-cache clauses only where the alchemy parser can parse the statements (others masked, C06).'
)
TECHNIQUE = 'property-based testing (Hypothesis) over pairs: rebuild / pickle / single-leaf edit vs structural equality of specs; small-scope all-pairs enumeration'
