"""C14 - push-down hints offered to storage back-ends never lose required data.

Per case (a well-formed ``vf.dslx`` statement x random table contents):

(b) *direct*: the DSL-level hints are captured per table visit by ``vf.dslx.hints.ToyParser`` (``context.tables[source]``
    read in ``visit_table`` before delegating) and judged against the AST and the reference evaluator:
    ``hint-columns``  the offered column set contains every column of that table the enclosing query uses anywhere
                      (projection, where, having, join conditions, grouping, ordering);
    ``hint-rows``     every base row that contributes to some row of the (pre-limit) result - row lineage computed by
                      ``vf.dslx.refeval`` - satisfies the offered filter (evaluates to TRUE);
    ``extract``       the same column requirement for ``forml.provider.feed.lazy._Columns.extract``.
(a) *metamorphic*: ``vf.dslx.hints.HonouringParser`` (an ``alchemy.Parser`` whose ``generate_table`` really applies the
    hints) in the modes columns-only and rows-only must return, on SQLite and DuckDB, what the same parser returns with
    honouring switched off; that one in turn must equal the stock parser (validation of the harness transformation).

Campaign ``hints`` generates every shape (known defects are bucketed under narrow keys carrying their structural
trigger), ``clean`` excludes the shapes whose attribution is not exact, so that the search goes on behind them.
"""
from vf.core.ctx import forml_frame
from vf.core.hyp import Campaign, st
from vf.dslx import ast as A
from vf.dslx import build, datagen, engines, hints, refeval, shapes
from vf.dslx import strategies as S

ID = 'C14'
LEVEL = 'exploration'
RULE = (
    'Hypothesis-generated well-formed statements of the semantic dslx profile (joins of 2-3 tables of all kinds, '
    'predicates with and/or/not over one or several tables, equality and inequality join conditions, self-joins through '
    'named references, nested queries and set operations, IsNull/NotNull, grouping, ordering, limit) x generated table '
    'contents (0-6 rows, empty tables, NULLs, NULL-producing outer joins). Non-trivial: some table scan is offered a '
    'row filter or a strict subset of its columns. Distinct = distinct spec digest. Plus five hand-made statements in which '
    'one scan is offered a safe and an unsafe factor at once (the disjunction is safe, a tighter combination is not).'
)
ASSUMPTIONS = [
    'the metamorphic part uses alchemy.Parser with the Not and Abs entries of its expression map repaired (C06 findings), '
    'because they would hide every negated predicate; hints are compared per engine against the same parser with '
    'honouring switched off, so engine-dependent constructs cancel out',
    '"can contribute" is taken as why-provenance of the pre-limit result (join: both sides, aggregate: the whole group, '
    'union: all equal rows, intersection: both sides, difference: left side); effects of removing a non-contributing row '
    '(anti-join shapes) are left to the metamorphic comparison',
    'statements whose reference denotation is undefined (engine-defined casts) or ambiguous (nested limit without a total '
    'order) are judged on columns only',
    'queries directly over a query/set, windows and unnamed outputs are not generated',
]
FLOORS = {'join': 0.25, 'hint:predicate': 0.2, 'hint:strict-columns': 0.3, 'two-table-pred': 0.1, 'outer-join': 0.08, 'self-join': 0.05,
          'nested': 0.08, 'direct:judged': 0.3, 'meta:judged': 0.3}
SHARDS_THOROUGH = 16

#: triggers of the defects that abort hint computation: excluded by construction from ``clean``, as is every statement in
#: which some table scan is offered only factors that a known defect makes unsafe (vf.dslx.shapes.scan_factor_causes)
FUZZY_TRIGGERS = ()  # factors-asym and mixed-table-ref are repaired
_EXCLUDED = {}
_PARSE_ATTRIBUTION = [
    ('AttributeError', 'io/dsl/_struct/series.py:__call__', 'factors-asym'),
    ('AttributeError', 'io/dsl/parser.py:filter', 'bool-leaf-pred'),
    ('AttributeError', 'io/dsl/_struct/series.py:factors', 'bool-leaf-pred'),
    ('KeyError', 'io/dsl/parser.py:visit_element', 'mixed-table-ref'),
]


def _is_clean(stmt) -> bool:
    bad = shapes.triggers(stmt) & set(FUZZY_TRIGGERS)
    causes = shapes.scan_factor_causes(stmt)
    bad = bad | set(statement_cause(causes))
    for b in bad:
        _EXCLUDED[b] = _EXCLUDED.get(b, 0) + 1
    _EXCLUDED['_drawn'] = _EXCLUDED.get('_drawn', 0) + 1
    return not bad


def case_strategy(clean: bool):
    stmts = S.statements(3, 4, 'semantic')
    if clean:
        stmts = stmts.filter(_is_clean)
    return st.fixed_dictionaries({'stmt': stmts, 'data': datagen.tables()})


def parse_tags(exc, trig) -> list:
    name, frame = type(exc).__name__, forml_frame(exc)
    for etype, where, tag in _PARSE_ATTRIBUTION:
        if name == etype and frame == where and tag in trig:
            return [tag]
    return []


def statement_cause(causes) -> list:
    """Attribution of a differing honoured result: the known cause of a scan whose offered filter is unsafe (by precedence)."""
    found = {c for entries in causes for c in shapes.unsafe_cause(entries)}
    if any('mixed-table-ref' in entries for entries in causes):
        found.add('mixed-table-ref')  # a filter over foreign elements is never a filter of the table, whatever else is offered
    for cause in shapes.CAUSES:
        if cause in found:
            return [cause]
    if any('null-side-isnull' in entries for entries in causes):
        return ['null-side-isnull']
    return []


def check_hints(ctx, spec):
    stmt, data = spec['stmt'], spec['data']
    tags = S.features(stmt)
    trig = shapes.triggers(stmt)
    infos = shapes.scan_infos(stmt)
    causes = shapes.scan_factor_causes(stmt)
    classes = sorted(tags & {'join', 'two-table-pred', 'two-table-and', 'two-table-or', 'nested', 'set', 'self-join', 'outer-join',
                             'cross-join', 'not', 'or', 'non-equi-join', 'null-test', 'multi-join', 'groupby', 'orderby', 'limit'})
    classes += [f'trigger:{t}' for t in sorted(trig & (set(FUZZY_TRIGGERS) | {'eq-join', 'ref-table'}))]
    classes += [f'unsafe-factor:{c}' for c in statement_cause(causes)]
    statement, _ = build.build_statement(stmt)
    # ---- (b) direct: the offered hints -------------------------------------------------------------------------------------
    offered, exc = hints.capture(statement)
    nontrivial = False
    for hint in offered:
        if hint.predicate is not None:
            nontrivial = True
            classes.append('hint:predicate')
        if len(hint.columns) < len(shapes.TABLES[hint.table]):
            nontrivial = True
            classes.append('hint:strict-columns')
    classes = sorted(set(classes))
    reasons = set()
    if exc is not None:
        key = ctx.fail_exc(spec, 'hints-parse', exc, parse_tags(exc, trig))
        ctx.mask(key)
        classes.append('direct:parse-raised')
    else:
        if len(offered) != len(infos):
            raise RuntimeError(f'{len(offered)} table visits for {len(infos)} table nodes')
        classes.append('direct:judged')
        reasons = _judge_columns(ctx, spec, offered, infos)
        _judge_extract(ctx, spec, statement, stmt)
        lineage = None
        try:
            lineage = refeval.evaluate(stmt, data, lineage=True)
        except (refeval.Ambiguous, refeval.Undefined) as err:
            classes.append('direct:no-lineage-' + type(err).__name__)
        if lineage is not None:
            classes.append('direct:rows-judged')
            _judge_rows(ctx, spec, offered, infos, lineage, data, trig, causes)
    # ---- (a) metamorphic: honouring back-end -----------------------------------------------------------------------------------
    classes += _judge_meta(ctx, spec, stmt, statement, data, trig, reasons, exc, tags, statement_cause(causes))
    ctx.case(spec, nontrivial=nontrivial, classes=classes)


def _judge_columns(ctx, spec, offered, infos) -> set:
    reasons = set()
    for i, (hint, info) in enumerate(zip(offered, infos)):
        if hint.table != info['table']:
            raise RuntimeError(f'table visit {i} is {hint.table}, AST scan is {info["table"]}')
        missing = sorted(set(info['used']) - hint.columns)
        if not missing:
            continue
        if info['ref'] is not None:
            reason = 'ref-scan'
        else:
            clauses = sorted({c for col in missing for c in info['used'][col]})
            reason = 'eq-join-only' if clauses == ['join-eq'] else 'used-in-' + '+'.join(clauses)
        reasons.add(reason)
        ctx.fail(spec, 'hint-columns', 'missing', f'scan {i} of {info["table"]}{" via " + info["ref"] if info["ref"] else ""}: offered '
                 f'{sorted(hint.columns)}, the query uses {info["used"]}; missing {missing}', [reason])
    return reasons


def _judge_extract(ctx, spec, statement, stmt) -> None:
    from forml.provider.feed import lazy

    extract = lazy._Columns.__dict__['extract'].__func__
    extract.cache_clear()
    try:
        got = extract(lazy._Columns, statement)
    except Exception as exc:
        ctx.fail_exc(spec, 'extract-raises', exc)
        return
    offered = {}
    for table, columns in got:
        offered.setdefault(hints.table_name(table), set()).update(c.name for c in columns)
    for table, used in sorted(shapes.used_columns(stmt).items()):
        missing = sorted(used - offered.get(table, set()))
        if missing:
            ctx.fail(spec, 'extract', 'missing', f'{table}: extracted {sorted(offered.get(table, set()))}, used {sorted(used)}')


def _judge_rows(ctx, spec, offered, infos, lineage, data, trig, causes) -> None:
    contributing = {}
    for lin in lineage.full_lineage:
        for scan, row in lin:
            contributing.setdefault(scan, set()).add(row)
    for i, (hint, info) in enumerate(zip(offered, infos)):
        if hint.predicate is None or i not in contributing:
            continue
        try:
            pred = hints.to_ast(hint.predicate)
        except hints.Unconvertible as err:
            raise RuntimeError(f'cannot convert offered predicate: {err}') from err
        if any(n.get('f') == 'elem' or (n.get('f') == 'col' and n['table'] != hint.table) for n in A.walk(pred)):
            ctx.fail(spec, 'hint-rows', 'foreign-elements', f'scan {i} of {hint.table}: offered filter {hint.predicate!r} uses other sources',
                     sorted(trig & {'mixed-table-ref'}))
            continue
        for r in sorted(contributing[i]):
            row = data[hint.table][r]
            try:
                value = hints.holds(pred, hint.table, row)
            except refeval.Undefined:
                break
            if value is not True:
                ctx.fail(spec, 'hint-rows', 'drops-contributing-row', f'scan {i} of {info["table"]}{" via " + info["ref"] if info["ref"] else ""}: '
                         f'offered filter {hint.predicate!r} is {value} on row {row} which contributes to the result', shapes.unsafe_cause(causes[i]))
                break


_MODES = (('columns', hints.ColumnsParser), ('rows', hints.RowsParser))


def _missing_column(exc) -> bool:
    text = str(exc).lower()
    return 'no such column' in text or ('binder error' in text and ('not found' in text or 'does not have a column' in text
                                                                   or 'referenced column' in text))


def _judge_meta(ctx, spec, stmt, statement, data, trig, reasons, direct_exc, tags, rcause) -> list:
    from vf.checks.c06 import slug

    out = []
    kinds = [k for _, k in A.outputs_of(stmt)]
    try:
        base_sel = engines.parse_statement(statement, hints.IgnoringParser)
    except Exception as exc:
        if direct_exc is None:
            ctx.fail_exc(spec, 'meta-parse', exc, parse_tags(exc, trig))
        return ['meta:parse-raised']
    stock_sel = None
    if not trig & {'not', 'abs'}:
        try:
            stock_sel = engines.parse_statement(statement)
        except Exception as exc:
            ctx.fail_exc(spec, 'harness-validation', exc)
    if stock_sel is not None and _sql(stock_sel) == _sql(base_sel):
        stock_sel = None  # textually the same SQL: nothing to execute
        out.append('meta:harness-same-sql')
    selectables = {}
    for mode, factory in _MODES:
        try:
            selectables[mode] = engines.parse_statement(statement, factory)
        except Exception as exc:
            ctx.fail_exc(spec, f'honour-{mode}-parse', exc, parse_tags(exc, trig))
    judged = False
    ref = None
    edep = shapes.engine_dependent(stmt) & {'cast', 'year', 'floor-ceil', 'big-arith'}
    if 'limit' in tags:  # a limit may legitimately pick other rows when the scan order changes
        try:
            ref = refeval.evaluate(stmt, data)
        except (refeval.Ambiguous, refeval.Undefined):
            return ['meta:limit-unjudged']
    for eng in engines.both():
        eng.load(data)
        try:
            base = eng.execute(base_sel, kinds)
        except Exception:
            out.append(f'meta:base-error-{eng.name}')
            continue
        judged = True
        if stock_sel is not None:
            try:
                stock = eng.execute(stock_sel, kinds)
            except Exception as exc:
                ctx.fail(spec, 'harness-validation', f'stock-raises-{eng.name}', str(exc)[:300])
                stock = None
            if stock is not None and _differs(ref, base, stock):
                ctx.fail(spec, 'harness-validation', f'differs-{eng.name}', f'stock={stock[:8]} ignoring-harness={base[:8]} sql={base_sel}')
        for mode, sel in selectables.items():
            try:
                got = eng.execute(sel, kinds)
            except Exception as exc:
                # a missing column / a filter over foreign elements surfaces in engine specific ways (no such column,
                # lateral reference, struct field extraction ...): attributed through the direct analysis
                cause = sorted(reasons) if mode == 'columns' else []  # (the mixed-table-ref cause of row filters is repaired)
                if not cause and edep:
                    out.append('meta:engine-dependent-error')  # e.g. SQLite's python floor() on a NULL the filter now meets
                    continue
                kind = 'raises' if cause else f'raises-{slug(exc)}'
                ctx.fail(spec, f'honour-{mode}', kind, f'{eng.name}: {" ".join(str(exc).split())[:300]} sql={sel}', cause)
                continue
            if _differs(ref, base, got):
                ctx.fail(spec, f'honour-{mode}', 'result-differs', f'{eng.name}: ignoring={base[:10]} honouring={got[:10]} sql={sel}',
                         sorted(reasons) if mode == 'columns' else rcause)
    if judged:
        out.append('meta:judged')
    return out


def _differs(ref, base, got) -> bool:
    """Do two executions of equivalent SQL differ beyond what an ambiguous limit allows?"""
    if ref is not None and ref.weak:
        if refeval.compare(ref, base) is not None:
            return False  # the un-hinted result is itself off (C06's business): nothing to compare with
        return refeval.compare(ref, got) is not None
    return not refeval.same_multiset(got, base)


def _sql(selectable) -> str:
    return ' '.join(str(selectable).split())


# ---- factor logic: boolean trees over leaves of one table, the other table and both, on a dense grid ---------------------
_GRID = {
    'A': [{'id': i + 1, 'x': x, 'f': f, 's': v, 'b': b, 'd': '2020-01-01', 't': '2020-01-01T00:00:00'}
          for i, (x, f, v, b) in enumerate([(0, -1.0, 'a', True), (1, 0.5, 'b', False), (2, 1.5, 'x', True), (3, 0.0, 'a', False), (-1, 2.5, 'b', True), (-2, -0.5, 'x', False)])],
    'B': [{'id': i + 1, 'a': a, 'y': y, 's': v}
          for i, (a, y, v) in enumerate([(1, 0.5, 'a'), (1, 2.0, 'b'), (2, -1.0, 'x'), (3, 1.0, 'x'), (4, 3.0, 'a'), (2, 0.0, 'b'), (3, -2.0, 'a'), (4, 0.5, 'x'), (5, 1.5, 'b'), (6, -1.5, 'a')])],
    'C': [{'id': 1, 'b': 1, 'z': 0}, {'id': 2, 'b': 2, 'z': 3}, {'id': 3, 'b': 5, 'z': 1}, {'id': 4, 'b': 8, 'z': 2}],
    'D': [{'id': 1, 'value': 2}],
}


def _leaves():
    col, lit, cmp = A.col, A.lit, A.cmp
    return {
        # -1 / -2 hash alike in CPython: anything deciding "same predicate" through hashes confuses the last two
        'A': [cmp('gt', col('A', 'x'), lit(1)), cmp('lt', col('A', 'x'), lit(1)), cmp('gt', col('A', 'f'), lit(0.0)), cmp('eq', col('A', 's'), lit('a')),
              cmp('eq', col('A', 'x'), lit(-1)), cmp('eq', col('A', 'x'), lit(-2))],
        'B': [cmp('ge', col('B', 'y'), lit(1.0)), cmp('lt', col('B', 'a'), lit(3)), cmp('ne', col('B', 's'), lit('a')), cmp('lt', col('B', 'y'), lit(0.0))],
        'AB': [cmp('gt', col('A', 'x'), col('B', 'a')), cmp('eq', col('A', 's'), col('B', 's'))],
        'C': [cmp('gt', col('C', 'z'), lit(0)), cmp('lt', col('C', 'b'), lit(4))],
    }


@st.composite
def _tree(draw, pools, depth):
    if depth <= 0 or draw(st.integers(0, 3)) == 0:
        return draw(st.sampled_from(draw(st.sampled_from(pools))))
    op = draw(st.sampled_from(['and', 'or', 'or', 'not']))
    if op == 'not':
        return A.not_(draw(_tree(pools, depth - 1)))
    return {'f': op, 'l': draw(_tree(pools, depth - 1)), 'r': draw(_tree(pools, depth - 1))}


@st.composite
def _skeleton(draw, leaves):
    """Mixed conjunction/disjunction shapes in which what one table is restricted by depends on the *other* operands."""
    x, y = draw(st.sampled_from([('A', 'B'), ('B', 'A')]))
    px = lambda: draw(st.sampled_from(leaves[x]))  # noqa: E731
    py = lambda: draw(st.sampled_from(leaves[y]))  # noqa: E731
    pxy = lambda: draw(st.sampled_from(leaves['AB']))  # noqa: E731

    def two(op, left, right):
        return {'f': op, 'l': left, 'r': right} if draw(st.booleans()) else {'f': op, 'l': right, 'r': left}

    kind = draw(st.integers(0, 11))
    if kind >= 9:  # two alternatives for the same table (alone, or next to a restriction of the other table)
        both = two('or', px(), px())
        if x == 'A' and draw(st.booleans()):  # the alternatives differ only in literals that hash alike
            both = two('or', leaves['A'][-2], leaves['A'][-1])
        return both if kind == 9 else two('and', both, py()) if kind == 10 else two('or', both, two('and', px(), py()))
    if kind == 0:
        return two('or', two('and', px(), py()), px())
    if kind == 1:
        return two('or', two('and', px(), py()), two('and', px(), py()))
    if kind == 2:
        return two('or', two('and', px(), pxy()), px())
    if kind == 3:
        return two('and', two('or', px(), py()), px())
    if kind == 4:
        return A.not_(two(draw(st.sampled_from(['and', 'or'])), px(), py()))
    if kind == 5:
        return two('or', px(), A.not_(px()))
    if kind == 6:
        return two('or', two('or', px(), py()), px())
    if kind == 7:
        return two('or', two('and', px(), py()), A.not_(px()))
    return two('and', two('or', two('and', px(), py()), px()), py())


@st.composite
def factor_cases(draw):
    """Two or three joined tables under a boolean tree (depth <= 3) of one-table and two-table comparisons, as where-condition
    and/or inside an inner join's condition, over a grid in which every combination of leaf outcomes has a joining pair."""
    leaves = _leaves()
    eq_ab = A.cmp('eq', A.col('A', 'id'), A.col('B', 'a'))
    three = draw(st.integers(0, 3)) == 0
    pools = [leaves['A'], leaves['B'], leaves['AB']] + ([leaves['C']] if three else [])
    cond = eq_ab
    if draw(st.integers(0, 2)) == 0:
        cond = A.and_(draw(_tree(pools[:3], 2)), eq_ab) if draw(st.booleans()) else A.and_(eq_ab, draw(_tree(pools[:3], 2)))
    left, right = (A.table('A'), A.table('B')) if draw(st.booleans()) else (A.table('B'), A.table('A'))
    src = A.join(left, right, 'inner', cond)
    select = [A.col('A', 'id'), A.col('B', 'id')]
    if three:
        # the third table joins the A-B join - also as an outer join whose preserved side is that join, with an ON-clause
        # conjunct restricting one of *its* tables
        eq_cb = A.cmp('eq', A.col('C', 'b'), A.col('B', 'id'))
        kind3 = draw(st.sampled_from(['inner', 'left', 'left', 'right']))
        cond3 = A.and_(eq_cb, draw(_tree(pools[:3], 1))) if draw(st.booleans()) else eq_cb
        src = A.join(A.table('C'), src, 'right', cond3) if kind3 == 'right' else A.join(src, A.table('C'), kind3, cond3)
        select.append(A.col('C', 'z'))
    pick = draw(st.integers(0, 9))
    where = None if pick == 0 else draw(_skeleton(leaves)) if pick <= 5 else draw(_tree(pools, 3))
    return {'stmt': A.query(src, select, where=where), 'data': _GRID}


# ---- lazy feed: what a hint-honouring origin answers must not outlive the statement it was answered for -----------------
_LAZY_ROWS = [{'id': 1, 'a': 1, 'y': 0.5, 's': 'a'}, {'id': 2, 'a': 3, 'y': 2.0, 's': 'b'}, {'id': 3, 'a': 3, 'y': -1.0, 's': 'x'}]
_LAZY_COLS = ['id', 'a', 'y', 's']
lazy_history_spec = st.fixed_dictionaries(
    {
        # the origin keeps a pre-projected ("narrow") partition with these columns and answers a column hint it covers with it
        'narrow': st.lists(st.sampled_from(_LAZY_COLS), min_size=1, max_size=3, unique=True).map(sorted),
        'reads': st.lists(
            st.fixed_dictionaries(
                {
                    'select': st.lists(st.sampled_from(_LAZY_COLS), min_size=1, max_size=3, unique=True),
                    'where': st.sampled_from([None, None, 'a', 'y']),
                }
            ),
            min_size=2,
            max_size=4,
        ),
    }
)


def _lazy_child(spec) -> list:
    """Forked child (the lazy reader keeps its DuckDB back-end and registrations process-wide)."""
    import pandas  # pylint: disable=import-outside-toplevel

    from forml.provider.feed import lazy  # pylint: disable=import-outside-toplevel
    from vf.dslx import catalog  # pylint: disable=import-outside-toplevel

    table = catalog.BY_NAME['B']
    narrow = list(spec['narrow'])

    class Honouring(lazy.Origin):
        """Answers a column hint covered by its narrow partition with that partition, anything else with a full load."""

        @property
        def source(self):
            return table

        @property
        def key(self):
            return 'lazy_b'

        def partitions(self, columns, predicate):
            names = {c.name for c in columns}
            return ('narrow',) if names and names <= set(narrow) else ()

        def load(self, partition):
            frame = pandas.DataFrame(_LAZY_ROWS)
            return frame[narrow] if partition == 'narrow' else frame

    # a result cache of its own (the stock one is keyed by SQL text only and would answer from earlier cases)
    import pathlib  # pylint: disable=import-outside-toplevel
    import tempfile  # pylint: disable=import-outside-toplevel

    from forml.provider.feed import alchemy as stock  # pylint: disable=import-outside-toplevel

    cache = tempfile.mkdtemp(prefix='vf-c14-lazy-')
    lazy.Feed.Reader.RESULTS = stock.Results(pathlib.Path(cache))
    feed = lazy.Feed(Honouring())
    out = []
    for read in spec['reads']:
        statement = table.select(*(getattr(table, c) for c in read['select']))
        if read['where'] is not None:
            statement = statement.where(getattr(table, read['where']) > 0)
        try:
            producer = feed.producer(feed.sources, feed.features, **feed._readerkw)  # pylint: disable=protected-access
            rows = [[v.item() if hasattr(v, 'item') else v for v in row] for row in producer(statement, None).to_rows()]
            out.append({'rows': rows})
        except Exception as exc:  # pylint: disable=broad-except
            out.append({'err': type(exc).__name__, 'frame': forml_frame(exc), 'msg': ' '.join(str(exc).split())[:300]})
    import shutil  # pylint: disable=import-outside-toplevel

    shutil.rmtree(cache, ignore_errors=True)
    return out


def check_lazy_history(ctx, spec):
    from vf.meta import iso  # pylint: disable=import-outside-toplevel

    narrow = set(spec['narrow'])
    needs = [set(r['select']) | ({r['where']} if r['where'] else set()) for r in spec['reads']]
    kinds = ['narrow' if n <= narrow else 'full' for n in needs]
    classes = ['lazy-history'] + [f'lazy:{a}-then-{b}' for a, b in zip(kinds, kinds[1:])]
    ctx.case(spec, nontrivial='lazy:narrow-then-full' in classes, classes=sorted(set(classes)))
    res = iso.forked(_lazy_child, spec, timeout=120.0)
    if isinstance(res, dict) and '__child_error__' in res:
        raise RuntimeError(f"lazy child failed: {res['__child_error__']}\n{res.get('traceback')}")
    for i, (read, got) in enumerate(zip(spec['reads'], res)):
        tags = [f'{kinds[i - 1]}-then-{kinds[i]}'] if i else ['first']
        if 'err' in got:
            ctx.fail(spec, 'lazy-read-raises', f"{got['err']}@{got['frame']}", f"read {i} {read}: {got['msg']}", tags)
            return
        rows = [r for r in _LAZY_ROWS if read['where'] is None or r[read['where']] > 0]
        expected = sorted(tuple(r[c] for c in read['select']) for r in rows)
        if sorted(tuple(r) for r in got['rows']) != expected:
            ctx.fail(spec, 'lazy-read', 'differs', f"read {i} {read}: got {got['rows']} expected {expected}", tags)
            return


def campaigns(ctx):
    return [
        Campaign('hints', case_strategy(False), check_hints, 450, 3000),
        Campaign('clean', case_strategy(True), check_hints, 450, 3000),
        Campaign('factors', factor_cases(), check_hints, 200, 2000),
        Campaign('lazy-history', lazy_history_spec, check_lazy_history, 40, 150),
    ]


_DATA = {
    'A': [{'id': 1, 'x': 1, 'f': 0.5, 's': 'a', 'b': True, 'd': '2020-01-01', 't': '2020-01-01T00:00:00'},
          {'id': 2, 'x': 2, 'f': 1.5, 's': 'b', 'b': False, 'd': '2021-06-15', 't': '2021-06-15T12:30:00'},
          {'id': 3, 'x': 3, 'f': -1.0, 's': 'x', 'b': True, 'd': '2019-12-31', 't': '2020-01-01T00:00:01'}],
    'B': [{'id': 1, 'a': 1, 'y': 0.5, 's': 'a'}, {'id': 2, 'a': 1, 'y': 2.0, 's': 'b'}, {'id': 3, 'a': 3, 'y': -1.0, 's': 'x'}],
    'C': [{'id': 1, 'b': 1, 'z': 0}, {'id': 2, 'b': 2, 'z': 3}, {'id': 3, 'b': 3, 'z': 1}],
    'D': [{'id': 1, 'value': 2}],
}


def directed_cases() -> list:
    """Hand-made shapes in which one table scan is offered *two* factors, a safe one and one that a known defect makes
    unsafe: the offered disjunction is safe, any tighter combination is not (rare in the random campaigns)."""
    col, lit, cmp = A.col, A.lit, A.cmp
    eq_ab = cmp('eq', col('A', 'id'), col('B', 'a'))
    eq_cb = cmp('eq', col('C', 'b'), col('B', 'id'))
    stmts = [
        # where-factor (safe) + ON-factor on the preserved side of an outer join
        A.query(A.join(A.table('A'), A.table('B'), 'left', A.and_(cmp('gt', col('A', 'x'), lit(1)), eq_ab)),
                [col('A', 'id'), col('B', 'id')], where=cmp('gt', col('A', 'f'), lit(0.0))),
        A.query(A.join(A.table('B'), A.table('A'), 'right', A.and_(cmp('gt', col('A', 'x'), lit(2)), eq_ab)),
                [col('A', 'id'), col('B', 'y')], where=cmp('lt', col('A', 'id'), lit(3))),
        A.query(A.join(A.table('A'), A.table('B'), 'full', A.and_(cmp('gt', col('A', 'x'), lit(1)), eq_ab)),
                [col('A', 'id'), col('B', 'id')], where=A.unary('notnull', col('A', 's'))),
        # ON-factor on the NULL-supplying side (safe) + negated where-factor
        A.query(A.join(A.table('C'), A.table('B'), 'inner', A.and_(cmp('ge', col('B', 'y'), lit(0.0)), eq_cb)),
                [col('C', 'id'), col('B', 'a')], where=A.not_(cmp('gt', col('B', 'a'), lit(2)))),
        # ON-factor of an inner join (safe) + one-sided disjunction in the where-condition
        A.query(A.join(A.table('C'), A.table('B'), 'inner', A.and_(cmp('ge', col('B', 'y'), lit(0.0)), eq_cb)),
                [col('C', 'id'), col('B', 'a')], where=A.or_(cmp('gt', col('B', 'a'), lit(2)), cmp('gt', col('C', 'z'), col('B', 'a')))),
    ]
    # one table scanned in two operands of a set operation under *different* where-factors: the table's segment collects
    # both and only their disjunction is safe
    stmts += [
        A.setop(
            A.query(A.table('A'), [col('A', 'id')], where=cmp('gt', col('A', 'x'), lit(1))),
            A.query(A.table('A'), [col('A', 'id')], where=cmp('lt', col('A', 'x'), lit(1))),
            'union',
        ),
        A.setop(
            A.query(A.table('B'), [col('B', 'a')], where=cmp('ge', col('B', 'y'), lit(1.0))),
            A.query(A.table('B'), [col('B', 'a')], where=cmp('lt', col('B', 'y'), lit(1.0))),
            'union',
        ),
    ]
    return [{'stmt': s, 'data': _DATA} for s in stmts]


def enumerate_extra(ctx, shard, nshards):
    for k, v in sorted(_EXCLUDED.items()):
        ctx.extra[f'clean_excluded:{k}'] = v
    if shard == 0:
        ctx.campaign = 'hints'
        for spec in directed_cases():
            check_hints(ctx, spec)


LEVEL_TEXT = (
    'Generated-input search: for thousands of (statement, data) pairs per run the push-down hints are captured at the DSL '
    'level and judged directly (offered columns vs the columns the enclosing query uses, computed from the AST; offered row '
    'filter vs the row lineage of an independent reference evaluator), and metamorphically: an alchemy.Parser subclass that '
    'really applies the hints (columns-only and rows-only) must return on SQLite and DuckDB what it returns with honouring '
    'switched off, which in turn must equal the stock parser. A second campaign excludes the shapes whose failures cannot be '
    'attributed exactly, so the search goes on behind the known defects. Evidence over the sampled statements and data - not '
    'a proof.'
)
LEVEL_NOTE = (
    'Trusted: vf/dslx/refeval.py (lineage = why-provenance of the pre-limit result), vf/dslx/shapes.py (column usage per table '
    'scan), vf/dslx/hints.py (harness parsers; the ignoring variant is validated against the stock parser on every statement), '
    'SQLite/DuckDB, Hypothesis. The honouring parser repairs the Not/Abs entries of the alchemy expression map (C06 findings). '
    'Anti-join effects of dropping non-contributing rows are covered only by the metamorphic comparison.'
)
TECHNIQUE = 'property-based testing (Hypothesis): direct oracle from AST + row lineage, metamorphic hint-honouring parser on two SQL engines'
