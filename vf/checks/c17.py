"""C17 - model-selection strategies honour their contract on every request history.

Campaigns (all specs are JSON-able):
* abtest   - variant sets of 2-6 built through ``ABTest.compare().over().against()`` with float-in-(0,1) / positive-int /
             omitted targets in every mix the class docstring allows; n requests (optionally alternating between two
             registries); oracle = reference normalisation (exact rationals, re-implemented from the docstring) and, at
             every prefix n and for every variant i, ``|count_i - share_i*n| <= 1``; selection never raises and every
             returned instance is the variant's (project, release, generation) in the registry passed to ``select``.
* latest   - histories {publish release, commit generation, select, tick} over one or two scratch posix registries;
             ``tick`` = one iteration of ``Latest._refresh`` executed synchronously (the module's ``threading.Thread`` is
             replaced by a recording stub while the selector is constructed, ``time.sleep`` by a one-shot stop while the
             step runs; both restored after every use - no thread, no wall clock). Oracle = reference model of the
             registry (generation counters per release, PEP 440 order fixed by the position in ``VERSIONS``).
* explicit - any sequence of selects (over one or two registries) returns the configured instance of the registry asked.
* pool     - one two-variant set instantiated 1-100 times in the same process (the only campaign that does not clear
             forml's process-global ``ABTest.Slot._instance`` cache between selectors); same oracle as abtest.
Exhaustive part: every legal weight vector over {omitted, .1, .25, .5, 1, 2, 3}^k, k <= 4 (quick) / k <= 5 (thorough).
"""
import datetime
import fractions
import itertools
import logging
import os
import pickle
import shutil
import tempfile
import threading
import time
import types

from hypothesis import strategies as st

from forml import application, runtime
from forml import project as prj
from forml.application import _strategy as strategy_mod
from forml.io import asset
from forml.provider.registry.filesystem import posix

from vf.core import caches
from vf.core.hyp import Campaign

ID = 'C17'
LEVEL = 'exploration'
RULE = (
    'Hypothesis-generated A/B variant sets (2-6 variants over 2 projects x 2 releases x 3 generations, builder arguments '
    'omitted where inherited; targets all-float-in-(0,1), all-positive-int or omitted in every mix the docstring allows) '
    'served for n in 1..2000 requests and checked at every prefix; Latest histories of 4-24 operations '
    '{publish, commit, select, tick} over 1-2 scratch registries with 6 PEP 440 versions (configured and implicit '
    'release); Explicit select sequences; pools of 1-100 identical two-variant selectors living in one process. '
    'Non-trivial: A/B set with k>=3 or an omitted target; Latest history in which a generation is committed between two '
    'selects on the same registry; Explicit sequence of >=2 selects; pool of >=2 selectors. Distinct = distinct spec digest.'
)
ASSUMPTIONS = [
    'legal A/B weight mixes (from the ABTest docstring): all explicit targets are floats in (0,1) or all are positive '
    'ints (never mixed); omitted targets next to floats only when the floats sum to < 0.96 (complement to 1 split '
    'evenly among the omitted ones); omitted next to ints = mean of the ints; all omitted = equal shares; explicit '
    'floats without any omitted target are normalised by their sum',
    'share bound judged with tolerance 1e-6 (the code normalises in binary floating point, the oracle in rationals)',
    'Latest: a configured release always has a generation before the first select; an implicit select on a registry '
    'without any generation may raise Listing.Empty or Level.Invalid (not judged); tick = one synchronous _refresh iteration, the real '
    "thread's timing/liveness is not tested",
    'the class-level lru_cache behind ABTest.Slot._instance is cleared before every abtest case (a case stands for a '
    'fresh process); selectors sharing a process are the subject of the pool campaign only',
    'generations are committed through asset.Release.dump/put with a tag carrying a training timestamp; releases are '
    'published through asset.Project.put when the version is an increment, else through Registry.push',
]
FLOORS = {
    'abtest:k=2': 0.05,
    'abtest:k>=3': 0.25,
    'abtest:omitted': 0.15,
    'abtest:two-registries': 0.04,
    'latest:stale-select': 0.02,
    'latest:refresh-moves': 0.03,
    'latest:empty-release-skipped': 0.01,
    'latest:version-order': 0.004,
    'explicit': 0.02,
    'pool:>128-slot-registry-pairs': 0.002,
}
SHARDS_THOROUGH = 16

TOL = 1e-6
PROJECTS = ['ab-one', 'ab-two']
AB_RELEASES = ['1.0', '1.1']
AB_GENS = 3
VERSIONS = ['0.1', '0.2', '0.10', '1.0.dev1', '1.0', '2']  # listed in ascending PEP 440 order: index = rank
STRING_RANK = {v: i for i, v in enumerate(sorted(VERSIONS))}  # what a naive lexicographic order would say
LPROJECT = 'latest-prj'
STAMP = datetime.datetime(2020, 1, 1, 12, 0, 0)

logging.disable(logging.WARNING)  # the refresh step logs every update at INFO, a failing pick at WARNING


# ---- scratch registries --------------------------------------------------------------------------------------------
_STATE = {}


def _workdir(ctx) -> str:
    pid = os.getpid()
    if _STATE.get('pid') != pid:  # forked shard: own directory, own fixtures
        _STATE.clear()
        _STATE['pid'] = pid
        _STATE['dir'] = tempfile.mkdtemp(prefix=f'c17-{pid}-', dir=ctx.scratch)
        _STATE['pkg'] = {}
    return _STATE['dir']


def _package(ctx, project: str, version: str):
    base = _workdir(ctx)
    key = (project, version)
    if key not in _STATE['pkg']:
        path = os.path.join(base, f'pkg-{project}-{version}')
        prj.Manifest(project, version, 'vfpkg').write(path)
        _STATE['pkg'][key] = prj.Package(path)
    return _STATE['pkg'][key]


def _publish(ctx, directory, project: str, version: str, increment: bool) -> None:
    package = _package(ctx, project, version)
    if increment:
        directory.get(project).put(package)
    else:  # asset.Project.put refuses a non-increment; the registry API itself does not
        directory.registry.push(package)


def _commit(directory, project: str, version: str) -> None:
    release = directory.get(project).get(version)
    sid = release.dump(b'state')
    release.put(asset.Tag(training=asset.Tag.Training(STAMP, None), states=[sid]))


def _clear_caches() -> None:
    from forml.io.asset._directory.level import major, minor

    major.ARTIFACTS.clear()
    minor.TAGS.clear()
    minor.STATES.clear()


def _ab_fixture(ctx):
    """Two read-only registries holding PROJECTS x AB_RELEASES x AB_GENS generations (built once per process)."""
    base = _workdir(ctx)
    if 'ab' not in _STATE:
        dirs = []
        for r in range(2):
            directory = asset.Directory(posix.Registry(os.path.join(base, f'abreg{r}')))
            for project in PROJECTS:
                for version in AB_RELEASES:
                    _publish(ctx, directory, project, version, True)
                    for _ in range(AB_GENS):
                        _commit(directory, project, version)
            dirs.append(directory)
        _STATE['ab'] = dirs
    return _STATE['ab']


def _ab_index(ctx):
    """Every generation of the A/B fixture as an explicitly keyed asset.Instance -> (registry, project, release, gen)."""
    if 'ab_index' not in _STATE:
        directories = _ab_fixture(ctx)
        _STATE['ab_index'] = {
            asset.Instance(p, r, g, d): (i, p, r, g)
            for i, d in enumerate(directories)
            for p in PROJECTS
            for r in AB_RELEASES
            for g in range(1, AB_GENS + 1)
        }
    return _STATE['ab_index']


def _ident(instance):
    """Identity of an instance independent of forml's own equality: the textual project-release-generation path plus the
    registry object it is bound to."""
    gen = instance._generation  # pylint: disable=protected-access
    return repr(gen), id(gen.registry)


def _same(left, right) -> bool:
    return _ident(left) == _ident(right)


def _describe(instance) -> str:
    try:
        return str(instance)
    except Exception as exc:  # an instance whose keys do not resolve
        return f'<unresolvable instance: {type(exc).__name__}: {exc}>'


# ---- ABTest: reference -----------------------------------------------------------------------------------------------
def ref_shares(targets):
    """Normalised target shares as exact rationals, from the ABTest docstring."""
    explicit = [fractions.Fraction(t) for t in targets if t is not None]
    missing = len(targets) - len(explicit)
    if missing:
        if not explicit:
            implicit = fractions.Fraction(1, missing)
        elif all(isinstance(t, float) for t in targets if t is not None):
            implicit = (1 - sum(explicit)) / missing  # complement to 1
        else:
            implicit = sum(explicit) / len(explicit)  # mean of the provided integer weights
        weights = [implicit if t is None else fractions.Fraction(t) for t in targets]
    else:
        weights = explicit
    total = sum(weights)
    return [w / total for w in weights]


def legal(targets) -> bool:
    explicit = [t for t in targets if t is not None]
    floats = [t for t in explicit if isinstance(t, float)]
    ints = [t for t in explicit if not isinstance(t, float)]
    if floats and ints:
        return False
    if any(not 0 < t < 1 for t in floats) or any(t < 1 for t in ints):
        return False
    if floats and len(explicit) < len(targets) and sum(fractions.Fraction(t) for t in floats) > fractions.Fraction(96, 100):
        return False
    return True


def uniform_int(targets) -> bool:
    """Weight vectors whose binary normalisation is exact: all omitted, or equal ints (plus omitted = their mean)."""
    explicit = [t for t in targets if t is not None]
    return all(not isinstance(t, float) for t in explicit) and len(set(explicit)) <= 1


def resolve_variants(variants):
    """(project, release, generation) per variant after the builder's inheritance of omitted project/release."""
    out = []
    for v in variants:
        project = v['p'] if v['p'] is not None else out[-1][0]
        release = v['r'] if v['r'] is not None else out[-1][1]
        out.append((project, release, v['g']))
    return out


# ---- ABTest: generator -----------------------------------------------------------------------------------------------
_NICE_FLOATS = [0.01, 0.05, 0.1, 0.1, 0.2, 0.25, 0.3, 0.3, 1 / 3, 0.4, 0.5, 0.6, 0.7, 0.75, 0.9]
_NICE_INTS = [1, 1, 1, 2, 2, 3, 3, 4, 5, 7, 9, 10, 50]
_COMBOS = [(p, r, g) for p in range(len(PROJECTS)) for r in range(len(AB_RELEASES)) for g in range(1, AB_GENS + 1)]


@st.composite
def abtest_spec(draw):
    k = draw(st.sampled_from([2, 2, 2, 3, 3, 3, 4, 4, 5, 6]))
    mode = draw(st.sampled_from(['float', 'float', 'float', 'int', 'int', 'int', 'omitted', 'uniform']))
    if mode == 'omitted':
        targets = [None] * k
    elif mode == 'uniform':
        value = draw(st.sampled_from([1, 2, 3, 0.1, 0.3, 0.7, 0.25]))
        targets = [value if isinstance(value, float) or draw(st.integers(0, 3)) else None for _ in range(k)]
    elif mode == 'int':
        targets = [None if draw(st.integers(0, 3)) == 0 else draw(st.sampled_from(_NICE_INTS)) for _ in range(k)]
    else:
        some = st.one_of(st.sampled_from(_NICE_FLOATS), st.floats(0.001, 0.999, allow_nan=False))
        targets = [None if draw(st.integers(0, 3)) == 0 else draw(some) for _ in range(k)]
        explicit = [t for t in targets if t is not None]
        if explicit and len(explicit) < k and sum(explicit) > 0.95:  # keep a positive complement for the omitted ones
            scale = draw(st.sampled_from([0.5, 0.8, 0.9])) / sum(explicit)
            targets = [None if t is None else t * scale for t in targets]
    combos = draw(st.permutations(_COMBOS))[:k]
    variants = []
    for i, ((p, r, g), t) in enumerate(zip(combos, targets)):
        item = {'p': PROJECTS[p], 'r': AB_RELEASES[r], 'g': g, 't': t}
        if i:  # the builder inherits an omitted project/release from the previous variant
            pp, pr, _ = combos[i - 1]
            if pp == p and draw(st.booleans()):
                item['p'] = None
            if pr == r and draw(st.booleans()):
                item['r'] = None
        variants.append(item)
    n = draw(
        st.one_of(
            st.integers(1, 60), st.integers(1, 60), st.integers(1, 60), st.integers(61, 300), st.integers(61, 300),
            st.integers(61, 300), st.integers(301, 1000), st.sampled_from([500, 1000, 2000]),
        )
    )
    regs = draw(st.sampled_from([[0], [0], [0], [0], [1], [0, 1], [0, 0, 1], [1, 0, 1, 1]]))
    return {'variants': variants, 'n': n, 'regs': regs, 'gen_as': draw(st.sampled_from(['int', 'int', 'str']))}


# ---- ABTest: check -----------------------------------------------------------------------------------------------------
def _build_abtest(spec):
    vs = spec['variants']

    def gen(v):
        return str(v['g']) if spec.get('gen_as') == 'str' else v['g']

    def kw(v):
        out = {}
        if v['p'] is not None:
            out['project'] = v['p']
        if v['r'] is not None:
            out['release'] = v['r']
        if v['t'] is not None:
            out['target'] = v['t']
        return out

    first = vs[0]
    if first['t'] is None:
        builder = application.ABTest.compare(first['p'], first['r'], gen(first))
    else:
        builder = application.ABTest.compare(first['p'], first['r'], gen(first), first['t'])
    for v in vs[1:-1]:
        builder = builder.over(gen(v), **kw(v))
    return builder.against(gen(vs[-1]), **kw(vs[-1]))


def _clear_slot_cache() -> None:
    """Process-global memoisation of the strategy module (today ABTest.Slot._instance, a class-level lru_cache shared by
    every selector of the process) - found by walking the module, not named: a change that moves it must be judged."""
    caches.clear(strategy_mod, depth=3)


def _serve(ctx, spec, selector, directories, variants, n, regs, ktag, extra=(), prefix='', shape=True):
    """Serve n requests and judge every prefix. Returns False when the case cannot be judged any further."""
    targets = [v['t'] for v in variants]
    k = len(variants)
    fshares = [float(s) for s in ref_shares(targets)]
    wtag = 'uniform-int-weights' if uniform_int(targets) else 'general-weights'
    keys = resolve_variants(variants)
    index = _ab_index(ctx)  # asset.Instance -> (registry, project, release, generation), through Instance.__hash__/__eq__
    which = {key: j for j, key in enumerate(keys)}
    stats = runtime.Stats()
    counts = [0] * k
    devs = [0.0] * k
    seen = {}  # id(instance) -> (instance kept alive, registry index, variant index); a cache over the == classification
    reported = set()
    for i in range(1, n + 1):
        r = regs[(i - 1) % len(regs)]
        try:
            got = selector.select(directories[r], None, stats)
        except Exception as exc:
            ctx.fail_exc(spec, 'abtest-select-raises', exc, [ktag, *extra])
            return False
        hit = seen.get(id(got))
        if hit is None or hit[0] is not got:
            try:
                found = index.get(got)
            except Exception as exc:
                ctx.fail_exc(spec, 'abtest-instance', exc, [ktag, *extra])
                return False
            if found is None or found[1:] not in which:
                ctx.fail(spec, 'abtest-instance', 'not-a-variant', f'{prefix}request {i}: got {_describe(got)}', [ktag, *extra])
                return False
            hit = seen[id(got)] = (got, found[0], which[found[1:]])
        if hit[1] != r:
            key = ('abtest-instance', 'other-registry')
            if key not in reported:
                reported.add(key)
                ctx.fail(
                    spec, key[0], key[1], f'{prefix}request {i} asked registry {r}, instance belongs to registry {hit[1]}', [ktag, *extra]
                )
        h = hit[2]
        counts[h] += 1
        for j in range(k):
            devs[j] -= fshares[j]
        devs[h] += 1.0
        if devs[h] <= 1 + TOL / 2 and min(devs) >= -1 - TOL / 2:
            continue  # running deviations (screening only); anything close to the bound is recomputed from the counts
        for j in range(k):
            dev = counts[j] - fshares[j] * i
            if dev > 1 + TOL or dev < -1 - TOL:
                # rank = how many variants can precede j in the (descending) target order
                rank = sum(1 for m in range(k) if m != j and fshares[m] >= fshares[j] - 1e-9)
                how = 'over-served' if dev > 0 else 'under-served'
                tags = (ktag, 'rank>=2' if rank >= 2 else 'rank<2', wtag) if shape else (ktag, *extra)
                if (how, tags) not in reported:
                    reported.add((how, tags))
                    ctx.fail(
                        spec,
                        'abtest-share',
                        how,
                        f'{prefix}targets={targets} shares={[round(s, 6) for s in fshares]} after n={i} requests '
                        f'counts={counts}: variant {j} deviates by {dev:+.4f} from share*n={fshares[j] * i:.4f}',
                        tags,
                    )
    return True


def check_abtest(ctx, spec):
    variants = spec['variants']
    targets = [v['t'] for v in variants]
    k = len(variants)
    n = spec['n']
    regs = spec['regs']
    omitted = any(t is None for t in targets)
    explicit = [t for t in targets if t is not None]
    kind = 'all-omitted' if not explicit else ('float' if isinstance(explicit[0], float) else 'int')
    ktag = 'k=2' if k == 2 else 'k>=3'
    wtag = 'uniform-int-weights' if uniform_int(targets) else 'general-weights'
    classes = ['abtest', f'abtest:k={k}', f'abtest:{kind}', f'abtest:{wtag}']
    if k >= 3:
        classes.append('abtest:k>=3')
    if omitted:
        classes.append('abtest:omitted')
        if explicit:
            classes.append(f'abtest:omitted+{kind}')
    if len(set(regs)) > 1:
        classes.append('abtest:two-registries')
    if n >= 500:
        classes.append('abtest:n>=500')
    if any(v['p'] is None or v['r'] is None for v in variants):
        classes.append('abtest:inherited-keys')
    ctx.case(spec, nontrivial=k >= 3 or omitted, classes=classes)
    assert legal(targets), f'generator left the documented domain: {targets}'

    directories = _ab_fixture(ctx)
    _clear_slot_cache()  # process-global cache of forml: every case starts as a fresh process would (see the pool campaign)
    try:
        selector = _build_abtest(spec)
    except Exception as exc:
        ctx.fail_exc(spec, 'abtest-build-raises', exc, [ktag])
        return
    _serve(ctx, spec, selector, directories, variants, n, regs, ktag)


# ---- ABTest: many selectors in one process ------------------------------------------------------------------------------
@st.composite
def pool_spec(draw):
    """One two-variant set instantiated ``repeat`` times in the same process, each selector serving n requests."""
    combos = draw(st.permutations(_COMBOS))[:2]
    mode = draw(st.sampled_from(['int', 'float', 'omitted']))
    if mode == 'int':
        targets = [draw(st.sampled_from([1, 1, 2, 3, 5])) for _ in range(2)]
    elif mode == 'float':
        first = draw(st.sampled_from([0.1, 0.25, 0.5, 0.7, 0.9]))
        targets = [first, draw(st.sampled_from([None, 1 - first]))]
    else:
        targets = [None, None]
    variants = [{'p': PROJECTS[p], 'r': AB_RELEASES[r], 'g': g, 't': t} for (p, r, g), t in zip(combos, targets)]
    return {
        'variants': variants,
        'n': draw(st.integers(4, 40)),
        'repeat': draw(st.sampled_from([1, 2, 5, 20, 40, 70, 70, 100, 100])),
        'regs': draw(st.sampled_from([[0], [0], [0, 1]])),
        'gen_as': 'int',
    }


POOL_LIMIT = 128  # size of the lru_cache behind ABTest.Slot._instance


def check_pool(ctx, spec):
    pairs = spec['repeat'] * len(spec['variants']) * len(set(spec['regs']))
    over = pairs > POOL_LIMIT
    ctx.case(spec, nontrivial=spec['repeat'] > 1, classes=['pool', 'pool:>128-slot-registry-pairs' if over else 'pool:<=128'])
    directories = _ab_fixture(ctx)
    _clear_slot_cache()
    extra = ['slot-registry-pairs>128' if over else 'slot-registry-pairs<=128']
    for m in range(spec['repeat']):
        try:
            selector = _build_abtest(spec)
        except Exception as exc:
            ctx.fail_exc(spec, 'abtest-build-raises', exc, ['k=2', *extra])
            return
        if not _serve(ctx, spec, selector, directories, spec['variants'], spec['n'], spec['regs'], 'k=2', extra, f'selector #{m}: ', False):
            return


# ---- Latest: generator ---------------------------------------------------------------------------------------------------
@st.composite
def latest_spec(draw):
    pool = draw(st.sampled_from([[0, 1, 2, 3, 4, 5], [1, 2], [1, 2], [3, 4], [0, 1, 2], [2, 3, 4, 5], [1, 2, 4]]))  # versions in play
    configured = draw(st.sampled_from([None, None, None, None, pool[0], pool[-1]]))
    nreg = draw(st.sampled_from([1, 1, 1, 2]))
    nver = len(VERSIONS)
    published = [set() for _ in range(nreg)]
    gens = [[0] * nver for _ in range(nreg)]
    ops = []

    def publish(r, v):
        published[r].add(v)
        ops.append(['publish', r, v])

    def commit(r, v):
        gens[r][v] += 1
        ops.append(['commit', r, v])

    if configured is not None:
        for r in range(nreg):
            publish(r, configured)
            if draw(st.integers(0, 9)) < 7:  # else: the configured release is still untrained when first asked for
                commit(r, configured)
    elif draw(st.integers(0, 9)) < 8:
        v = draw(st.sampled_from(pool))
        publish(0, v)
        commit(0, v)
    for _ in range(draw(st.integers(3, 20))):
        r = draw(st.integers(0, nreg - 1))
        what = draw(st.sampled_from(['publish', 'publish', 'commit', 'commit', 'commit', 'select', 'select', 'select', 'tick', 'tick', 'ship']))
        if what == 'ship':  # the selector (a descriptor holding it) is pickled and the copy serves from here on
            ops.append(['ship', None, None])
            continue
        if what == 'publish':
            free = [v for v in pool if v not in published[r]]
            if free:
                publish(r, draw(st.sampled_from(free)))
                continue
            what = 'commit'
        if what == 'commit':
            if published[r]:
                commit(r, draw(st.sampled_from(sorted(published[r]))))
                continue
            what = 'select'
        if what == 'select':
            ops.append(['select', r, None])
        else:
            ops.append(['tick', None, None])
    ops.append(['select', draw(st.integers(0, nreg - 1)), None])
    return {
        'configured': configured,
        'refresh': draw(st.sampled_from([30, 0.5, 7, 3600])),
        'conf_as': draw(st.sampled_from(['str', 'key'])),
        'nreg': nreg,
        'ops': ops,
    }


# ---- Latest: check -------------------------------------------------------------------------------------------------------
PENDING = 'pending'  # model value: selected while the configured release had no generation yet


class _StubThread:
    """Stands for threading.Thread while a Latest selector is constructed: records the target, never runs anything."""

    def __init__(self, *args, target=None, **kwargs):
        self.target = target
        self.started = 0

    def is_alive(self) -> bool:
        return self.started > 0

    def start(self) -> None:
        self.started += 1


class _Stop(BaseException):
    """Raised by the substituted time.sleep to end the refresh loop after exactly one iteration."""


def _stubbed_threading(stubs: list):
    def thread(*args, **kwargs):
        stub = _StubThread(*args, **kwargs)
        stubs.append(stub)
        return stub

    return types.SimpleNamespace(RLock=threading.RLock, Thread=thread, Lock=threading.Lock)


def _ship(selector, stubs: list):
    """Pickle round trip of a (used) selector, its refresher thread being a stub again."""
    original = strategy_mod.threading
    strategy_mod.threading = _stubbed_threading(stubs)
    try:
        return pickle.loads(pickle.dumps(selector))
    finally:
        strategy_mod.threading = original


def _make_latest(spec, stubs: list):
    release = None
    if spec['configured'] is not None:
        release = VERSIONS[spec['configured']]
        if spec.get('conf_as') == 'key':
            release = asset.Release.Key(release)
    original = strategy_mod.threading
    strategy_mod.threading = _stubbed_threading(stubs)
    try:
        return application.Latest(LPROJECT, release, spec['refresh'])
    finally:
        strategy_mod.threading = original


def _tick(stub) -> list:
    """One synchronous iteration of the refresh loop; returns the arguments time.sleep was called with."""
    slept = []

    def sleep(seconds):
        slept.append(seconds)
        raise _Stop()

    original = strategy_mod.time
    strategy_mod.time = types.SimpleNamespace(sleep=sleep, time=time.time, monotonic=time.monotonic)
    try:
        stub.target()
    except _Stop:
        pass
    finally:
        strategy_mod.time = original
    return slept


def check_latest(ctx, spec):
    nreg = spec['nreg']
    configured = spec['configured']
    nver = len(VERSIONS)
    mode = 'implicit' if configured is None else 'configured'
    # ---- reference model (from the spec only) -----------------------------------------------------------------------
    gens = [[0] * nver for _ in range(nreg)]
    published = [set() for _ in range(nreg)]
    cache = [None] * nreg

    def pick(r):
        if configured is not None:
            return (configured, gens[r][configured]) if gens[r][configured] else None
        live = [v for v in range(nver) if gens[r][v]]
        return (max(live), gens[r][max(live)]) if live else None

    classes = {'latest', f'latest:{mode}'}
    if nreg > 1:
        classes.add('latest:two-registries')
    plan = []  # (op, reg, arg, expectation)
    last_select_gens = [None] * nreg
    nontrivial = False
    warm = [None] * nreg  # what the selector held for a registry when it was shipped (until the copy's first select / tick)
    for op, r, arg in spec['ops']:
        if op == 'ship':
            # a copy starts like a fresh selector (it resolves the newest on its first select); one that carries the
            # cache over is fine too - as long as its refresher runs again (judged at the copy's first select)
            warm = list(cache)
            cache = [None] * nreg
            classes.add('latest:ship')
            if any(w is not None for w in warm):
                classes.add('latest:ship-used')
            plan.append((op, None, None, None))
            continue
        if op == 'publish':
            plan.append((op, r, arg, not published[r] or arg > max(published[r])))
            published[r].add(arg)
        elif op == 'commit':
            gens[r][arg] += 1
            plan.append((op, r, arg, None))
        elif op == 'select':
            if cache[r] is None:
                cache[r] = pick(r)
                if cache[r] is not None:
                    _classify_pick(classes, gens[r], published[r], cache[r], configured)
                elif configured is not None and configured in published[r]:
                    # a configured release without generations: the selector hands out a lazy handle (or raises) - not
                    # judged; but from now on this registry is being refreshed like any other
                    cache[r] = PENDING
            if cache[r] == PENDING:
                classes.add('latest:select-pending')
            elif cache[r] is None:
                classes.add('latest:select-empty')
            elif cache[r] != pick(r):
                classes.add('latest:stale-select')
            if last_select_gens[r] is not None and last_select_gens[r] != gens[r]:
                nontrivial = True
                classes.add('latest:commit-between-selects')
            last_select_gens[r] = list(gens[r])
            plan.append((op, r, arg, cache[r], None if warm[r] == PENDING else warm[r]))
            warm[r] = None
        else:
            warm = [None] * nreg
            for q in range(nreg):
                if cache[q] == PENDING:
                    if pick(q) is not None:
                        cache[q] = pick(q)
                        classes.add('latest:pending-resolved')
                        nontrivial = True
                elif cache[q] is not None:
                    new = pick(q)
                    if new != cache[q]:
                        classes.add('latest:refresh-moves')
                        if new[0] != cache[q][0]:
                            classes.add('latest:refresh-to-higher-release')
                        _classify_pick(classes, gens[q], published[q], new, configured)
                    cache[q] = new
            plan.append((op, None, None, any(c is not None for c in cache)))
    ctx.case(spec, nontrivial=nontrivial, classes=sorted(classes))

    # ---- execution against the real selector --------------------------------------------------------------------------
    base = tempfile.mkdtemp(prefix='latest-', dir=_workdir(ctx))
    stubs = []
    try:
        directories = [asset.Directory(posix.Registry(os.path.join(base, f'reg{r}'))) for r in range(nreg)]
        selector = _make_latest(spec, stubs)
        stats = runtime.Stats()
        selected = False
        for step, (op, r, arg, exp, *rest) in enumerate(plan):
            if op == 'ship':
                try:
                    selector = _ship(selector, stubs)
                except Exception as exc:
                    ctx.fail_exc(spec, 'latest-pickle-raises', exc, [mode])
                    return
                selected = False
                continue
            if op == 'publish':
                _publish(ctx, directories[r], LPROJECT, VERSIONS[arg], exp)
            elif op == 'commit':
                _commit(directories[r], LPROJECT, VERSIONS[arg])
            elif op == 'select' and exp == PENDING:
                try:
                    selector.select(directories[r], None, stats)
                except (asset.Level.Listing.Empty, asset.Level.Invalid):
                    continue
                except Exception as exc:
                    ctx.fail_exc(spec, 'latest-select-raises', exc, [mode, 'untrained-release'])
                    return
                if not selected:
                    selected = True
                    if not (stubs and stubs[-1].started == 1):
                        ctx.fail(spec, 'latest-refresher', 'not-started', 'refresher not started by the first select', [mode, 'untrained-release'])
                        return
            elif op == 'select':
                try:
                    got = selector.select(directories[r], None, stats)
                except (asset.Level.Listing.Empty, asset.Level.Invalid) as exc:
                    if exp is None:
                        continue  # no generation (Empty) or not even the project (Invalid) to select from: not judged
                    ctx.fail_exc(spec, 'latest-select-raises', exc, [mode])
                    return
                except Exception as exc:
                    if exp is None:
                        ctx.klass('latest:unjudged-empty')
                        return
                    ctx.fail_exc(spec, 'latest-select-raises', exc, [mode])
                    return
                if exp is None:
                    ctx.klass('latest:unjudged-empty')
                    return
                want = asset.Instance(LPROJECT, VERSIONS[exp[0]], exp[1], directories[r])
                try:
                    same = _same(got, want)
                except Exception as exc:
                    ctx.fail_exc(spec, 'latest-select', exc, [mode])
                    return
                carried = rest[0] if rest else None
                if not same and carried is not None and _same(got, asset.Instance(LPROJECT, VERSIONS[carried[0]], carried[1], directories[r])):
                    # the shipped copy answers from the cache it carried over: allowed, but then it has to keep refreshing
                    ctx.klass('latest:ship-warm')
                    if not (stubs and stubs[-1].started == 1):
                        ctx.fail(spec, 'latest-refresher', 'not-started-after-ship', f'step {step}: the shipped copy serves its carried-over {_describe(got)} and no refresher runs', [mode])
                    return
                if not same:
                    newest = pick_now(plan, step, nreg, nver, configured)[r]
                    tags = [mode]
                    text = _describe(got)
                    now = asset.Instance(LPROJECT, VERSIONS[newest[0]], newest[1], directories[r]) if newest else None
                    if now is not None and _same(got, now):
                        how = 'fresher-than-cached'  # resolved to what the registry holds now although no refresh ran
                    else:
                        how = 'wrong-instance'
                    ctx.fail(spec, 'latest-select', how, f'step {step}: expected {_describe(want)} got {text}', tags)
                    return
                if not selected:
                    selected = True
                    if not (stubs and stubs[-1].started == 1):
                        ctx.fail(spec, 'latest-refresher', 'not-started', 'refresher not started by the first select', [mode])
                        return
                elif stubs[-1].started != 1:
                    ctx.fail(spec, 'latest-refresher', 'restarted', f'refresher started {stubs[-1].started} times', [mode])
                    return
            else:
                if not exp or not stubs or not stubs[-1].started:
                    continue  # the refresher only runs once a select succeeded
                try:
                    slept = _tick(stubs[-1])
                except Exception as exc:
                    # an exception leaving the loop ends the refresher thread for good
                    ctx.fail_exc(spec, 'latest-refresh-raises', exc, [mode] + (['untrained-release'] if 'latest:select-pending' in classes else []))
                    return
                if slept != [spec['refresh']]:
                    ctx.fail(spec, 'latest-refresh', 'interval', f'refresh={spec["refresh"]} but the step slept {slept}', [mode])
                    return
    finally:
        strategy_mod.threading = threading
        strategy_mod.time = time
        shutil.rmtree(base, ignore_errors=True)
        _clear_caches()


def _classify_pick(classes, gens, published, picked, configured) -> None:
    if configured is not None:
        return
    if any(v > picked[0] and not gens[v] for v in published):
        classes.add('latest:empty-release-skipped')
    live = [v for v in range(len(gens)) if gens[v]]
    if len(live) > 1:
        classes.add('latest:several-live-releases')
        if max(live, key=lambda v: STRING_RANK[VERSIONS[v]]) != picked[0]:
            classes.add('latest:version-order')


def pick_now(plan, upto, nreg, nver, configured):
    """What an uncached pick would return per registry after executing plan[:upto+1] (for the failure description)."""
    gens = [[0] * nver for _ in range(nreg)]
    for op, r, arg, *_ in plan[: upto + 1]:
        if op == 'commit':
            gens[r][arg] += 1
    out = []
    for r in range(nreg):
        if configured is not None:
            out.append((configured, gens[r][configured]) if gens[r][configured] else None)
        else:
            live = [v for v in range(nver) if gens[r][v]]
            out.append((max(live), gens[r][max(live)]) if live else None)
    return out


# ---- Explicit ------------------------------------------------------------------------------------------------------------
explicit_spec = st.fixed_dictionaries(
    {
        'p': st.sampled_from(PROJECTS),
        'r': st.sampled_from(AB_RELEASES),
        'g': st.integers(1, AB_GENS),
        'gen_as': st.sampled_from(['int', 'str', 'key']),
        'regs': st.one_of(
            st.lists(st.just(0), min_size=1, max_size=4),
            st.lists(st.just(1), min_size=1, max_size=4),
            st.lists(st.integers(0, 1), min_size=2, max_size=6),
        ),
    }
)


def check_explicit(ctx, spec):
    regs = spec['regs']
    two = len(set(regs)) > 1
    ctx.case(spec, nontrivial=len(regs) >= 2, classes=['explicit'] + (['explicit:two-registries'] if two else []))
    directories = _ab_fixture(ctx)
    gen = {'int': spec['g'], 'str': str(spec['g']), 'key': asset.Generation.Key(spec['g'])}[spec['gen_as']]
    selector = application.Explicit(spec['p'], spec['r'], gen)
    stats = runtime.Stats()
    for i, r in enumerate(regs):
        want = asset.Instance(spec['p'], spec['r'], spec['g'], directories[r])
        try:
            got = selector.select(directories[r], None, stats)
            same = _same(got, want)
        except Exception as exc:
            ctx.fail_exc(spec, 'explicit-select-raises', exc)
            return
        if not same:
            other = asset.Instance(spec['p'], spec['r'], spec['g'], directories[1 - r])
            if _same(got, other):
                ctx.fail(
                    spec,
                    'explicit-select',
                    'other-registry',
                    f'select #{i} asked registry {r} but returned the instance bound to registry {1 - r}',
                    ['second-registry' if r != regs[0] else 'first-registry'],
                )
            else:
                ctx.fail(spec, 'explicit-select', 'wrong-instance', f'select #{i}: expected {_describe(want)} got {_describe(got)}')
            return


# ---- campaigns -------------------------------------------------------------------------------------------------------------
def campaigns(ctx):
    return [
        Campaign('abtest', abtest_spec(), check_abtest, 1300, 8000),
        Campaign('latest', latest_spec(), check_latest, 400, 1500),
        Campaign('explicit', explicit_spec, check_explicit, 150, 300),
        Campaign('pool', pool_spec(), check_pool, 30, 100),
    ]


GRID = [None, 0.1, 0.25, 0.5, 1, 2, 3]


def enumerate_extra(ctx, shard, nshards):
    """Every legal weight vector over GRID^k; the variants are the first k generations of one release."""
    ctx.campaign = 'abtest'
    kmax = 4 if ctx.tier == 'quick' else 5
    idx = 0
    count = 0
    for k in range(2, kmax + 1):
        for targets in itertools.product(GRID, repeat=k):
            if not legal(targets):
                continue
            idx += 1
            if idx % nshards != shard:
                continue
            combos = _COMBOS[:k]
            variants = [{'p': PROJECTS[p], 'r': AB_RELEASES[r], 'g': g, 't': t} for (p, r, g), t in zip(combos, targets)]
            check_abtest(ctx, {'variants': variants, 'n': 240 if k < 5 else 120, 'regs': [0], 'gen_as': 'int'})
            count += 1
    ctx.extra['grid_vectors_enumerated'] = ctx.extra.get('grid_vectors_enumerated', 0) + count
    ctx.extra['grid'] = f'all legal weight vectors over {GRID}^k for 2<=k<={kmax}'


LEVEL_TEXT = (
    'Generated-input search: thousands of A/B variant sets are served for up to 2000 requests each and the per-variant '
    'count is compared with an exact-rational reference normalisation at every prefix; all legal weight vectors over a '
    '7-value grid up to k=4 (quick) / k=5 (thorough) are enumerated; Latest is stepped through generated registry '
    'histories against a reference model with its refresh loop executed one iteration at a time; Explicit is checked on '
    'select sequences. Appropriate because the strategies are small deterministic state machines with a cheap exact '
    'oracle; the result is evidence over the sampled histories, exhaustive only inside the enumerated weight grid.'
)
LEVEL_NOTE = (
    'Trusted: reference normalisation and registry model in vf/checks/c17.py, the posix registry and asset directory '
    'used to build histories, Hypothesis. The refresh thread is replaced by a stub and its loop body run synchronously: '
    'timing and liveness of the real thread are not covered. Float targets are judged with tolerance 1e-6.'
)
TECHNIQUE = 'property-based testing (Hypothesis) vs reference model; exhaustive small-scope enumeration of weight vectors; model-based history stepping'
