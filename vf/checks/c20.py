"""C20 - configuration layering and provider lookup are deterministic.

Campaigns (all specs are JSON-able; every oracle is computed from the spec):
* config   - stacks of 1-4 nested mappings over generated defaults applied through ``Config(defaults, *paths)`` (generated
             TOML files, some missing), ``Config.read``, ``Config.update(mapping)``, ``update(**kwargs)`` and
             ``update(mapping, **kwargs)``; oracle = reference fold written from the property text.
* section  - layered [RUNNER]/[FEED] index and group sections resolved through ``setup.Runner`` / ``setup.Feed`` against
             the merged mapping; missing default or group section => ``forml.MissingError``.
* provider - generated provider modules on disk (fresh abstract root interface per case, two search packages, hidden
             alias-named modules, abstract intermediates, nested classes, alias collisions); **every** import order of
             the modules is executed, each in a forked child, either by explicit imports or by lazy bank loading.
"""
import itertools
import json
import os
import pathlib
import shutil
import sys

import tomli
from hypothesis import strategies as st

import forml
from forml import provider as provmod  # noqa: F401  pylint: disable=unused-import
from forml import setup
from forml.setup import _conf

from vf.core import ctx as ctxmod
from vf.core.hyp import Campaign
from vf.meta import iso, tomlw

ID = 'C20'
LEVEL = 'exploration'
RULE = (
    'Hypothesis-generated (1) config stacks: defaults plus 1-4 layers of nested mappings (scalars, lists, tables up to '
    'depth 3 over a small key pool so that keys overlap, incl. table/scalar/list type conflicts), each layer applied as '
    'a TOML file given to the constructor or read later, a missing file, update(mapping), update(**kwargs) or the second '
    'half of update(mapping, **kwargs); (2) layered RUNNER/FEED sections; (3) provider sets of 2-4 modules (quick; up to '
    '6 thorough) with 1-2 classes each over a fresh abstract root, executed for every permutation of the modules in a '
    'forked child. Non-trivial: stack with >=3 layers and a nested list merge or a type conflict; section stack with '
    '>=2 layers; provider set with an abstract intermediate or a collision. Distinct = distinct spec digest.'
)
ASSUMPTIONS = [
    'lists inside one source are duplicate free and hold only str/int/small-table elements (no bool/float, whose '
    'cross-type equality would make "duplicate" ambiguous)',
    'on a table/scalar/list type conflict at the same key the later source wins as a whole ("later sources override '
    'earlier ones key by key")',
    'a missing configuration file contributes no layer (documented in Config.read); unreadable/invalid files are not generated',
    'a generic option and an entry of the params table of one section never share a name',
    'alias collisions are generated only in the explicit-import mode between single-class modules: the first registered '
    'class keeps the alias, the later registration must raise; lookups of the rejected class itself are not judged '
    'beyond "no other class is returned"; an unknown reference that makes the bank re-import the rejected module may '
    'raise the collision error again instead of MissingError (counted, never a class)',
    'in lazy mode a module outside __all__ is only expected to be found through a reference that names it (alias equal to '
    'the module name, or the qualified name)',
    'hash-order variety of the bank search-path set comes from the per-case package names (forked children inherit the hash seed)',
]
FLOORS = {
    'config:conflict': 0.1,
    'config:list-merge': 0.1,
    'config:depth>=2-override': 0.07,
    'config:file': 0.1,
    'provider:abstract-mid': 0.0004,
    'provider:collision': 0.0006,
    'provider:lazy': 0.0008,
}
SHARDS_THOROUGH = 16

_COUNTER = [0]


def _scratch(ctx, prefix: str) -> pathlib.Path:
    _COUNTER[0] += 1
    base = pathlib.Path(ctx.scratch) / 'c20' / f'{prefix}{os.getpid()}_{_COUNTER[0]}'
    base.mkdir(parents=True, exist_ok=True)
    return base


# =====================================================================================================================
# (a) configuration layering
# =====================================================================================================================
_KEYS = ['a', 'b', 'c', 'd', 'k-1', 'x y', 'é']
_SCALARS = [0, 1, -2, 3, 0.5, -1.25, 1000.0, True, False, '', 'a', 'b', 'x y', 'é', 'a"b', 'C:\\x', 'l1\nl2']
_ELEMS = ['a', 'b', 'c', 'd', 'e', 1, 2, 3, {'n': 1}, {'n': 2}, {'m': 'a'}]
_VIA = ['file', 'update', 'file', 'file-late', 'update', 'kwargs', 'pair', 'missing-file', 'file-again', 'file-rewrite']


class Dice:
    """Deterministic decoder of a byte string into choices (Hypothesis draws only the bytes: one cheap draw per case;
    an exhausted buffer yields 0 = the simplest choice, so shorter/smaller buffers shrink towards simpler specs)."""

    def __init__(self, data: bytes):
        self._data = data
        self._pos = 0

    def pick(self, n: int) -> int:
        if self._pos >= len(self._data):
            return 0
        b = self._data[self._pos]
        self._pos += 1
        return b % n

    def choice(self, seq):
        return seq[self.pick(len(seq))]


def _dice_list(d: Dice) -> list:
    out = []
    for _ in range(d.pick(5)):
        e = d.choice(_ELEMS)
        if e not in out:
            out.append(e)
    return out


def _dice_value(d: Dice, depth: int):
    kind = d.pick(6 if depth > 0 else 4)  # 0,1 scalar; 2,3 list; 4,5 table
    if kind < 2:
        return d.choice(_SCALARS)
    if kind < 4:
        return _dice_list(d)
    return _dice_table(d, depth - 1)


def _dice_table(d: Dice, depth: int) -> dict:
    out = {}
    for _ in range(d.pick(4)):
        out[d.choice(_KEYS)] = _dice_value(d, depth)
    return out


def _dice_variant(d: Dice, tbl: dict, depth: int) -> dict:
    """A layer derived from an earlier one: most keys keep their type with a new value (so that overrides, list merges
    and recursion happen at every depth), some are omitted (must survive), some change type (conflict), some are new."""
    out = {}
    for k, v in tbl.items():
        r = d.pick(8)
        if r < 2:
            continue
        if r == 2:
            out[k] = _dice_value(d, depth)
        elif isinstance(v, dict):
            out[k] = _dice_variant(d, v, depth - 1)
        elif isinstance(v, list):
            out[k] = _dice_list(d)
        else:
            out[k] = d.choice(_SCALARS)
    for _ in range(d.pick(3)):
        out[d.choice(_KEYS)] = _dice_value(d, max(depth, 0))
    return out


def build_config_spec(data: bytes):
    d = Dice(data)
    nlayers = 1 + d.pick(4)
    defaults = _dice_table(d, 2)
    layers, prev = [], defaults
    for _ in range(nlayers):
        table = _dice_table(d, 2) if d.pick(4) == 0 else _dice_variant(d, prev if d.pick(2) else defaults, 2)
        layer = {'via': d.choice(_VIA), 'layout': d.choice(['sections', 'inline']), 'data': table}
        if layer['via'] in ('file-again', 'file-rewrite'):
            # the same source path once more: unchanged on top of what was layered in between, or with new content
            earlier = [i for i, l in enumerate(layers) if l['via'] in ('file', 'file-late')]
            if not earlier:
                layer['via'] = 'file'
            else:
                layer['of'] = earlier[d.pick(len(earlier))]
                if layer['via'] == 'file-again':  # whatever the path holds by now
                    holder = [l for l in layers if l.get('of') == layer['of'] and l['via'] == 'file-rewrite'] or [layers[layer['of']]]
                    layer['data'] = holder[-1]['data']
                    layer['layout'] = holder[-1]['layout']
        layers.append(layer)
        prev = table
    return {'defaults': defaults, 'layers': layers}


def config_spec():
    return st.binary(min_size=240, max_size=240).map(build_config_spec)


def is_table(v) -> bool:
    return isinstance(v, dict)


def is_list(v) -> bool:
    return isinstance(v, list)


def ref_merge(left: dict, right: dict, stats=None, depth: int = 1) -> dict:
    """The property text as a fold step: right wins per key at any depth, unrelated keys survive, lists new-first
    without duplicates."""
    out = dict(left)
    for k, rv in right.items():
        if k not in left:
            out[k] = rv
            continue
        lv = left[k]
        if is_table(lv) and is_table(rv):
            out[k] = ref_merge(lv, rv, stats, depth + 1)
        elif is_list(lv) and is_list(rv):
            out[k] = list(rv) + [x for x in lv if x not in rv]
            if stats is not None and lv and rv:
                stats.add('list-merge')
                if depth >= 2:
                    stats.add('nested-list-merge')
        else:
            out[k] = rv
            if stats is not None:
                if is_table(lv) != is_table(rv) or is_list(lv) != is_list(rv):
                    stats.add('conflict')
                if depth >= 2 and lv != rv:
                    stats.add('depth>=2-override')
    return out


def normal(v):
    """Config mapping -> plain dict/list tree (mapping proxies and tuples are representation, not content)."""
    if hasattr(v, 'keys') and hasattr(v, '__getitem__'):
        return {k: normal(v[k]) for k in v.keys()}
    if isinstance(v, (list, tuple)):
        return [normal(x) for x in v]
    return v


def typed_eq(a, b) -> bool:
    """Equality that does not confuse True/1/1.0."""
    if isinstance(a, dict) and isinstance(b, dict):
        return a.keys() == b.keys() and all(typed_eq(a[k], b[k]) for k in a)
    if isinstance(a, list) and isinstance(b, list):
        return len(a) == len(b) and all(typed_eq(x, y) for x, y in zip(a, b))
    return type(a) is type(b) and a == b


def first_diff(got, exp, path='') -> str:
    if isinstance(got, dict) and isinstance(exp, dict):
        for k in sorted(set(got) | set(exp)):
            if k not in got:
                return f'{path}/{k}: missing, expected {exp[k]!r}'
            if k not in exp:
                return f'{path}/{k}: unexpected {got[k]!r}'
            if not typed_eq(got[k], exp[k]):
                return first_diff(got[k], exp[k], f'{path}/{k}')
    return f'{path}: got {got!r} expected {exp!r}'


def classify_diff(got, exp) -> str:
    """Structural mismatch kind at the first differing position."""
    if isinstance(got, dict) and isinstance(exp, dict):
        for k in sorted(set(got) | set(exp)):
            if k not in got:
                return 'key-lost'
            if k not in exp:
                return 'key-invented'
            if not typed_eq(got[k], exp[k]):
                return classify_diff(got[k], exp[k])
    if isinstance(got, list) and isinstance(exp, list):
        canon = lambda xs: sorted(json.dumps(x, sort_keys=True) for x in xs)
        if canon(got) == canon(exp):
            return 'list-order'
        if len(set(canon(got))) < len(got):
            return 'list-duplicates'
        return 'list-content'
    if type(got) is not type(exp) and (isinstance(got, (dict, list)) or isinstance(exp, (dict, list))):
        return 'type-conflict-loser-kept'
    return 'value'


def write_layer(path: pathlib.Path, layer) -> None:
    text = tomlw.dumps(layer['data'], layer['layout'])
    if not typed_eq(tomli.loads(text), layer['data']):
        raise RuntimeError(f'harness TOML writer is wrong for {layer["data"]!r}:\n{text}')
    path.write_text(text, encoding='utf-8')


def apply_stack(spec, base: pathlib.Path):
    """Drive the real Config through the stack; returns the Config."""
    layers = spec['layers']
    files = []
    for i, layer in enumerate(layers):
        path = base / f'layer{i}.toml'
        if layer['via'] in ('file', 'file-late'):
            write_layer(path, layer)
        files.append(path)
    for i, layer in enumerate(layers):
        if 'of' in layer:
            files[i] = files[layer['of']]
    lead = 0
    while lead < len(layers) and layers[lead]['via'] in ('file', 'missing-file', 'file-again'):
        lead += 1
    cfg = _conf.Config(spec['defaults'], *files[:lead])
    i = lead
    while i < len(layers):
        via = layers[i]['via']
        if via == 'file-rewrite':
            write_layer(files[i], layers[i])
        if via in ('file', 'file-late', 'missing-file', 'file-again', 'file-rewrite'):
            cfg.read(files[i])
        elif via == 'update':
            cfg.update(layers[i]['data'])
        elif via == 'kwargs':
            cfg.update(**layers[i]['data'])
        elif via == 'pair':
            if i + 1 < len(layers) and layers[i + 1]['via'] not in ('file', 'file-late', 'missing-file', 'file-again', 'file-rewrite'):
                cfg.update(layers[i]['data'], **layers[i + 1]['data'])
                i += 1
            else:
                cfg.update(layers[i]['data'])
        i += 1
    return cfg


def expected_stack(spec, stats=None) -> dict:
    out = ref_merge({}, spec['defaults'])
    for layer in spec['layers']:
        if layer['via'] == 'missing-file':
            continue
        out = ref_merge(out, layer['data'], stats)
    return out


def check_config(ctx, spec):
    stats = set()
    expected = expected_stack(spec, stats)
    effective = [l for l in spec['layers'] if l['via'] != 'missing-file']
    vias = {l['via'] for l in spec['layers']}
    classes = ['config'] + [f'config:{s}' for s in sorted(stats)]
    classes += ['config:file'] if vias & {'file', 'file-late'} else []
    classes += ['config:same-path-again'] if vias & {'file-again', 'file-rewrite'} else []
    classes += ['config:kwargs'] if vias & {'kwargs', 'pair'} else []
    classes += ['config:missing-file'] if 'missing-file' in vias else []
    classes += ['config:layers>=3'] if len(effective) >= 3 else []
    ctx.case(spec, nontrivial=len(effective) >= 3 and bool(stats & {'nested-list-merge', 'conflict'}), classes=classes)
    base = _scratch(ctx, 'c')
    tags = sorted(stats & {'conflict', 'list-merge'})
    try:
        try:
            cfg = apply_stack(spec, base)
            got = normal(cfg)
        except RuntimeError as exc:
            if 'harness TOML writer' in str(exc):
                raise
            ctx.fail_exc(spec, 'config-raises', exc, tags)
            return
        except Exception as exc:
            ctx.fail_exc(spec, 'config-raises', exc, tags)
            return
    finally:
        shutil.rmtree(base, ignore_errors=True)
    if not typed_eq(got, expected):
        ctx.fail(spec, 'config-merge', classify_diff(got, expected), first_diff(got, expected), tags)


# ---- sections ------------------------------------------------------------------------------------------------------
_REFS = ['r1', 'r2', 'r3', 'dflt']
_PROVIDERS = ['dask', 'pyfunc', 'mod.sub:Cls', 'alchemy']


def _dice_group(d: Dice, feed: bool) -> dict:
    sec = {}
    if d.pick(2):
        sec['provider'] = d.choice(_PROVIDERS)
    if feed and d.pick(2):
        sec['priority'] = d.choice([0, 1, 2, 0.5, -1])
    for _ in range(d.pick(3)):
        sec[d.choice(['g1', 'g2', 'g3'])] = d.choice([1, 2, 'v', True, [1, 2]])
    if d.pick(3) == 1:
        sec['params'] = {d.choice(['p1', 'p2']): d.choice([10, 'pv', False]) for _ in range(d.pick(3))}
    return sec


def build_section_spec(data: bytes):
    d = Dice(data)
    layers = []
    for _ in range(1 + d.pick(3)):
        layer = {}
        runner = {}
        if d.pick(3) > 0:
            runner['default'] = d.choice(_REFS)
        for _ in range(d.pick(3)):
            runner[d.choice(_REFS)] = _dice_group(d, False)
        if runner:
            layer['RUNNER'] = runner
        feed = {}
        pick = d.pick(4)
        if pick == 1:
            feed['default'] = d.choice(_REFS)
        elif pick > 1:
            refs = []
            for _ in range(1 + d.pick(3)):
                r = d.choice(_REFS)
                if r not in refs:
                    refs.append(r)
            feed['default'] = refs
        for _ in range(d.pick(4)):
            feed[d.choice(_REFS)] = _dice_group(d, True)
        if feed:
            layer['FEED'] = feed
        layers.append({'data': layer, 'via': d.choice(['file', 'update']), 'layout': d.choice(['sections', 'inline'])})
    return {'layers': layers, 'explicit': d.choice([None, None, 'r1', None, 'r3', 'nope'])}


def section_spec():
    return st.binary(min_size=160, max_size=160).map(build_section_spec)


def expected_section(merged: dict, group: str, reference, feed: bool):
    """('missing', None) or ('ok', [reference, (priority,) params]) resolved from the merged mapping by the documented
    [INDEX] SELECTOR = reference / [GROUP.reference] scheme."""
    table = merged.get(group, {})
    sec = table.get(reference) if isinstance(table, dict) else None
    if not isinstance(sec, dict):
        return 'missing', None
    sec = dict(sec)
    name = str(sec.pop('provider', reference))
    priority = float(sec.pop('priority', 0)) if feed else None
    params = sec.pop('params', {})
    sec.update(params)
    return 'ok', ([name, priority, sec] if feed else [name, sec])


def check_section(ctx, spec):
    merged = {}
    for layer in spec['layers']:
        merged = ref_merge(merged, layer['data'])
    classes = ['section'] + (['section:layers>=2'] if len(spec['layers']) >= 2 else [])
    ctx.case(spec, nontrivial=len(spec['layers']) >= 2, classes=classes)
    base = _scratch(ctx, 's')
    saved = _conf.CONFIG
    try:
        cfg = _conf.Config({})
        for i, layer in enumerate(spec['layers']):
            if layer['via'] == 'file':
                write_layer(base / f'l{i}.toml', layer)
                cfg.read(base / f'l{i}.toml')
            else:
                cfg.update(layer['data'])
        _conf.CONFIG = cfg
        # ---- single reference section (runner)
        ref = spec['explicit'] or merged.get('RUNNER', {}).get('default')
        if isinstance(ref, str) and ref:
            exp = expected_section(merged, 'RUNNER', ref, False)
        else:
            exp = ('missing', None)
        _judge_section(ctx, spec, 'runner', lambda: setup.Runner.resolve(spec['explicit']), exp, lambda s: [s.reference, normal(s.params)])
        # ---- multi reference section (feeds)
        refs = spec['explicit'] or merged.get('FEED', {}).get('default')
        if isinstance(refs, str):
            refs = [refs]
        if not refs:
            exp = ('missing', None)
        else:
            parts = [expected_section(merged, 'FEED', r, True) for r in refs]
            if any(p[0] == 'missing' for p in parts):
                exp = ('missing', None)
            else:
                exp = ('ok', sorted((p[1] for p in parts), key=lambda e: json.dumps(e, sort_keys=True)))
        _judge_section(
            ctx,
            spec,
            'feed',
            lambda: setup.Feed.resolve(spec['explicit']),
            exp,
            lambda ss: sorted(([s.reference, s.priority, normal(s.params)] for s in ss), key=lambda e: json.dumps(e, sort_keys=True)),
        )
    finally:
        _conf.CONFIG = saved
        shutil.rmtree(base, ignore_errors=True)


def _judge_section(ctx, spec, tag, call, exp, observe):
    try:
        got = ('ok', observe(call()))
    except forml.MissingError:
        got = ('missing', None)
    except Exception as exc:
        ctx.fail_exc(spec, 'section-raises', exc, [tag])
        return
    if got[0] != exp[0]:
        ctx.fail(spec, 'section-resolve', f'{got[0]}-vs-{exp[0]}', f'got {got} expected {exp}', [tag])
    elif exp[0] == 'ok' and not typed_eq(got[1], exp[1]):
        ctx.fail(spec, 'section-resolve', 'content', f'got {got[1]} expected {exp[1]}', [tag])


# =====================================================================================================================
# (b) provider bank
# =====================================================================================================================
_ALIASES = ['a', 'b', 'c', 'x1', 'Prov', 'my-prov', 'zed']


@st.composite
def provider_spec(draw, maxmods: int):
    mode = draw(st.sampled_from(['explicit', 'lazy']))
    nmods = draw(st.integers(2, maxmods))
    collide = mode == 'explicit' and draw(st.integers(0, 9)) < 7
    ncoll = draw(st.integers(2, min(3, nmods))) if collide else 0
    aliases = list(draw(st.permutations(_ALIASES)))
    calias = aliases.pop() if collide else None
    # forml's own providers all call their class just Runner / Feed / Registry: colliders may share the class name too
    samename = collide and draw(st.booleans())
    modules, classes = [], []  # classes: flat list, a class refers to its base by flat index
    for mi in range(nmods):
        pkg = draw(st.sampled_from(['pa', 'pb']))
        if mi < ncoll:  # a collider: single concrete class straight under the root
            modules.append({'pkg': pkg, 'name': f'm{mi}', 'listed': True})
            classes.append({'name': f'P{len(classes)}', 'mod': mi, 'base': None, 'impl': 'concrete', 'alias': calias, 'nested': False})
            if samename:
                classes[-1]['py'] = 'Provider'
            continue
        hidden = draw(st.integers(0, 4)) == 0
        first = len(classes)
        nclasses = draw(st.integers(1, 2))
        hidden_alias = None
        for ci in range(nclasses):
            candidates = [None] + [i for i, c in enumerate(classes) if c['alias'] != calias or calias is None]
            base = draw(st.sampled_from(candidates))
            base = draw(st.sampled_from([None, base, base]))
            impl = draw(st.sampled_from(['concrete', 'concrete', 'concrete', 'abstract', 'abstract', 'inherit', 'inner-abstract']))
            alias = None
            concrete = impl == 'concrete' or (impl == 'inherit' and base is not None and not _unimplemented(classes, base))
            if concrete and aliases and draw(st.integers(0, 3)) > 0:
                if not hidden:
                    alias = aliases.pop()
                elif hidden_alias is None:  # a hidden module is reachable by the alias that names it (one class only)
                    alias = hidden_alias = aliases.pop()
            classes.append({'name': f'P{len(classes)}', 'mod': mi, 'base': base, 'impl': impl, 'alias': alias, 'nested': draw(st.integers(0, 4)) == 0})
        name = hidden_alias if hidden and hidden_alias and hidden_alias.isidentifier() else f'm{mi}'
        listed = not hidden
        if hidden and name == f'm{mi}':  # no usable alias: keep the module hidden but strip aliases (qualified names only)
            for c in classes[first:]:
                c['alias'] = None
        modules.append({'pkg': pkg, 'name': name, 'listed': listed})
    unknown = draw(st.lists(st.sampled_from(['zz_unknown', 'P0', 'Root', 'm0', 'nomod_zz:X', 'nopkg_zz.sub:X', 'nopkg_zz.sub.deep:X', '@pa.nosub_zz.m:X', '@pa.m0:Nope', '@pa.m_none:X', '@root:Root', '@pb.m1:P0']), min_size=1, max_size=3, unique=True))
    return {'mode': mode, 'modules': modules, 'classes': classes, 'unknown': unknown}


def _unimplemented(classes, idx) -> set:
    """Names of the abstract methods still open on class ``idx`` (the root interface contributes 'work')."""
    c = classes[idx]
    inherited = {'work'} if c['base'] is None else _unimplemented(classes, c['base']) - {'<inner>'}
    if c['impl'] == 'concrete':
        return set()
    if c['impl'] == 'inner-abstract':
        # implements every method but declares an abstract *inner* class: abstract by forml's documented notion
        # (provider.isabstract "also considers any inner classes"); not inherited by subclasses
        return {'<inner>'}
    if c['impl'] == 'abstract':
        return inherited | {f"am_{c['name']}"}
    return inherited


def _qualname(c) -> str:
    return f"Holder_{c['name']}.{c['name']}" if c['nested'] else c.get('py', c['name'])


def _modname(case: str, spec, mi: int) -> str:
    m = spec['modules'][mi]
    return f"{case}.{m['pkg']}.{m['name']}"


def _ancestors(classes, idx) -> list:
    out = []
    while idx is not None:
        out.append(idx)
        idx = classes[idx]['base']
    return out


def render_module(case: str, spec, mi: int) -> str:
    classes = spec['classes']
    lines = ['import abc', '', f'from {case}.root import Root']
    mine = [i for i, c in enumerate(classes) if c['mod'] == mi]
    imports = set()
    for i in mine:
        b = classes[i]['base']
        if b is not None and classes[b]['mod'] != mi:
            imports.add((_modname(case, spec, classes[b]['mod']), _qualname(classes[b]).split('.')[0]))
    lines += [f'from {mod} import {name}' for mod, name in sorted(imports)]
    for i in mine:
        c = classes[i]
        base = 'Root' if c['base'] is None else _qualname(classes[c['base']])
        kw = f", alias={c['alias']!r}" if c['alias'] else ''
        ind = ''
        lines += ['', '']
        if c['nested']:
            lines += [f"class Holder_{c['name']}:"]
            ind = '    '
        lines += [f"{ind}class {c['name'] if c['nested'] else c.get('py', c['name'])}({base}{kw}):", f"{ind}    MARK = {c['name']!r}"]
        if c['impl'] == 'abstract':
            lines += [f'{ind}    @abc.abstractmethod', f"{ind}    def am_{c['name']}(self):", f'{ind}        ...']
        elif c['impl'] in ('concrete', 'inner-abstract'):
            if c['impl'] == 'inner-abstract':
                lines += [f'{ind}    class Inner(abc.ABC):', f'{ind}        @abc.abstractmethod', f'{ind}        def open(self):', f'{ind}            ...']
            inherited = {'work'} if c['base'] is None else _unimplemented(classes, c['base']) - {'<inner>'}
            for meth in sorted(inherited | {'work'}):
                lines += [f'{ind}    def {meth}(self):', f"{ind}        return {c['name']!r}"]
    return '\n'.join(lines) + '\n'


def write_case(base: pathlib.Path, case: str, spec) -> None:
    root = base / case
    for pkg in ('pa', 'pb'):
        (root / pkg).mkdir(parents=True)
    (root / '__init__.py').write_text('')
    for mi, m in enumerate(spec['modules']):
        (root / m['pkg'] / f"{m['name']}.py").write_text(render_module(case, spec, mi))


_ROOT_TMPL = '''import abc

from forml import provider


class Root(provider.Service, path={path!r}):
    @abc.abstractmethod
    def work(self):
        ...
'''


def _provider_child(base: str, case: str, spec, order) -> dict:
    """Forked child: finish the package for this order, import / look up, report what every reference resolved to."""
    import importlib

    root = pathlib.Path(base) / case
    lazy = spec['mode'] == 'lazy'
    pkgs = []
    for mi in order:  # search-path order follows the permutation as well
        if spec['modules'][mi]['pkg'] not in pkgs:
            pkgs.append(spec['modules'][mi]['pkg'])
    pkgs += [p for p in ('pa', 'pb') if p not in pkgs]
    for pkg in ('pa', 'pb'):
        listed = [spec['modules'][mi]['name'] for mi in order if spec['modules'][mi]['pkg'] == pkg and spec['modules'][mi]['listed']]
        (root / pkg / '__init__.py').write_text(f'__all__ = {listed!r}\n' if lazy else '')
    (root / 'root.py').write_text(_ROOT_TMPL.format(path=[f'{case}.{p}' for p in pkgs]))
    sys.path.insert(0, base)
    importlib.invalidate_caches()
    rootcls = importlib.import_module(f'{case}.root').Root
    out = {'imports': {}, 'lookups': []}
    if not lazy:
        for mi in order:
            try:
                importlib.import_module(_modname(case, spec, mi))
                out['imports'][str(mi)] = 'ok'
            except Exception as exc:  # pylint: disable=broad-except
                out['imports'][str(mi)] = f'{type(exc).__name__}|{int(isinstance(exc, forml.UnexpectedError))}|{str(exc)[:200]}'

    def observe(owner, via, ref):
        rec = {'via': via, 'ref': ref}
        try:
            cls = owner[ref]
        except forml.MissingError:
            rec['got'] = 'missing'
        except Exception as exc:  # pylint: disable=broad-except
            rec['got'] = f'exc:{type(exc).__name__}@{ctxmod.forml_frame(exc)}'
            rec['msg'] = str(exc)[:200]
        else:
            rec['got'] = f'cls:{cls.__module__}:{cls.__qualname__}'
            module = sys.modules.get(cls.__module__)
            obj = module
            for part in cls.__qualname__.split('.'):
                obj = getattr(obj, part, None)
            rec['same_object'] = obj is cls
            rec['mark'] = cls.__dict__.get('MARK')
        out['lookups'].append(rec)

    for via, ref in lookups(case, spec, order):
        if via == 'Root':
            observe(rootcls, via, ref)
        else:
            modname, qual = via.split(':')
            obj = sys.modules.get(modname)
            for part in qual.split('.'):
                obj = getattr(obj, part, None)
            if obj is not None:
                observe(obj, via, ref)
    return out


def lookups(case: str, spec, order) -> list:
    """(via, reference) pairs in an order that follows the module permutation."""
    classes = spec['classes']
    pos = {mi: k for k, mi in enumerate(order)}
    refs = []
    for i in sorted(range(len(classes)), key=lambda i: (pos[classes[i]['mod']], i)):
        c = classes[i]
        if c['alias']:
            refs.append(('Root', c['alias']))
        refs.append(('Root', f"{_modname(case, spec, c['mod'])}:{_qualname(c)}"))
    unknown = [('Root', u.replace('@', f'{case}.')) for u in spec['unknown']]
    k = order[0] % (len(refs) + 1)  # unknown references interleaved at an order dependent position
    refs = refs[:k] + unknown + refs[k:]
    if spec['mode'] == 'explicit':  # lookups through intermediates once everything is imported
        colliders = _colliders(spec)
        parents = sorted({c['base'] for c in classes if c['base'] is not None})
        for p in parents:
            via = f"{_modname(case, spec, classes[p]['mod'])}:{_qualname(classes[p])}"
            for i, c in enumerate(classes):
                if i in colliders:
                    continue
                if c['alias']:
                    refs.append((via, c['alias']))
                refs.append((via, f"{_modname(case, spec, c['mod'])}:{_qualname(c)}"))
    return refs


def _colliders(spec) -> list:
    classes = spec['classes']
    seen = {}
    for i, c in enumerate(classes):
        if c['alias']:
            seen.setdefault(c['alias'], []).append(i)
    return sorted(i for group in seen.values() if len(group) > 1 for i in group)


def expected_lookups(case: str, spec, order) -> dict:
    """(via, ref) -> ('cls', 'module:qualname') | ('missing',) | ('open', rejected 'module:qualname')."""
    classes = spec['classes']
    ident = lambda i: f"{_modname(case, spec, classes[i]['mod'])}:{_qualname(classes[i])}"
    concrete = [not _unimplemented(classes, i) for i in range(len(classes))]
    colliders = _colliders(spec)
    winner = min(colliders, key=lambda i: order.index(classes[i]['mod'])) if colliders else None
    exp = {}
    for via, ref in lookups(case, spec, order):
        owner = None
        if via != 'Root':
            owner = next(i for i in range(len(classes)) if ident(i) == via)
        target = None
        for i, c in enumerate(classes):
            if ref == ident(i) or (c['alias'] is not None and ref == c['alias'] and (i not in colliders or i == winner)):
                target = i
        if target is None:
            exp[(via, ref)] = ('missing',)
        elif target in colliders and target != winner:
            exp[(via, ref)] = ('open', ident(target))  # the rejected registration: only "no other class" is judged
        elif not concrete[target] or (owner is not None and owner not in _ancestors(classes, target)):
            exp[(via, ref)] = ('missing',)
        else:
            exp[(via, ref)] = ('cls', ident(target))
    return exp


def check_provider(ctx, spec):
    classes, modules = spec['classes'], spec['modules']
    colliders = _colliders(spec)
    abstract_mid = any(c['base'] is not None and _unimplemented(classes, c['base']) for c in classes)
    orders = [list(p) for p in itertools.permutations(range(len(modules)))]
    kinds = ['provider', f"provider:{spec['mode']}", f'provider:modules={len(modules)}']
    kinds += ['provider:collision'] if colliders else []
    kinds += ['provider:abstract-mid'] if abstract_mid else []
    kinds += ['provider:concrete-mid'] if any(c['base'] is not None and not _unimplemented(classes, c['base']) for c in classes) else []
    kinds += ['provider:abstract'] if any(_unimplemented(classes, i) for i in range(len(classes))) else []
    kinds += ['provider:nested'] if any(c['nested'] for c in classes) else []
    kinds += ['provider:hidden-module'] if any(not m['listed'] for m in modules) else []
    kinds += ['provider:cross-module-base'] if any(c['base'] is not None and classes[c['base']]['mod'] != c['mod'] for c in classes) else []
    ctx.case(spec, nontrivial=bool(colliders) or abstract_mid, classes=kinds)
    base = _scratch(ctx, 'p')
    case = f'c20_{ctxmod.digest(spec)}'
    tags = [spec['mode']]
    try:
        write_case(base, case, spec)
        for order in orders:
            ctx.extra['provider_orders_executed'] = ctx.extra.get('provider_orders_executed', 0) + 1
            res = iso.forked(_provider_child, str(base), case, spec, order)
            if '__child_error__' in res:
                raise RuntimeError(f"provider child failed: {res['__child_error__']}\n{res.get('traceback')}")
            if _judge_order(ctx, spec, case, order, res, colliders, tags):
                return  # one report per set is enough
    finally:
        shutil.rmtree(base, ignore_errors=True)


def _judge_order(ctx, spec, case, order, res, colliders, tags) -> bool:
    classes = spec['classes']
    where = f'order={order}'
    if spec['mode'] == 'explicit':
        winner = min(colliders, key=lambda i: order.index(classes[i]['mod'])) if colliders else None
        losers = {classes[i]['mod'] for i in colliders if i != winner}
        for mi in order:
            status = res['imports'][str(mi)]
            if mi in losers and status == 'ok':
                ctx.fail(spec, 'provider-collision', 'not-rejected', f'{where}: module {mi} re-registers alias {classes[colliders[0]]["alias"]!r} without an error', tags)
                return True
            if mi not in losers and status != 'ok':
                ctx.fail(spec, 'provider-import', 'raises:' + status.split('|')[0], f'{where}: import of module {mi}: {status}', tags + (['collision-set'] if colliders else []))
                return True
    expected = expected_lookups(case, spec, order)
    for rec in res['lookups']:
        exp = expected[(rec['via'], rec['ref'])]
        via = 'root' if rec['via'] == 'Root' else 'intermediate'
        kind_of_ref = 'qualified' if ':' in rec['ref'] else 'alias'
        got = rec['got']
        detail = f"{where}: {rec['via']}[{rec['ref']!r}] -> {got} {rec.get('msg', '')} expected {exp}".replace(case, '<case>')
        if exp[0] == 'open':
            if got.startswith('cls:') and got[4:] != exp[1]:
                ctx.fail(spec, 'provider-lookup', 'other-class-for-rejected', detail, tags + [via, kind_of_ref])
                return True
            continue
        if exp[0] == 'missing':
            if got.startswith('cls:'):
                abstract = any(got[4:] == f"{_modname(case, spec, c['mod'])}:{_qualname(c)}" and _unimplemented(classes, i) for i, c in enumerate(classes))
                ctx.fail(spec, 'provider-unknown', 'abstract-returned' if abstract else 'some-provider-returned', detail, tags + [via, kind_of_ref])
                return True
            if got != 'missing':
                if colliders and got.startswith('exc:UnexpectedError@'):
                    # the lookup re-imports the module whose registration was rejected and the rejection surfaces again
                    ctx.klass('provider:collision-resurfaced-on-unknown')
                    continue
                ctx.fail(spec, 'provider-unknown', 'not-missing-error:' + got[4:], detail, tags + [via, kind_of_ref])
                return True
            continue
        if got != f'cls:{exp[1]}':
            kind = 'wrong-class' if got.startswith('cls:') else ('missing' if got == 'missing' else 'raises:' + got[4:])
            ctx.fail(spec, 'provider-lookup', kind, detail, tags + [via, kind_of_ref] + (['collision-set'] if colliders else []))
            return True
        marks = {f"{_modname(case, spec, c['mod'])}:{_qualname(c)}": c['name'] for c in classes}
        if not rec.get('same_object') or rec.get('mark') != marks[exp[1]]:
            ctx.fail(spec, 'provider-lookup', 'not-the-module-class-object', detail + f" same_object={rec.get('same_object')} mark={rec.get('mark')}", tags + [via, kind_of_ref])
            return True
    return False


def campaigns(ctx):
    thorough = ctx.tier == 'thorough'
    return [
        Campaign('config', config_spec(), check_config, 4000, 4000),
        Campaign('section', section_spec(), check_section, 800, 800),
        Campaign('provider', provider_spec(6 if thorough else 4), check_provider, 50, 40),
    ]


LEVEL_TEXT = (
    'Generated-input search: thousands of configuration stacks per run are folded by a reference merge written from the '
    'property text and compared with the resulting Config; dozens of generated provider module sets are imported in '
    'every permutation (each in a forked child, explicit imports or lazy bank loading) and every alias / qualified / '
    'unknown reference is resolved and compared with the spec. Evidence over the sampled shapes, not a proof.'
)
LEVEL_NOTE = (
    'Trusted: the reference fold, section resolver and provider-set oracle in vf/checks/c20.py, the TOML writer in '
    'vf/meta/tomlw.py (self-checked against tomli per file), Hypothesis, fork isolation. The global provider BANK is '
    'never touched: each case declares its own abstract root interface in a scratch package.'
)
TECHNIQUE = 'property-based testing (Hypothesis) vs reference fold; exhaustive import-order enumeration per generated provider set in forked children'

# coverage-guided (atheris) pass of the thorough tier: (campaign, libFuzzer runs, instrumented module prefixes)
FUZZ = [('config', 30000, ['forml.setup'])]
