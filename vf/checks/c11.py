"""C11 - graph construction keeps topology invariants under any call sequence.

A case is a *call history*: an initial universe of nodes plus a JSON list of abstract ops (arguments are integers taken
modulo the current universe). The history is executed step by step against

1. the real graph through the public ``forml.flow`` API (``node[i].subscribe(pub[j])``, ``worker.train``, ``fork``,
   ``Future``, ``Segment``/``extend``/``copy``, ``Trunk``/``extend``/``use``, ``Composition``) and
2. an abstract model (``vf.graphx.model``: input port -> publisher, trained flags, groups, transparent placeholders)
   that decides *from the property text* whether the call is legal.

After every step: the five invariants are read from the public accessors; a call the model deems illegal must raise
``flow.TopologyError`` and leave every accessor value unchanged; a legal call must succeed and the worker->worker
connections, subscribed ports, trained/derived flags and groups must equal the model's direct wiring.

Campaigns: ``history`` (all shapes), ``clean`` (the trigger shapes of the recorded findings are not generated, so the
search continues behind them), ``perm`` (one set of <=5 subscribe calls over workers and placeholders executed in
several / all orders on fresh universes; final connections must agree with the order-independent direct wiring).
"""
import itertools

from forml import flow
from hypothesis import strategies as st

from vf.core.hyp import Campaign
from vf.graphx import interp
from vf.graphx.model import Model

ID = 'C11'
LEVEL = 'exploration'
RULE = (
    'Hypothesis-generated call histories: an initial universe of 2-6 nodes (stateful/stateless workers of shape <=2x2, '
    'placeholders) and <=25 abstract calls (subscribe, train, fork, new worker/future, Segment, extend, copy, Trunk, '
    'trunk extend/use, Composition, retry of an earlier call) with integer arguments taken modulo the current universe; '
    'plus sets of <=5 subscribe calls executed in several (thorough: all) orders. Every prefix is compared with an '
    'abstract graph model. Non-trivial: a history with >=1 rejected call followed by a successful one, or with a '
    'connection resolved through >=2 chained placeholders. Distinct = distinct spec digest.'
)
ASSUMPTIONS = [
    'port indexes stay inside the node shape, Segment heads have <=1 input port, extend/composition only joins a '
    'single-output tail to a single-input head, train is only called on stateful workers (documented call domain)',
    'placeholders are square (Future(n, n), n in 1..2): input port i of a placeholder feeds its output port i',
    'the process-global Subscription._PORTS registry is emptied before every case (fresh universe = fresh process)',
    'placeholders are transparent: a further publisher registered on a placeholder port is neither required nor '
    'forbidden as long as no worker port ends up with two worker publishers (forml\'s own test fixtures share one '
    'placeholder as train and label head); the call that completes a double connection is the illegal one',
    'not judged (the property does not fix them): a trained worker wired to a dangling placeholder, placeholder-only '
    'cycles (only "no exception other than TopologyError" is required afterwards), ambiguous/wide/disconnected tails, '
    'copy of a segment ending in a placeholder, a composition whose only placeholder is the (ignored) tail node',
]
FLOORS = {
    'has:rejected-then-ok': 0.15,
    'has:future-chain': 0.002,
    'has:refused-train-label': 0.01,
    'op:illegal': 0.22,
    'op:segment-ok': 0.1,
    'perm:all-legal': 0.003,
}
SHARDS_THOROUGH = 16

# ---- generators ------------------------------------------------------------------------------------------------------
_K = st.integers(0, 11)
_P = st.integers(0, 1)
_REF = st.one_of(st.none(), st.tuples(st.sampled_from(['n', 'n', 's']), _K).map(list))
_REF1 = st.tuples(st.sampled_from(['n', 's']), _K).map(list)
_KINDS = (
    ['subscribe'] * 32
    + ['train'] * 8
    + ['fork'] * 5
    + ['future'] * 4
    + ['worker'] * 2
    + ['segment'] * 9
    + ['extend'] * 8
    + ['copy'] * 5
    + ['trunk'] * 8
    + ['textend'] * 7
    + ['tuse'] * 2
    + ['composition'] * 6
    + ['retry'] * 4
)


@st.composite
def node_spec(draw, futures=0.3):
    if draw(st.integers(0, 99)) < futures * 100:
        return {'k': 'f', 'sz': draw(st.sampled_from([1, 1, 1, 2]))}
    i, o = draw(st.sampled_from([(1, 1)] * 6 + [(2, 1), (1, 2), (2, 2), (0, 1), (1, 0), (0, 2)]))
    return {'k': 'w', 'st': draw(st.booleans()), 'i': i, 'o': o}


@st.composite
def op_spec(draw, kinds=None):
    kind = draw(st.sampled_from(kinds or _KINDS))
    if kind == 'subscribe':
        return {
            'op': kind,
            'sub': draw(_K),
            'sport': draw(_P),
            'pub': draw(_K),
            'pport': draw(_P),
            'sk': draw(st.sampled_from('aaaawf')),
            'pk': draw(st.sampled_from('aaaawff')),
        }
    if kind == 'train':
        return {'op': kind, 'w': draw(_K), 'pubT': [draw(_K), draw(_P)], 'pubL': [draw(_K), draw(_P)]}
    if kind == 'fork':
        return {'op': kind, 'w': draw(_K)}
    if kind == 'future':
        return {'op': kind, 'sz': draw(st.sampled_from([0, 0, 0, 1]))}
    if kind == 'worker':
        return {'op': kind, 'st': draw(st.booleans()), 'i': draw(st.integers(0, 2)), 'o': draw(st.integers(0, 2))}
    if kind == 'segment':
        return {'op': kind, 'head': draw(_K), 'tail': draw(st.one_of(st.none(), st.none(), _K))}
    if kind == 'extend':
        return {'op': kind, 'seg': draw(_K), 'right': draw(_REF), 'tail': draw(st.one_of(st.none(), st.none(), st.none(), _K))}
    if kind == 'copy':
        return {'op': kind, 'seg': draw(_K)}
    if kind == 'trunk':
        return {'op': kind, 'apply': draw(_REF), 'train': draw(_REF), 'label': draw(_REF)}
    if kind == 'tuse':
        return {'op': kind, 'trunk': draw(_K), 'apply': draw(_REF), 'train': draw(_REF), 'label': draw(_REF)}
    if kind == 'textend':
        refs = [draw(st.one_of(st.none(), _REF1)) for _ in range(3)]
        return {'op': kind, 'trunk': draw(_K), 'apply': refs[0], 'train': refs[1], 'label': refs[2]}
    if kind == 'composition':
        return {'op': kind, 'trunks': draw(st.lists(_K, min_size=1, max_size=3))}
    return {'op': 'retry', 'of': draw(_K)}


def history_spec(clean: bool):
    return st.fixed_dictionaries(
        {
            'nodes': st.lists(node_spec(), min_size=2, max_size=6),
            'ops': st.lists(op_spec(), min_size=3, max_size=25),
            'clean': st.just(clean),
        }
    )


def group_history_spec():
    """Histories about worker groups: a two-output publisher, a stateful worker and a few forks of it being trained (and
    refused) in any order - rare in the wide campaign, where forks of one group seldom meet two training calls."""
    fixed = [{'k': 'w', 'st': False, 'i': 0, 'o': 2}, {'k': 'w', 'st': True, 'i': 1, 'o': 1}]
    kinds = ['fork', 'fork', 'train', 'train', 'train', 'subscribe', 'retry']
    return st.fixed_dictionaries(
        {
            'nodes': st.lists(node_spec(futures=0.2), min_size=0, max_size=2).map(lambda extra: fixed + extra),
            'ops': st.lists(op_spec(kinds), min_size=3, max_size=10),
            'clean': st.just(False),
        }
    )


def loop_history_spec():
    """Histories over very few nodes - one or two workers and one or two placeholders - so that wiring a worker back to
    itself through placeholders (in any call order) is the common case rather than the rare one."""
    fixed = [{'k': 'w', 'st': False, 'i': 1, 'o': 1}, {'k': 'f', 'sz': 1}]
    extra = st.lists(st.sampled_from([{'k': 'f', 'sz': 1}, {'k': 'w', 'st': False, 'i': 2, 'o': 1}, {'k': 'w', 'st': True, 'i': 1, 'o': 1}]), max_size=2)
    kinds = ['subscribe'] * 6 + ['segment', 'retry']
    return st.fixed_dictionaries(
        {
            'nodes': extra.map(lambda more: fixed + more),
            'ops': st.lists(op_spec(kinds), min_size=2, max_size=8),
            'clean': st.just(False),
        }
    )


def multiedge_history_spec():
    """Histories about nodes joined by more than one port pair (a 1:2 splitter feeding both inputs of a 2:1 merger, straight
    or crossed) being traced and copied."""
    fixed = [{'k': 'w', 'st': False, 'i': 1, 'o': 2}, {'k': 'w', 'st': False, 'i': 2, 'o': 1}]
    kinds = ['subscribe', 'subscribe', 'subscribe', 'segment', 'segment', 'copy', 'copy', 'retry']
    return st.fixed_dictionaries(
        {
            'nodes': st.lists(node_spec(futures=0.2), min_size=0, max_size=2).map(lambda extra: fixed + extra),
            'ops': st.lists(op_spec(kinds), min_size=4, max_size=10),
            'clean': st.just(False),
        }
    )


@st.composite
def diamond_history_spec(draw):
    """Histories that begin by wiring a fan-out/fan-in (a 1:2 splitter, two branches of one or two workers, a 2:1 merger,
    straight or crossed, the subscribe calls in any order), trace it head-to-tail and copy it; then free calls. Sibling
    branches between one head and one tail are what a path-wise segment copy has to get right (seeded change C11-8)."""
    w11 = lambda: {'k': 'w', 'st': draw(st.booleans()), 'i': 1, 'o': 1}  # noqa: E731
    long = draw(st.booleans())
    cross = int(draw(st.booleans()))
    nodes = [{'k': 'w', 'st': False, 'i': 1, 'o': 2}, w11(), w11(), {'k': 'w', 'st': False, 'i': 2, 'o': 1}] + ([w11()] if long else [])
    nodes += draw(st.lists(node_spec(futures=0.2), max_size=1))

    def sub(s, sp, pub, pp):
        return {'op': 'subscribe', 'sub': s, 'sport': sp, 'pub': pub, 'pport': pp, 'sk': 'a', 'pk': 'a'}

    wires = [sub(1, 0, 0, 0), sub(2, 0, 0, 1), sub(3, 1 - cross, 2, 0)]
    wires += [sub(4, 0, 1, 0), sub(3, cross, 4, 0)] if long else [sub(3, cross, 1, 0)]
    wires = list(draw(st.permutations(wires)))
    kinds = ['subscribe', 'segment', 'segment', 'copy', 'copy', 'extend', 'retry']
    ops = wires + [{'op': 'segment', 'head': 0, 'tail': 3}, {'op': 'copy', 'seg': 0}] + draw(st.lists(op_spec(kinds), max_size=5))
    return {'nodes': nodes, 'ops': ops, 'clean': False}


@st.composite
def perm_spec(draw, all_orders: bool):
    """A wiring of workers through placeholders drawn constructively so that most call sets are entirely legal."""
    nw = draw(st.integers(2, 4))
    nf = draw(st.integers(1, 3))
    nodes = [
        {'k': 'w', 'st': draw(st.booleans()), 'i': draw(st.sampled_from([1, 1, 2])), 'o': draw(st.sampled_from([1, 1, 2]))}
        for _ in range(nw)
    ] + [{'k': 'f', 'sz': 1} for _ in range(nf)]
    calls = []
    strict = draw(st.integers(0, 9)) < 7  # mostly acyclic-by-construction placeholder chains
    fed = []
    for f in range(nf):
        if draw(st.integers(0, 9)) < 8:
            if f and draw(st.integers(0, 9)) < 6:
                up = nw + (draw(st.integers(0, f - 1)) if strict else draw(st.integers(0, nf - 1)))
                calls.append({'op': 'subscribe', 'sub': nw + f, 'sport': 0, 'pub': up, 'pport': 0})
            else:
                calls.append({'op': 'subscribe', 'sub': nw + f, 'sport': 0, 'pub': draw(st.integers(0, nw - 1)), 'pport': draw(_P)})
            fed.append(nw + f)
    for _ in range(draw(st.integers(1, 5 - len(calls)))):
        sub = draw(st.integers(0, nw - 1))
        if fed and draw(st.integers(0, 9)) < 6:
            pub = fed[-1] if draw(st.booleans()) else draw(st.sampled_from(fed))
        else:
            pub = draw(st.integers(0, nw + nf - 1))
        calls.append({'op': 'subscribe', 'sub': sub, 'sport': draw(_P), 'pub': pub, 'pport': draw(_P)})
    calls = list(draw(st.permutations(calls)))
    n = len(calls)
    if all_orders:
        orders = 'all'
    else:
        orders = [list(range(n)), list(range(n))[::-1]] + [draw(st.permutations(list(range(n)))) for _ in range(3)]
    return {'nodes': nodes, 'calls': calls, 'orders': orders}


# ---- execution -----------------------------------------------------------------------------------------------------------
def _first_words(exc) -> str:
    return ' '.join(str(exc).split()[:2])


def _diff(before, after):
    out = []
    for i, (b, a) in enumerate(zip(before, after)):
        if b != a:
            out.append(f'node {i}: {b} -> {a}')
    if len(after) != len(before):
        out.append(f'node count {len(before)} -> {len(after)}')
    return '; '.join(out)


def _avoided(exp: interp.Expect) -> bool:
    """Trigger shapes of the recorded findings (not generated by the ``clean`` campaign)."""
    if exp.verdict in ('ambiguous', 'unspec'):
        return True
    if exp.link_fail is None:
        return False
    verdict, reason = exp.link_fail
    if verdict in ('ambiguous', 'unspec'):
        return True
    if verdict == 'illegal':
        if 'partial' in exp.tags or 'label-link' in exp.tags:
            return True
        if 'via-future' in exp.tags and reason in ('second-publisher', 'self-feed', 'trained-publishing'):
            return True
    return False


def _follow_label_link(model: Model, real: interp.Real, rop, exp):
    """Model of the state left by a ``Worker.train`` refused for its label publisher only (recorded finding
    C11-train-label-refusal-keeps-train-port): the Train port stays subscribed. None unless the real graph is exactly that."""
    if rop['op'] != 'train' or 'label-link' not in exp.tags or 'via-future' in exp.tags:
        return None
    follow = model.clone()
    link = [((rop['w'], interp.T), tuple(rop['pubT']))]
    if follow.judge(link, train_w=rop['w'])[0] != 'legal':
        return None
    follow.apply(link)
    return follow if not _compare(follow, real) else None


def _compare(model: Model, real: interp.Real):
    """Real worker-level state vs the model's direct wiring: (kind, detail) or None."""
    redges, unknown = real.edges()
    if unknown:
        return 'unknown-subscriber', 'a subscription points to a node the history never created'
    medges = model.edges()
    if redges != medges:
        return 'edges', f'extra in graph {sorted(redges - medges)} missing in graph {sorted(medges - redges)}'
    for i in model.workers():
        obs = real.observe(i, False)
        if obs['in'] != model.inputs(i):
            return 'input', f'node {i} subscribed ports {obs["in"]} expected {model.inputs(i)}'
        if obs['trained'] != model.trained(i):
            return 'trained', f'node {i} trained={obs["trained"]} expected {model.trained(i)}'
        if obs['derived'] != model.derived(i):
            return 'derived', f'node {i} derived={obs["derived"]} expected {model.derived(i)}'
        if obs['group'] != model.members(i):
            return 'group', f'node {i} group {obs["group"]} expected {model.members(i)}'
    return None


def _adopt_copy(exp, real: interp.Real, result):
    """Match the nodes of a real segment copy with the model's copies (by kind, group and connections)."""
    nodes, mapping = exp.copy
    head, tail = result[0], result[1]  # Segment is a (head, tail) tuple
    col = interp.Collector()
    result.accept(col)
    found = list(col.nodes)
    for extra in (head, tail):
        if not any(extra is n for n in found):
            found.append(extra)
    if len(found) != len(nodes):
        return f'copy has {len(found)} nodes, the segment has {len(nodes)} on its head->tail paths'
    mh, mt = exp.register[1]
    orig_head = [n for n in nodes if mapping[n] == mh][0]
    orig_tail = [n for n in nodes if mapping[n] == mt][0]

    def candidates(n):
        if n == orig_head:
            return [head]
        if n == orig_tail:
            return [tail]
        onode = real.nodes[n]
        res = []
        for c in found:
            if c is head or c is tail:
                continue
            if isinstance(onode, flow.Worker):
                if isinstance(c, flow.Worker) and any(onode is g for g in c.group):
                    res.append(c)
            elif isinstance(c, flow.Future):
                res.append(c)
        return res

    cands = [candidates(n) for n in nodes]
    base = len(real.nodes)
    want = {(up[0], up[1], x, str(k)) for (x, k), up in exp.m.pub.items() if x >= base and exp.m.is_w(x) and exp.m.is_w(up[0])}
    count = 0
    for combo in itertools.product(*cands):
        count += 1
        if count > 5000:
            break
        if len({id(c) for c in combo}) != len(combo):
            continue
        ids = {id(c): mapping[n] for n, c in zip(nodes, combo)}
        ok = True
        got = set()
        for c in combo:
            if not isinstance(c, flow.Worker):
                continue
            for j, subs in enumerate(c.output):
                for s in subs:
                    if id(s.node) not in ids:
                        ok = False
                    else:
                        got.add((ids[id(c)], j, ids[id(s.node)], interp.portkey(s.port)))
        if ok and got == want:
            order = sorted(zip((mapping[n] for n in nodes), combo), key=lambda t: t[0])
            for _, c in order:
                real.add(c)
            return None
    return 'no assignment of the copied nodes reproduces the connections of the original segment'


def run_history(ctx, spec, nodes, ops, clean: bool, stats: dict):
    """Execute one history; failures go to ctx (first one ends the case). Returns (model, real) or None if it failed."""
    interp.housekeeping()
    model, real = Model(), interp.Real()
    for nd in nodes:
        rop = {'op': 'future', 'sz': nd['sz']} if nd['k'] == 'f' else {'op': 'worker', 'st': nd['st'], 'i': nd['i'], 'o': nd['o']}
        exp = interp.expect(model, rop)
        real.add(real.execute(rop))
        model = exp.m
    history = []
    blind = None  # reason for running without the model
    rejected = False
    for op in ops:
        stats['model'] = model
        rop = interp.resolve(model, op, history)
        if rop is None or (blind and rop['op'] not in ('worker', 'future', 'fork', 'subscribe', 'train')):
            history.append(None)
            stats['skipped'] += 1
            continue
        exp = interp.expect(model, rop)
        if clean and _avoided(exp):
            history.append(None)
            stats['avoided'] += 1
            continue
        history.append(rop)
        tags = sorted(exp.tags) + (['clean-pass'] if clean else [])  # nothing recorded may hide in the clean pass
        before = None if blind else real.snapshot()
        result, exc = None, None
        try:
            result = real.execute(rop)
            outcome = 'ok'
        except flow.TopologyError as err:
            outcome, exc = 'te', err
        except Exception as err:  # pylint: disable=broad-except
            outcome, exc = 'exc', err
        stats['ops'] += 1
        stats['kinds'].add(rop['op'])
        if 'trace' in stats:
            stats['trace'].append((rop, exp.verdict, exp.reason, sorted(exp.tags), outcome, str(exc) if exc else ''))
        if outcome == 'exc' and rop['op'] == 'copy' and exp.verdict == 'either':
            stats['stopped'] = f'copy-{exp.reason}-raised-{type(exc).__name__}'
            return None
        if outcome == 'exc':
            btags = [f'after:{blind}'] if blind else tags
            if isinstance(exc, RecursionError):  # innermost frame of a stack overflow is arbitrary: keep it out of the key
                if getattr(exp, 'ring', False) and 'worker-self' in btags:
                    # the call closes a ring of placeholders that also holds a worker: the recorded RecursionError of
                    # placeholder rings, not a worker-level self-feed that went unrefused
                    btags = btags + ['placeholder-ring']
                ctx.fail(spec, 'raises-other', 'RecursionError', f'{rop} raised RecursionError', btags)
            else:
                ctx.fail_exc(spec, 'raises-other', exc, btags)
            return None
        if blind:  # placeholder-only cycle: the model cannot follow; only the exception type is still judged
            if outcome == 'ok' and rop['op'] in ('worker', 'future', 'fork'):
                real.add(result)
                model = exp.m
            continue
        bad = real.invariants()
        if bad:
            ctx.fail(spec, 'invariant', bad[0][0], f'{bad[0][1]} after {rop}', tags)
            return None
        verdict = exp.verdict
        stats['verdicts'].add(f'{rop["op"]}:{verdict}:{exp.reason}' if rop['op'] in ('composition', 'copy', 'textend', 'extend') else verdict)
        if outcome == 'te':
            stats['rejected'] += 1
            rejected = True
            if verdict == 'legal':
                ctx.fail(spec, 'outcome', f'legal-refused:{_first_words(exc)}', f'{rop} raised {exc!r}', tags + [f'op:{rop["op"]}'])
                return None
            if verdict == 'illegal':
                if rop['op'] == 'train' and 'label-link' in exp.tags and 'via-future' not in exp.tags:
                    stats['refused-train-label'] = True  # generator-side class (does not depend on what the code left behind)
                after = real.snapshot()
                if after != before:
                    followed = _follow_label_link(model, real, rop, exp)
                    # the recorded finding leaves one definite state (Train port connected and registered); a refused
                    # train-with-label call that leaves anything else is a different defect and gets its own key
                    other = []
                    if followed is None and rop['op'] == 'train' and 'label-link' in exp.tags and 'via-future' not in exp.tags:
                        # judged on the worker's own ports, read from the real graph (the model may be unable to follow for
                        # reasons of its own, e.g. a placeholder whose `subscribed` view changes because w is trained now)
                        w, (pt, pp) = rop['w'], rop['pubT']
                        ins = real.observe(w, False)['in']
                        edges, _ = real.edges()
                        to_w = {(a, j, key) for a, j, x, key in edges if x == w}
                        if not (ins == [interp.T] and to_w == {(pt, pp, interp.T)}):
                            other = ['other-residue']
                    ctx.fail(spec, 'atomic', exp.reason, f'{rop} raised {exc!r} but changed: {_diff(before, after)}', tags + other)
                    if followed is None:
                        return None
                    # the recorded finding (refused Worker.train keeps its Train port) has a definite outcome: the
                    # model adopts it, so that what the *next* calls do to a half-trained group is still judged
                    model = followed
                    stats['followed-label-link'] = stats.get('followed-label-link', 0) + 1
                    continue
                stats['illegal'] += 1
                if exp.reason == 'cycle':
                    stats['cycle'] += 1
                continue
            if verdict == 'either' and exp.link_either:
                # a refused extra registration on a placeholder: nothing may have changed, else we cannot follow
                if exp.links_after_either or real.snapshot() != before:
                    stats['stopped'] = 'undetermined:either-link'
                    return (model, real)
                continue
            if verdict in ('te', 'either') and exp.te_state_known:
                if verdict == 'te':
                    stats['illegal'] += 1
                    stats[exp.reason] = stats.get(exp.reason, 0) + 1
                model = model.clone()
                model.pub = exp.m.clone().pub
                diff = _compare(model, real)
                if diff:
                    ctx.fail(spec, 'state', diff[0], f'after refused {rop}: {diff[1]}', tags + ['refused'])
                    return None
                continue
            stats['stopped'] = f'undetermined:{verdict}'
            return (model, real)
        # the call succeeded
        if verdict in ('illegal', 'te', 'te-unknown'):
            ctx.fail(spec, 'outcome', f'illegal-accepted:{exp.reason}', f'{rop} succeeded', tags)
            return None
        if verdict == 'unspec':
            blind = exp.reason
            stats['stopped'] = 'unspec'
            continue
        if verdict == 'ambiguous' or exp.unknown:
            stats['stopped'] = 'ambiguous' if verdict == 'ambiguous' else 'unknown-tail'
            return (model, real)
        if rejected:
            stats['rejected_then_ok'] = True
        stats['accepted'] += 1
        kind = rop['op']
        if kind in ('worker', 'future', 'fork'):
            real.add(result)
        elif kind == 'trunk':
            for name, seg in zip(('apply', 'train', 'label'), result):
                if rop[name] is None:
                    real.add(seg[0])
        elif kind == 'copy':
            problem = _adopt_copy(exp, real, result)
            if problem:
                ctx.fail(spec, 'state', 'copy-structure', f'{rop}: {problem}', tags)
                return None
        model = exp.m
        if exp.register is not None:
            if exp.register[0] == 'segment':
                model.segments.append(exp.register[1])
                real.segments.append(result)
                stats['segments'] += 1
            else:
                model.trunks.append(exp.register[1])
                real.trunks.append(result)
        elif kind in ('segment', 'extend', 'copy', 'trunk', 'tuse', 'textend'):
            stats['stopped'] = 'unregistered'
            return (model, real)
        if kind == 'composition':
            stats['compositions'] += 1
        bad = real.invariants()
        if bad:
            ctx.fail(spec, 'invariant', bad[0][0], f'{bad[0][1]} after {rop}', tags)
            return None
        diff = _compare(model, real)
        if diff:
            ctx.fail(spec, 'state', diff[0], f'after {rop}: {diff[1]}', tags + [f'op:{kind}'])
            return None
    stats['model'] = model
    return None if blind else (model, real)


def _new_stats():
    return {
        'ops': 0,
        'skipped': 0,
        'avoided': 0,
        'rejected': 0,
        'accepted': 0,
        'illegal': 0,
        'cycle': 0,
        'segments': 0,
        'compositions': 0,
        'rejected_then_ok': False,
        'kinds': set(),
        'verdicts': set(),
    }


def _chain_depth(model: Model) -> int:
    return model.depth()


def _classes(prefix, stats, final):
    classes = [prefix]
    if stats['rejected_then_ok']:
        classes.append('has:rejected-then-ok')
    if stats['illegal']:
        classes.append('op:illegal')
    if stats['segments']:
        classes.append('op:segment-ok')
    if stats['cycle']:
        classes.append('op:cycle-refused')
    if stats.get('placeholder'):
        classes.append('op:placeholder-refused')
    if stats['compositions']:
        classes.append('op:composition-ok')
    if stats['avoided']:
        classes.append('has:avoided-shape')
    if stats.get('followed-label-link'):
        classes.append('has:followed-half-trained')
    if stats.get('refused-train-label'):
        classes.append('has:refused-train-label')
    if 'stopped' in stats:
        classes.append(f'stopped:{stats["stopped"]}')
    for k in sorted(stats['kinds']):
        classes.append(f'kind:{k}')
    for k in sorted(stats['verdicts']):
        if ':' in k:
            classes.append(f'verdict:{k}')
    depth = 0
    last = stats.get('model')
    if last is not None:
        depth = _chain_depth(last)
        if last.futures():
            classes.append('has:future')
        if depth >= 1:
            classes.append('has:via-future-edge')
        if depth >= 2:
            classes.append('has:future-chain')
    return classes, depth


def check_history(ctx, spec):
    stats = _new_stats()
    final = run_history(ctx, spec, spec['nodes'], spec['ops'], spec['clean'], stats)
    classes, depth = _classes('history:clean' if spec['clean'] else 'history:wide', stats, final)
    ctx.case(spec, nontrivial=stats['rejected_then_ok'] or depth >= 2, classes=classes)


def check_perm(ctx, spec):
    calls = spec['calls']
    n = len(calls)
    orders = [list(p) for p in itertools.permutations(range(n))] if spec['orders'] == 'all' else spec['orders']
    seen, results = set(), []
    all_legal, depth, failed = True, 0, False
    agg = _new_stats()
    for order in orders:
        if tuple(order) in seen:
            continue
        seen.add(tuple(order))
        stats = _new_stats()
        nfail = len(ctx.failures)
        final = run_history(ctx, spec, spec['nodes'], [calls[i] for i in order], False, stats)
        if stats['rejected'] or stats['skipped'] or 'stopped' in stats:
            all_legal = False
        if stats.get('model') is not None:
            depth = max(depth, _chain_depth(stats['model']))
        if len(ctx.failures) > nfail or final is None:
            failed = True
            all_legal = False
            continue
        results.append((order, sorted(final[1].edges()[0]), sorted(final[0].edges())))
        agg['rejected_then_ok'] = agg['rejected_then_ok'] or stats['rejected_then_ok']
        agg['illegal'] += stats['illegal']
    if all_legal and not failed and results:
        base = results[0]
        for order, redges, medges in results[1:]:
            if redges != base[1] or medges != base[2]:
                ctx.fail(spec, 'order', 'edges-differ', f'order {base[0]} gives {base[1]}, order {order} gives {redges}', ['via-future'])
                break
    classes = ['perm', f'perm:orders-{min(len(seen), 6) if len(seen) < 6 else "6+"}']
    if all_legal and not failed:
        classes.append('perm:all-legal')
        if depth >= 1:
            classes.append('perm:all-legal-via-future')
    if depth >= 2:
        classes.append('has:future-chain')
    if agg['rejected_then_ok']:
        classes.append('has:rejected-then-ok')
    if agg['illegal']:
        classes.append('op:illegal')
    ctx.klass(*[f'perm-runs'] * len(seen))
    ctx.case(spec, nontrivial=agg['rejected_then_ok'] or depth >= 2, classes=classes)


def campaigns(ctx):
    thorough = ctx.tier == 'thorough'
    return [
        Campaign('history', history_spec(False), check_history, 2200, 10000),
        Campaign('clean', history_spec(True), check_history, 2200, 10000),
        Campaign('perm', perm_spec(thorough), check_perm, 500, 300),
        Campaign('groups', group_history_spec(), check_history, 600, 4000),
        Campaign('multiedge', multiedge_history_spec(), check_history, 600, 4000),
        Campaign('loops', loop_history_spec(), check_history, 500, 3000),
        Campaign('diamond', diamond_history_spec(), check_history, 300, 2000),
    ]


LEVEL_TEXT = (
    'Model-based generated-input search over call histories: thousands of histories of public graph-construction calls '
    'are executed step by step against the real forml.flow graph and against an abstract graph model that decides '
    'legality from the property text; invariants, refusal with an unchanged graph, success of legal calls and equality '
    'of the worker-to-worker connections with the direct wiring are checked after every call, and sets of subscribe '
    'calls are replayed in many (thorough: all) orders. Evidence over the sampled histories of bounded length over a '
    'small universe, not a proof.'
)
LEVEL_NOTE = (
    'Trusted: the abstract model in vf/graphx/model.py and its expectation rules in vf/graphx/interp.py, Hypothesis. '
    'Universe <=6 initial nodes (+created ones), shapes <=2x2, square placeholders, <=25 calls. Calls whose legality the '
    'property does not fix are executed but only required not to raise anything other than TopologyError.'
)
TECHNIQUE = 'model-based property testing of call histories (Hypothesis-generated op lists vs abstract graph model); permutation replay'
