"""C05 - registry history is append-only, gap-free and crash-consistent.

A case is a JSON *history* of operations against one registry living in ``$VERIF_SCRATCH``:

* ``publish``  - ``asset.Directory(registry).get(project).put(prj.Package(path))`` of a directory or zip based package,
* ``train``    - what a training run does: ``asset.Instance(project, release, None, directory)`` ->
                 ``instance.state(nodes, tag)`` -> ``State.dump`` per actor -> ``State.commit``,
* ``read``     - what a runner does to load a model (latest or explicit release/generation): tag + ``State.load``,
* ``prune``    - external housekeeping (harness side ``rmtree`` of one generation directory): makes numbering gaps,

optionally with a **crash point** on a publish/train: the operation is executed in a forked child whose stdlib
file-system entry points are wrapped (``vf.regx.fault``) and which ``os._exit(77)``s before fs event ``k`` (or inside
write ``k`` after ``j`` bytes). Every operation and every observation runs in a *new forked child* of a parent that has
imported forml but never touched a registry (= a fresh process as far as forml's in-process registry caches
``major.ARTIFACTS``, ``minor.TAGS/STATES`` and the ``lru_cache``s on ``posix.Path`` go). The ``volatile`` registry lives
in one process only, so its histories (no crashes) run inside one child, the caches being cleared before each observation.

Oracle = a dict model project -> release -> generation -> (tag, [state bytes]) maintained from the issued operations
only; the expected observation is rendered from the model and compared with what ``asset.Directory`` shows, the raw
registry tree is digested by the harness (byte identity of everything belonging to a listed item).
"""
import copy
import itertools
import os
import shutil

from hypothesis import strategies as st

from vf.core.hyp import Campaign
from vf.regx import fault
from vf.regx import world as W

ID = 'C05'
LEVEL = 'fault_enumeration'
RULE = (
    'Hypothesis-generated histories of 4-8 operations {publish(project, version, dir|zip), train(project, release|latest, '
    '1-3 states, trigger|explicit tag), read(latest|explicit), prune(generation directory)} over 2 projects and a pool of '
    '16 PEP 440 versions (pre/post/dev releases below and above final ones, equal spellings, 1.10 vs 1.2) on a posix registry, each publish/train '
    'optionally carrying a crash point (k-th file-system event, j bytes into a write); histories starting with the scripted '
    'shape publish, train, train, prune(inner), train (numbering over a gap); the same histories without '
    'crash/prune on the volatile registry; plus the exhaustive sweep of every crash point (every k, j in {0, 1, half, '
    'len-1} for writes, and after the last event) of canonical commits and publishes (dir and zip), each followed by a '
    'retry (thorough: of every commit/publish of every generated history). Non-trivial: the history executes >=2 '
    'trainings of one release and >=1 crash strictly inside a commit (posix.Registry.close) or a publish '
    '(posix.Registry.push). Distinct = distinct spec digest.'
)
ASSUMPTIONS = [
    'crash = death of the process between or inside Python-level file-system calls (os.mkdir/rename/replace/unlink/rmdir, '
    'open+write, shutil.copyfile/rmtree); a completed write is taken as persisted; no fsync/power-loss reordering model, '
    'no concurrent writers',
    'a forked child of a parent that imported forml but never used a registry is taken as a fresh process',
    'the registry tree is a documented plain directory hierarchy: removing one generation directory from outside '
    '(housekeeping) is a legitimate way to arrive at a non-contiguous listing',
    'states are non-empty byte strings (an actor state is a pickle), 1-3 per training; project names and versions '
    'come from a fixed pool with a hand-written PEP 440 order',
    'tag templates made with Tag.training.trigger(ts) are compared on timestamp and states only (the inherited '
    'ordinal/tuning fields are not asserted); explicit tags are compared field by field',
    'unlisted leftovers of a crashed operation (staged states, half-built generation/release directories) are allowed',
]
FLOORS = {
    'crash:commit': 0.08,
    'crash:publish': 0.1,
    'retry-after-crash': 0.15,
    'publish:rejected': 0.04,
    'train:second+': 0.15,
    'read:explicit': 0.03,
    'gap:train-after-prune': 0.01,
    'volatile': 0.02,
}
SHARDS_THOROUGH = 16

PROJECTS = ['alpha', 'beta-two']
# hand-written PEP 440 order (rank); equal rank = equal version in different spelling
VERSIONS = [
    ['0.1', 0],
    ['0.9', 1],
    ['1.0.dev1', 2],
    ['1.0rc1', 3],
    ['1.0', 4],
    ['1.0.0', 4],
    ['1.0.post1', 5],
    ['1.0.1', 6],
    ['1.2', 7],
    ['1.10', 8],
    ['2.0.dev1', 9],
    ['2.0rc1', 10],
    ['2.0', 11],
    ['2.0.post1', 12],
    ['2.1.dev1', 13],
]
RANK = {v: r for v, r in VERSIONS}
ANY = '*'


# ---- generator ---------------------------------------------------------------------------------------------------------
_state = st.one_of(
    st.binary(min_size=1, max_size=12),
    st.binary(min_size=1, max_size=12),
    st.sampled_from([b'\x00', b'\n', b'\x80\x04N.', b'ab' * 150]),
).map(bytes.hex)


@st.composite
def history(draw, regkind='posix', gap=False):
    crashable = regkind == 'posix'
    nops = draw(st.integers(4, 8))
    ops = []
    shadow = {p: [] for p in range(len(PROJECTS))}  # ranks presumably published (ignores crash effects)
    trains = {p: 0 for p in range(len(PROJECTS))}  # trainings since the last prune
    lastr = {p: None for p in range(len(PROJECTS))}
    clock = 0
    follow = None  # a training right after a prune (numbering over the gap)
    # the 'gaps' campaign starts every history with the scripted shape that makes a numbering gap; the rest is free
    script = ['publish', 'train', 'train', 'prune', 'train'] if gap else []
    nops = max(nops, len(script))
    for _ in range(nops):
        p = draw(st.sampled_from([0, 0, 0, 0, 1]))
        scripted = len(script) > 1  # the scripted prefix up to the prune runs without crashes
        if script:
            p, kind = 0, script.pop(0)
        elif follow is not None and draw(st.integers(0, 9)) < 8:
            p, kind = follow['p'], 'train'
        elif not shadow[p]:
            kind = 'publish'
        else:
            menu = ['train'] * 8 + ['publish'] * 3 + ['read'] * 2 + (['prune'] * 6 if crashable and trains[p] >= 2 else [])
            kind = draw(st.sampled_from(menu))
        op = {'op': kind, 'p': p}
        if kind == 'publish':
            top = max(shadow[p], default=-1)
            above = [v for v, r in VERSIONS if r > top]
            below = [v for v, r in VERSIONS if r <= top]
            if above and len(shadow[p]) < 3 and (not below or draw(st.integers(0, 9)) < 6):
                version = draw(st.sampled_from(above[:4]))
            else:
                # half of the refused candidates sit right under the top: between the two highest published versions
                # (a final release under a published pre-/dev-release of the next one, seeded change C05-8)
                second = max([r for r in shadow[p] if r < top], default=-1)
                between = [v for v, r in VERSIONS if second < r < top]
                pick = between if between and draw(st.booleans()) else (below or above)
                version = draw(st.sampled_from(pick))
            if RANK[version] > top:
                shadow[p].append(RANK[version])
            op.update(v=version, kind=draw(st.sampled_from(['dir', 'zip'])))
            if RANK[version] <= top and draw(st.integers(0, 9)) < 4:
                # the package is handed to the handle of *another* project (Repo.publish(project, package) takes both):
                # whatever the handle, nothing that is not greater than the project's releases may get in
                op['via'] = 1 - p
        elif kind == 'train':
            clock += draw(st.integers(1, 5))
            tag = {'mode': draw(st.sampled_from(['trigger', 'trigger', 'explicit'])), 'ts': clock, 'us': draw(st.sampled_from([0, 0, 250000]))}
            if tag['mode'] == 'explicit':
                tag['ordinal'] = draw(st.sampled_from([None, 0, 7, 20240101]))
                if draw(st.booleans()):
                    tag.update(tts=clock + 1, score=draw(st.sampled_from([0.5, 0.125, -2.0])))
            op.update(
                r=follow['r'] if follow is not None else draw(st.sampled_from([None, None, 0, 1, 2])),
                states=draw(st.lists(_state, min_size=1, max_size=3)),
                tag=tag,
            )
            if op['r'] is not None and draw(st.integers(0, 9)) < 3:
                op['respell'] = True  # the explicit release key in an equal PEP 440 spelling (1.0 for 1.0.0), if it has one
            if not crashable:
                op['h'] = draw(st.sampled_from([None, 'a', 'a', 'b']))  # through a long-lived release handle
            trains[p] += 1
            lastr[p] = op['r']
        elif kind == 'read':
            op.update(r=draw(st.sampled_from([None, None, 0, 1, 2])), g=draw(st.sampled_from([None, None, 0, 1, 2, 3])))
            if not crashable:
                op['h'] = draw(st.sampled_from([None, 'a', 'b']))
        else:
            op.update(r=lastr[p], g=0 if scripted else draw(st.sampled_from([0, 0, 0, 1, 2, 3])))
            trains[p] = 0
        if crashable and not scripted and kind in ('publish', 'train') and draw(st.integers(0, 9)) >= 6:
            op['crash'] = {'k': draw(st.integers(0, 40)), 'j': draw(st.sampled_from(fault.JMODES))}
        follow = op if kind == 'prune' else None
        ops.append(op)
    spec = {'registry': regkind, 'ops': ops}
    if crashable:
        spec['staging'] = draw(st.sampled_from([None, None, 'other-fs']))
    return spec


@st.composite
def guard_history(draw):
    """Short crash-free histories around the two acceptance guards that random histories seldom reach: a refused version
    handed to the handle of another project (empty or not), and trainings / reads addressing a release by an equal PEP 440
    spelling of its key (1.0 for 1.0.0)."""
    clock = [0]

    def train(p, r, respell):
        clock[0] += draw(st.integers(1, 5))
        op = {'op': 'train', 'p': p, 'r': r, 'states': draw(st.lists(_state, min_size=1, max_size=2)), 'tag': {'mode': 'trigger', 'ts': clock[0], 'us': 0}}
        if respell:
            op['respell'] = True
        return op

    kind = lambda: draw(st.sampled_from(['dir', 'zip']))  # noqa: E731
    if draw(st.booleans()):
        first = draw(st.sampled_from([v for v, r in VERSIONS if 3 <= r <= 10]))
        ops = [{'op': 'publish', 'p': 0, 'v': first, 'kind': kind()}]
        if draw(st.booleans()):
            ops.append({'op': 'publish', 'p': 1, 'v': draw(st.sampled_from(['0.1', '1.2'])), 'kind': kind()})
        if draw(st.booleans()):
            ops.append(train(0, None, False))
        refused = draw(st.sampled_from([v for v, r in VERSIONS if r <= RANK[first]]))
        ops.append({'op': 'publish', 'p': 0, 'v': refused, 'kind': kind(), 'via': 1})
        ops += [train(0, None, False), {'op': 'read', 'p': 0, 'r': None, 'g': None}]
    else:
        ops = [{'op': 'publish', 'p': 0, 'v': draw(st.sampled_from(['1.0', '1.0.0'])), 'kind': kind()}]
        if draw(st.booleans()):
            ops.append({'op': 'publish', 'p': 0, 'v': '1.2', 'kind': kind()})
        ops.append(train(0, 0, draw(st.integers(0, 9)) < 7))
        ops.append(train(0, 0, draw(st.booleans())))
        ops.append({'op': 'read', 'p': 0, 'r': 0, 'g': None})
    return {'registry': 'posix', 'ops': ops, 'staging': None}


# ---- model -------------------------------------------------------------------------------------------------------------
def is_err(obj) -> bool:
    return isinstance(obj, dict) and 'error' in obj and 'family' in obj


def listed(model, p):
    return sorted(model.get(p, {}), key=lambda v: RANK[v])


def resolve_release(model, p, r):
    rels = listed(model, p)
    if not rels:
        return None
    return rels[-1] if r is None else rels[r % len(rels)]


def gens_of(model, p, v):
    return sorted(int(g) for g in model[p][v]['gens'])


def expected(model, regkind):
    """The observation a fresh reader must make, rendered from the model."""
    out = {}
    for p, rels in model.items():
        if not rels:
            continue
        out[p] = {}
        for v, rel in rels.items():
            item = {'gens': {g: {'tag': dict(gen['tag']), 'states': list(gen['states'])} for g, gen in rel['gens'].items()}}
            if regkind == 'posix':
                item['manifest'] = rel['pkg']['manifest']
                item['pkg'] = rel['pkg']['digest']
            else:
                item['artifact'] = rel['pkg']['path']
            out[p][v] = item
    return out


def tag_eq(exp, got) -> bool:
    return set(exp) == set(got) and all(e == ANY or e == got[k] for k, e in exp.items())


def tag_expected(spec, nstates):
    if spec['mode'] == 'trigger':
        return {'ts': W.isotime(spec['ts'], spec.get('us', 0)), 'ordinal': ANY, 'tts': ANY, 'score': ANY, 'nstates': nstates}
    return {
        'ts': W.isotime(spec['ts'], spec.get('us', 0)),
        'ordinal': spec.get('ordinal'),
        'tts': None if spec.get('tts') is None else W.isotime(spec['tts']),
        'score': spec.get('score'),
        'nstates': nstates,
    }


def diffs(exp, obs):
    """Differences between the expected and the made observation as [(item, kind)] in a fixed order.

    item = ('root',) | ('prj', p) | ('rel', p, v) | ('gen', p, v, g)
    """
    out = []
    if is_err(obs):
        return [(('root',), 'listing-raises')]
    for p in sorted(set(exp) | set(obs)):
        if p not in obs:
            out.append((('prj', p), 'project-missing'))
            continue
        if p not in exp:
            out.append((('prj', p), 'project-unexpected'))
            continue
        if is_err(obs[p]):
            out.append((('prj', p), 'listing-raises'))
            continue
        for v in sorted(set(exp[p]) | set(obs[p])):
            if v not in obs[p]:
                out.append((('rel', p, v), 'release-missing'))
                continue
            if v not in exp[p]:
                out.append((('rel', p, v), 'release-unexpected'))
                continue
            erel, orel = exp[p][v], obs[p][v]
            if 'manifest' in erel:
                if is_err(orel.get('manifest')) or 'manifest' not in orel:
                    out.append((('rel', p, v), 'package-manifest-unloadable'))
                elif orel['manifest'] != erel['manifest']:
                    out.append((('rel', p, v), 'package-manifest-differs'))
                elif orel.get('pkg') != erel['pkg']:
                    out.append((('rel', p, v), 'package-partial'))
            if 'artifact' in erel and orel.get('artifact') != erel['artifact']:
                out.append((('rel', p, v), 'artifact-differs'))
            egens, ogens = erel['gens'], orel.get('gens', {})
            if is_err(ogens):
                out.append((('rel', p, v), 'listing-raises'))
                continue
            for g in sorted(set(egens) | set(ogens), key=int):
                item = ('gen', p, v, g)
                if g not in ogens:
                    out.append((item, 'generation-missing'))
                    continue
                if g not in egens:
                    out.append((item, 'generation-unexpected'))
                    continue
                egen, ogen = egens[g], ogens[g]
                if is_err(ogen['tag']):
                    out.append((item, 'tag-unloadable'))
                    continue
                if not tag_eq(egen['tag'], ogen['tag']):
                    out.append((item, 'tag-differs'))
                    continue
                est, ost = egen['states'], ogen['states']
                if any(is_err(s) for s in ost):
                    out.append((item, 'state-unreadable'))
                elif est != ost:
                    if len(est) == len(ost) and any(o == '' for o in ost):
                        out.append((item, 'state-missing'))
                    elif sorted(est) == sorted(ost):
                        out.append((item, 'states-out-of-order'))
                    else:
                        out.append((item, 'state-differs'))
    return out


def on_item(where, new) -> bool:
    """Does the difference location belong to the item being created?"""
    if new[0] == 'gen':
        return where == new
    if new[0] == 'rel':  # a new release (possibly making the project appear) and anything below it
        return (where[0] == 'prj' and where[1] == new[1] and new[3]) or (where[0] in ('rel', 'gen') and where[1:3] == new[1:3])
    return False


def listed_files(model, tree):
    """Paths of the raw tree that belong to a listed generation or a listed release package."""
    prefixes = []
    for p, rels in model.items():
        for v, rel in rels.items():
            prefixes.append((f'{p}/{v}/package.4ml', 'pkg'))
            for g in rel['gens']:
                prefixes.append((f'{p}/{v}/{g}', 'gen'))
    out = {}
    for path, sha in tree.items():
        for prefix, what in prefixes:
            if path == prefix or path.startswith(prefix + '/'):
                out[path] = (sha, what)
    return out


# ---- executors -----------------------------------------------------------------------------------------------------------
def _c_publish(root, project, path):
    return W.op_publish(W.registry_at(root), project, path)


def _c_train(root, project, release, states, tagspec):
    return W.op_train(W.registry_at(root), project, release, states, tagspec)


def _c_read(root, project, release, generation, nstates):
    return W.op_read(W.registry_at(root), project, release, generation, nstates)


def _c_observe(root):
    return W.observe(W.registry_at(root))


class ForkExec:
    """posix registry; every call in a fresh forked child."""

    crashable = True
    regkind = 'posix'

    def __init__(self, base):
        self.base = base
        self.root = os.path.join(base, 'reg')
        self.snap = os.path.join(base, 'snap')
        self.done = os.path.join(base, 'done')
        os.makedirs(self.root)

    def publish(self, project, path, crash=None):
        if not os.path.isfile(path):
            return W.in_child(_c_publish, self.root, project, path, root=self.root, crash=crash)
        # a file package is published from the publisher's build artefact, which is rebuilt *in place* afterwards: nothing
        # already stored in the registry may change with it
        self.artefacts = getattr(self, 'artefacts', 0) + 1
        artefact = os.path.join(self.base, f'artefact-{self.artefacts}.4ml')
        shutil.copyfile(path, artefact)
        try:
            return W.in_child(_c_publish, self.root, project, artefact, root=self.root, crash=crash)
        finally:
            with open(artefact, 'r+b') as fh:
                fh.write(b'\0' * 64)
                fh.truncate()

    def train(self, project, release, states, tagspec, crash=None):
        return W.in_child(_c_train, self.root, project, release, states, tagspec, root=self.root, crash=crash)

    def read(self, project, release, generation, nstates):
        return W.in_child(_c_read, self.root, project, release, generation, nstates)[2]

    def observe(self):
        return W.in_child(_c_observe, self.root)[2]

    def tree(self):
        return W.tree(self.root)

    def prune(self, project, release, generation):
        shutil.rmtree(os.path.join(self.root, project, release, str(generation)))

    def snapshot(self):
        W.snapshot(self.root, self.snap)

    def restore(self):
        W.restore(self.snap, self.root)

    def stash(self):
        if os.path.lexists(self.done):
            shutil.rmtree(self.done)
        os.rename(self.root, self.done)

    def unstash(self):
        shutil.rmtree(self.root, ignore_errors=True)
        os.rename(self.done, self.root)

    def close(self):
        shutil.rmtree(self.base, ignore_errors=True)


class LocalExec:
    """volatile registry: one process, reader caches cleared before each observation."""

    crashable = False
    regkind = 'volatile'

    def __init__(self):
        from forml.provider.registry.filesystem import volatile

        self.registry = volatile.Registry()
        self.handles = {}

    def publish(self, project, path, crash=None):
        return 'ok', [], W.op_publish(self.registry, project, path)

    def train(self, project, release, states, tagspec, crash=None, handle=None):
        if handle is not None and release is not None:
            return 'ok', [], W.op_train_handle(self.handle(project, release, handle), states, tagspec)
        return 'ok', [], W.op_train(self.registry, project, release, states, tagspec)

    def handle(self, project, release, which):
        """Long-lived Release level objects ('a', 'b': two live handles on one release)."""
        from forml.io import asset

        key = (project, release, which)
        if key not in self.handles:
            self.handles[key] = asset.Directory(self.registry).get(project).get(release)
        return self.handles[key]

    def read(self, project, release, generation, nstates, handle=None):
        W.clear_caches()
        if handle is not None and release is not None:
            self.handle(project, release, handle).list()  # the handle looks at its release, then the usual read
        return W.op_read(self.registry, project, release, generation, nstates)

    def observe(self):
        W.clear_caches()
        return W.observe(self.registry, packages='artifact')

    def tree(self):
        return None

    def close(self):
        pass


class Recorder:
    """ctx stand-in inside a driver child; the records are replayed on the real ctx by the parent."""

    def __init__(self):
        self.records = []

    def case(self, spec, nontrivial=False, classes=()):
        self.records.append(['case', spec, bool(nontrivial), list(classes)])

    def fail(self, spec, clause, kind, detail='', tags=()):
        self.records.append(['fail', spec, clause, kind, detail, list(tags)])
        return '|'.join([clause, kind, ','.join(sorted(set(tags)))])

    def mask(self, key):
        self.records.append(['mask', key])


def replay_records(ctx, records):
    for rec in records:
        if rec[0] == 'case':
            ctx.case(rec[1], nontrivial=rec[2], classes=rec[3])
        elif rec[0] == 'fail':
            ctx.fail(*rec[1:])
        else:
            ctx.mask(rec[1])


# ---- the history runner + oracle ------------------------------------------------------------------------------------------
class Stop(Exception):
    """The registry and the model diverged after a reported mismatch: the rest of the history cannot be judged."""


class History:
    def __init__(self, sink, spec, ex, packages, sweep_all=False):
        self.sink = sink
        self.spec = spec
        self.ex = ex
        self.packages = packages  # callable (name, version) -> {'dir': {...}, 'zip': {...}}
        self.sweep_all = sweep_all
        self.classes = set()
        self.trained = {}  # (p, v) -> number of executed trainings
        self.inside = False  # a crash strictly inside commit/publish happened
        self.crashed = set()  # items whose creation crashed earlier: (p, v) for a training, (p,) for a publish
        self.pruned = set()

    # -- bookkeeping
    def branch(self, spec):
        other = History(self.sink, spec, self.ex, self.packages)
        other.classes = set(self.classes) | {'sweep'}
        other.trained = dict(self.trained)
        other.inside = self.inside
        other.crashed = set(self.crashed)
        other.pruned = set(self.pruned)
        return other

    def finish(self):
        nontrivial = self.inside and any(n >= 2 for n in self.trained.values())
        self.sink.case(self.spec, nontrivial=nontrivial, classes=sorted(self.classes | {self.ex.regkind}))

    def fail(self, clause, kind, detail, tags):
        return self.sink.fail(self.spec, clause, kind, detail, tags)

    def run(self):
        model = {}
        try:
            for i, op in enumerate(self.spec['ops']):
                model = self.step(i, op, model)
        except Stop:
            self.classes.add('stopped-after-mismatch')
        self.finish()

    def step(self, i, op, model):
        return getattr(self, 'do_' + op['op'])(i, op, model)

    # -- operations
    def do_publish(self, i, op, model):
        p, v = PROJECTS[op['p']], op['v']
        pkg = self.packages(p, v)[op['kind']]
        top = max((RANK[x] for x in model.get(p, {})), default=-1)
        accept = RANK[v] > top
        after = model
        if accept:
            after = copy.deepcopy(model)
            after.setdefault(p, {})[v] = {'pkg': dict(pkg, kind=op['kind']), 'gens': {}}
        self.classes.add('publish:' + op['kind'])
        self.classes.add('publish:accepted' if accept else 'publish:rejected')
        if accept and (p,) in self.crashed:
            self.classes.add('retry-after-crash')
        new = ('rel', p, v, p not in model or not model[p])
        tags = ['op=publish', 'pkg=' + op['kind']]
        handle = p
        if op.get('via') is not None and not accept:
            handle = PROJECTS[op['via']]
            tags.append('via=other-project' + ('-empty' if not model.get(handle) else ''))
            self.classes.add('publish:via-other-project')
        return self.mutate(i, op, model, after, new, tags, lambda crash: self.ex.publish(handle, pkg['path'], crash), not accept, (p,))

    def do_train(self, i, op, model):
        p = PROJECTS[op['p']]
        v = resolve_release(model, p, op['r'])
        if v is None:
            self.classes.add('skipped:no-release')
            return model
        gens = gens_of(model, p, v)
        number = str(gens[-1] + 1 if gens else 1)
        after = copy.deepcopy(model)
        after[p][v]['gens'][number] = {'tag': tag_expected(op['tag'], len(op['states'])), 'states': list(op['states'])}
        self.trained[(p, v)] = self.trained.get((p, v), 0) + 1
        self.classes.add('train:' + op['tag']['mode'])
        self.classes.add('train:first' if not gens else 'train:second+')
        if len(op['states']) > 1:
            self.classes.add('train:multi-state')
        if (p, v) in self.crashed:
            self.classes.add('retry-after-crash')
        if (p, v) in self.pruned and gens and len(gens) != gens[-1]:
            self.classes.add('gap:train-after-prune')
        new = ('gen', p, v, number)
        explicit = None if op['r'] is None else v
        ttags = ['op=train']
        if explicit is not None and op.get('respell'):
            twins = [x for x, r in VERSIONS if r == RANK[v] and x != v]
            if twins:
                explicit = twins[0]
                ttags.append('release=equal-spelling')
                self.classes.add('train:respelled-release')
        if op.get('h') and explicit is not None and not self.ex.crashable:
            self.classes.add('train:live-handle')
            call = lambda crash: self.ex.train(p, explicit, op['states'], op['tag'], crash, handle=op['h'])  # noqa: E731
        else:
            call = lambda crash: self.ex.train(p, explicit, op['states'], op['tag'], crash)  # noqa: E731
        return self.mutate(i, op, model, after, new, ttags, call, False, (p, v))

    def do_read(self, i, op, model):
        p = PROJECTS[op['p']]
        v = resolve_release(model, p, op['r'])
        if v is None:
            self.classes.add('skipped:no-release')
            return model
        gens = gens_of(model, p, v)
        g = None if op['g'] is None or not gens else gens[op['g'] % len(gens)]
        target = g if g is not None else (gens[-1] if gens else None)
        if target is None:
            exp = {'tag': {'ts': None, 'ordinal': None, 'tts': None, 'score': None, 'nstates': 0}, 'states': []}
        else:
            gen = model[p][v]['gens'][str(target)]
            exp = {'tag': gen['tag'], 'states': gen['states']}
        mode = 'latest' if op['r'] is None and g is None else 'explicit'
        self.classes.add('read:' + mode)
        if op.get('h') and op['r'] is not None and not self.ex.crashable:
            got = self.ex.read(p, v, g, len(exp['states']), handle=op['h'])
        else:
            got = self.ex.read(p, None if op['r'] is None else v, g, len(exp['states']))
        tags = ['op=read', mode, self.ex.regkind]
        if is_err(got):
            self.fail('read', 'raises:' + got['error'], f'read {p}/{v}/{g}: {got}', tags)
        elif not tag_eq(exp['tag'], got['tag']):
            self.fail('read', 'tag-differs', f'read {p}/{v}/{g}: expected {exp["tag"]} got {got["tag"]}', tags)
        elif exp['states'] != got['states']:
            self.fail('read', 'states-differ', f'read {p}/{v}/{g}: expected {exp["states"]} got {got["states"]}', tags)
        return model

    def do_prune(self, i, op, model):
        p = PROJECTS[op['p']]
        v = resolve_release(model, p, op['r'])
        if v is None or not self.ex.crashable or not model[p][v]['gens']:
            self.classes.add('skipped:nothing-to-prune')
            return model
        self.classes.add('prune')
        gens = gens_of(model, p, v)
        g = gens[op['g'] % len(gens)]
        self.ex.prune(p, v, g)
        after = copy.deepcopy(model)
        del after[p][v]['gens'][str(g)]
        self.pruned.add((p, v))
        self.classes.add('prune:latest' if g == gens[-1] else 'prune:inner')
        obs = self.ex.observe()
        bad = diffs(expected(after, self.ex.regkind), obs)
        if bad:
            self.fail('listing', 'after-prune:' + bad[0][1], f'after removing {p}/{v}/{g}: {bad[:4]}', ['op=prune'])
            raise Stop()
        return after

    # -- judging one mutating operation (plain, crashed, swept)
    def mutate(self, i, op, model, after, new, tags, call, reject, crashkey):
        ex = self.ex
        crash = op.get('crash') if ex.crashable else None
        sweep = ex.crashable and (self.sweep_all or op.get('sweep'))
        before = ex.tree()
        if crash or sweep:
            ex.snapshot()
        status, events, result = call(None)
        if sweep:
            self.sweep(i, op, model, after, new, tags, call, events, before, crashkey)
        if not crash:
            return self.judge_plain(op, model, after, new, tags, result, before, reject)
        ex.restore()
        k = crash['k'] % (len(events) + 1)
        status, seen, _ = call((k, crash['j']))
        if status != 'crashed' or [e['fsop'] for e in seen[:k]] != [e['fsop'] for e in events[:k]]:
            raise W.HarnessFault(f'crash point {k} of {len(events)} not reproduced: {status} {seen}')
        return self.judge_crash(op, model, after, new, tags, events, k, crash['j'], before, crashkey)

    def judge_plain(self, op, model, after, new, tags, result, before, reject):
        ex = self.ex
        tags = tags + [ex.regkind]
        what = f"{op['op']} {new[1:4]}"
        if reject:
            if not is_err(result):
                self.fail('publish-monotonic', 'not-rejected', f'{what} accepted although an equal or greater release exists: {sorted(model[new[1]])}', tags)
                raise Stop()
            if result['family'] != 'invalid':
                self.fail('publish-monotonic', 'rejected-with:' + result['error'], f'{what}: {result}', tags)
        elif is_err(result):
            clause = 'publish-accepts-greater' if op['op'] == 'publish' else 'train-commits'
            self.fail(clause, 'raises:' + result['error'], f'{what}: {result}', tags)
            raise Stop()
        obs = ex.observe()
        bad = diffs(expected(after, ex.regkind), obs)
        if bad:
            self.report_plain(op, model, after, new, tags, bad, obs, reject)
            raise Stop()
        self.raw_check(model, before, tags, reject)
        return after

    def report_plain(self, op, model, after, new, tags, bad, obs, reject):
        where, kind = bad[0]
        what = f"{op['op']} {new[1:4]}"
        if reject:
            self.fail('publish-monotonic', 'rejected-but-changed:' + kind, f'{what}: {bad[:4]}', tags)
            return
        elsewhere = [b for b in bad if not on_item(b[0], new)]
        if op['op'] == 'train':
            p, v, number = new[1:4]
            got = set(obs.get(p, {}).get(v, {}).get('gens', {})) if not is_err(obs) and not is_err(obs.get(p, {})) else set()
            had = set(model[p][v]['gens'])
            extra = sorted(got - had, key=int)
            if got >= had and len(extra) == 1 and extra[0] != number:
                self.fail('train-adds-max+1', 'wrong-generation-number', f'{what}: new generation listed as {extra[0]}, listing before {sorted(had, key=int)}', tags)
            elif got >= had and len(extra) != 1:
                self.fail('train-adds-max+1', 'not-exactly-one-new-generation', f'{what}: new generations {extra}, listing before {sorted(had, key=int)}', tags)
            elif elsewhere:
                self.fail('append-only', 'earlier:' + elsewhere[0][1], f'{what}: {elsewhere[:4]}', tags)
            else:
                self.fail('train-holds-states', 'new-generation:' + kind, f'{what}: {bad[:4]} observed={obs[p][v]["gens"].get(number)}', tags)
        else:
            if elsewhere:
                self.fail('append-only', 'earlier:' + elsewhere[0][1], f'{what}: {elsewhere[:4]}', tags)
            else:
                self.fail('publish-accepts-greater', 'new-release:' + kind, f'{what}: {bad[:4]}', tags)

    def raw_check(self, model, before, tags, frozen=False):
        """Everything that belonged to a listed generation/package before must still be there byte for byte."""
        if before is None:
            return
        now = self.ex.tree()
        if frozen and now != before:
            delta = sorted(set(now.items()) ^ set(before.items()))[:4]
            self.fail('publish-monotonic', 'rejected-but-changed-files', f'raw tree changed: {delta}', tags)
            return
        for path, (sha, what) in sorted(listed_files(model, before).items()):
            if path not in now:
                self.fail('append-only', 'earlier-file-removed', f'{path} disappeared', tags + ['in=' + what])
                return
            if now[path] != sha:
                self.fail('append-only', 'earlier-bytes-changed', f'{path} changed', tags + ['in=' + what])
                return

    def judge_crash(self, op, model, after, new, tags, events, k, jmode, before, crashkey, probing=False):
        ex = self.ex
        n = len(events)
        if k < n:
            ev = events[k]
            site = f"{ev['func']}/{ev['fsop']}/{ev['role']}"
            where = {'posix.close': 'commit', 'posix.push': 'publish', 'posix.write': 'dump'}.get(ev['func'], 'other')
            self.classes.add('crash:' + where)
            if where in ('commit', 'publish'):
                self.inside = True
            if ev['fsop'] == 'write':
                self.classes.add('crash:inside-write')
        else:
            site = 'after-last-event'
            self.classes.add('crash:after-last')
        self.classes.add('crash')
        self.crashed.add(crashkey)
        tags = tags + ['site=' + site]
        what = f"{op['op']} {new[1:4]} crashed at event {k}/{n} ({site}, j={jmode})"
        obs = ex.observe()
        exp_b, exp_a = expected(model, ex.regkind), expected(after, ex.regkind)
        bad_b = diffs(exp_b, obs)
        outcome = None
        if not bad_b:
            outcome = model
            self.classes.add('crash:sees-previous')
        else:
            bad_a = diffs(exp_a, obs)
            if not bad_a:
                outcome = after
                self.classes.add('crash:sees-complete-new')
            else:
                elsewhere = [b for b in bad_a if not on_item(b[0], new)]
                if elsewhere:
                    other = [b for b in bad_b if not on_item(b[0], new)] or elsewhere
                    key = self.fail('crash-consistent', 'earlier:' + other[0][1], f'{what}: {other[:4]}', tags)
                else:
                    label = 'new-generation:' if new[0] == 'gen' else 'new-release:'
                    key = self.fail('crash-consistent', label + bad_a[0][1], f'{what}: a fresh reader sees {bad_a[:3]}', tags)
                self.classes.add('crash:sees-broken')
        self.raw_check(model, before, tags)
        if outcome is None:
            # keep searching behind the defect: put the registry back to the state before the operation
            if probing:
                self.sink.mask(key)
            ex.restore()
            return model
        return outcome

    # -- exhaustive crash points of one operation, each followed by a retry
    def sweep(self, i, op, model, after, new, tags, call, events, before, crashkey):
        ex = self.ex
        ex.stash()
        points = []
        for k, ev in enumerate(events):
            if ev['fsop'] == 'write':
                seen = set()
                for jmode in fault.JMODES:
                    nbytes = fault.jbytes(jmode, ev['size'])
                    if nbytes not in seen:
                        seen.add(nbytes)
                        points.append((k, jmode))
            else:
                points.append((k, 'zero'))
        points.append((len(events), 'zero'))
        STATS['crash_points_enumerated'] += len(points)
        STATS['operations_swept'] += 1
        base = {x: y for x, y in op.items() if x not in ('sweep', 'crash')}
        for k, jmode in points:
            ex.restore()
            status, seen, _ = call((k, jmode))
            if status != 'crashed':
                raise W.HarnessFault(f'sweep: crash point {k} of {len(events)} not reached')
            probe = self.probe_ops(op, model, after, new, i)
            prefix = [{x: y for x, y in o.items() if x != 'sweep'} for o in self.spec['ops'][:i]]
            spec = dict(self.spec, ops=prefix + [dict(base, crash={'k': k, 'j': jmode})] + probe)
            sub = self.branch(spec)
            state = sub.judge_crash(op, model, after, new, tags, events, k, jmode, before, crashkey, probing=True)
            if 'crash:sees-broken' not in sub.classes:
                try:
                    for j, extra in enumerate(probe):
                        state = sub.step(i + 1 + j, extra, state)
                except Stop:
                    sub.classes.add('stopped-after-mismatch')
            sub.finish()
        ex.unstash()

    def probe_ops(self, op, model, after, new, i):
        """The retry issued after a crash: the same publish again (must succeed if the release is not listed, else be
        rejected) followed by a training, resp. one more training of the same release."""
        clock = 1000 + i
        train = {'op': 'train', 'p': op['p'], 'states': ['70726f6265', '0102'], 'tag': {'mode': 'explicit', 'ts': clock, 'us': 0, 'ordinal': 3}}
        if op['op'] == 'train':
            return [dict(train, r=op['r'])]
        retry = {x: y for x, y in op.items() if x not in ('sweep', 'crash')}
        return [retry, dict(train, r=None if after is model else listed(after, new[1]).index(new[2]))]


# ---- campaign plumbing --------------------------------------------------------------------------------------------------
class Packages:
    """Release packages (dir + zip) built once per (project, version) in a child; plain data afterwards."""

    def __init__(self, base):
        self.base = base
        self.cache = {}

    def __call__(self, name, version):
        key = (name, version)
        if key not in self.cache:
            self.cache[key] = W.in_child(W.build_package, self.base, name, version)[2]
        return self.cache[key]


_ENV = {}
STATS = {'crash_points_enumerated': 0, 'operations_swept': 0}


def env(ctx):
    pid = os.getpid()
    if _ENV.get('pid') != pid:
        base = os.path.join(ctx.scratch, f'c05-{pid}')
        shutil.rmtree(base, ignore_errors=True)
        os.makedirs(base)
        for name in STATS:  # a forked shard starts counting afresh
            STATS[name] = 0
        _ENV.update(pid=pid, base=base, packages=Packages(os.path.join(base, 'pkgs')), counter=itertools.count())
    return _ENV


def _volatile_driver(spec, pkgs):
    rec = Recorder()
    History(rec, spec, LocalExec(), lambda n, v: pkgs[f'{n}|{v}']).run()
    return rec.records


def check_history(ctx, spec):
    e = env(ctx)
    if spec.get('registry', 'posix') == 'volatile':
        pkgs = {}
        for op in spec['ops']:
            if op['op'] == 'publish':
                name = PROJECTS[op['p']]
                pkgs[f"{name}|{op['v']}"] = e['packages'](name, op['v'])
        records = W.in_child(_volatile_driver, spec, pkgs)[2]
        replay_records(ctx, records)
        return
    ex = ForkExec(os.path.join(e['base'], f"h{next(e['counter'])}"))
    staging = _foreign_staging(e['base']) if spec.get('staging') == 'other-fs' else None
    try:
        if staging:
            os.environ['VF_C05_STAGING'] = staging
            ctx.klass('staging:other-file-system')
        History(ctx, spec, ex, e['packages'], sweep_all=ctx.tier == 'thorough').run()
    finally:
        os.environ.pop('VF_C05_STAGING', None)
        if staging:
            shutil.rmtree(staging, ignore_errors=True)
        ex.close()


def _foreign_staging(base: str):
    """A fresh directory on a file system other than the registry's (``staging=`` of the posix registry may point anywhere),
    or None where the machine offers none."""
    import tempfile

    for cand in ('/dev/shm', '/run/user', '/var/tmp'):
        try:
            if os.path.isdir(cand) and os.access(cand, os.W_OK) and os.stat(cand).st_dev != os.stat(base).st_dev:
                return tempfile.mkdtemp(prefix='vf-c05-stage-', dir=cand)
        except OSError:
            continue
    return None


def _train(p, r, states, ts, mode='trigger', **kw):
    return dict({'op': 'train', 'p': p, 'r': r, 'states': states, 'tag': {'mode': mode, 'ts': ts, 'us': 0}}, **kw)


CANONICAL = [
    # every crash point of a commit into a release that already has generations
    [
        {'op': 'publish', 'p': 0, 'v': '1.0', 'kind': 'dir'},
        _train(0, None, ['aa01', 'bb02bb'], 1),
        _train(0, 0, ['cc03', 'dd04dd', 'ee'], 2, sweep=True),
        {'op': 'read', 'p': 0, 'r': None, 'g': None},
    ],
    # every crash point of the very first commit of a release
    [
        {'op': 'publish', 'p': 1, 'v': '0.9', 'kind': 'zip'},
        _train(1, None, ['0a', '0b0b'], 1, sweep=True),
        _train(1, None, ['0c', '0d0d'], 2),
    ],
    # every crash point of a directory based publish next to an existing release
    [
        {'op': 'publish', 'p': 0, 'v': '1.2', 'kind': 'zip'},
        _train(0, None, ['aa'], 1),
        _train(0, None, ['bb'], 2),
        {'op': 'publish', 'p': 0, 'v': '1.10', 'kind': 'dir', 'sweep': True},
        {'op': 'read', 'p': 0, 'r': 0, 'g': 0},
    ],
    # every crash point of a zip based publish of a new project, and of a zip publish next to an existing release
    [
        {'op': 'publish', 'p': 1, 'v': '1.0rc1', 'kind': 'zip', 'sweep': True},
        _train(1, None, ['aa'], 1),
        _train(1, None, ['bb'], 2),
        {'op': 'publish', 'p': 1, 'v': '1.0', 'kind': 'zip', 'sweep': True},
    ],
    # numbering over a gap, rejected publishes
    [
        {'op': 'publish', 'p': 0, 'v': '1.0', 'kind': 'dir'},
        _train(0, None, ['aa'], 1),
        _train(0, None, ['bb', 'cc'], 2),
        _train(0, None, ['dd'], 3),
        {'op': 'prune', 'p': 0, 'r': None, 'g': 0},
        _train(0, None, ['ee', 'ff'], 4, crash={'k': 7, 'j': 'zero'}),
        _train(0, None, ['ee', 'ff'], 5),
        {'op': 'publish', 'p': 0, 'v': '1.0.0', 'kind': 'zip'},
        {'op': 'publish', 'p': 0, 'v': '0.9', 'kind': 'dir'},
        {'op': 'read', 'p': 0, 'r': 0, 'g': 1},
    ],
]


def _handled(op, which):
    return {**op, 'h': which}


#: two live handles on one release (volatile registry, one process): interleaved commits and looks
LIVE_HANDLES = [
    [
        {'op': 'publish', 'p': 0, 'v': '1.0', 'kind': 'dir'},
        _handled(_train(0, 0, ['aa01'], 1), 'a'),
        _handled({'op': 'read', 'p': 0, 'r': 0, 'g': None}, 'b'),
        _handled(_train(0, 0, ['bb02'], 2), 'a'),
        _handled(_train(0, 0, ['cc03'], 3), 'b'),
        {'op': 'read', 'p': 0, 'r': 0, 'g': None},
    ],
    [
        {'op': 'publish', 'p': 0, 'v': '1.0', 'kind': 'zip'},
        _handled(_train(0, 0, ['aa01'], 1), 'a'),
        _handled(_train(0, 0, ['bb02'], 2), 'b'),
        _handled(_train(0, 0, ['cc03'], 3), 'a'),
        _handled(_train(0, 0, ['dd04'], 4), 'b'),
        _handled(_train(0, 0, ['ee05'], 5), 'a'),
        {'op': 'read', 'p': 0, 'r': 0, 'g': 1},
    ],
    [
        {'op': 'publish', 'p': 0, 'v': '1.0', 'kind': 'dir'},
        _train(0, 0, ['aa01'], 1),
        _handled({'op': 'read', 'p': 0, 'r': 0, 'g': None}, 'a'),
        _train(0, None, ['bb02'], 2),
        _handled(_train(0, 0, ['cc03'], 3), 'a'),
        _handled(_train(0, 0, ['dd04'], 4), 'a'),
    ],
]


def campaigns(ctx):
    return [
        Campaign('history', history('posix'), check_history, 70, 12),
        Campaign('gaps', history('posix', gap=True), check_history, 12, 3),
        Campaign('volatile', history('volatile'), check_history, 30, 150),
        Campaign('guards', guard_history(), check_history, 24, 12),
    ]


def spawn_equivalence(ctx):
    """Validate the isolation discipline once per run: a really fresh interpreter observes what a forked child does."""
    import json
    import subprocess
    import sys

    ex = ForkExec(os.path.join(env(ctx)['base'], 'spawn'))
    try:
        pkg = env(ctx)['packages'](PROJECTS[0], '1.0')
        ex.publish(PROJECTS[0], pkg['dir']['path'])
        for n in (1, 2):
            ex.train(PROJECTS[0], None, ['aa' * n, 'bb'], {'mode': 'trigger', 'ts': n, 'us': 0})
        forked = ex.observe()
        code = 'import json, sys\nfrom vf.regx import world as W\nprint("\\n@@" + json.dumps(W.observe(W.registry_at(sys.argv[1]))))'
        out = subprocess.run([sys.executable, '-W', 'ignore', '-c', code, ex.root], capture_output=True, text=True, timeout=120, check=False)
        lines = [ln for ln in out.stdout.splitlines() if ln.startswith('@@')]
        if not lines:
            ctx.inconclusive.append(f'spawned observer failed: {out.stderr[-300:]}')
            return
        spawned = json.loads(lines[-1][2:])
        ctx.extra['fork_equals_spawn'] = spawned == forked
        if spawned != forked or len(forked.get(PROJECTS[0], {}).get('1.0', {}).get('gens', {})) != 2:
            raise W.HarnessFault(f'forked observation differs from a spawned interpreter: {forked} vs {spawned}')
    finally:
        ex.close()


def enumerate_extra(ctx, shard, nshards):
    ctx.campaign = 'history'
    if shard == 0:
        spawn_equivalence(ctx)
    for idx, ops in enumerate(CANONICAL):
        if idx % nshards != shard:
            continue
        check_history(ctx, {'registry': 'posix', 'ops': ops})
        if any(op['op'] == 'publish' and op.get('sweep') for op in ops):  # the same sweep with the staging area elsewhere
            check_history(ctx, {'registry': 'posix', 'ops': ops, 'staging': 'other-fs'})
        if all(op['op'] != 'prune' and 'crash' not in op for op in ops):
            ctx.campaign = 'volatile'
            check_history(ctx, {'registry': 'volatile', 'ops': [{k: v for k, v in op.items() if k != 'sweep'} for op in ops]})
            ctx.campaign = 'history'
    if shard == 0:
        ctx.campaign = 'volatile'
        for ops in LIVE_HANDLES:
            check_history(ctx, {'registry': 'volatile', 'ops': ops})
        ctx.campaign = 'history'
    for name, value in STATS.items():  # summed over the shards by Ctx.merge
        ctx.extra[name] = ctx.extra.get(name, 0) + value
        STATS[name] = 0
    shutil.rmtree(env(ctx)['base'], ignore_errors=True)
    _ENV.clear()


LEVEL_TEXT = (
    'Fault enumeration over generated registry histories: for canonical commits and publishes (quick) and for every '
    'commit/publish of every generated history (thorough) every crash point between two Python-level file-system '
    'events and inside every write (0, 1, half, len-1 bytes) is executed in a forked child, observed by a fresh reader '
    'and followed by a retry; the observation is compared with a dict model kept from the issued operations and with '
    'raw tree digests. Exhaustive inside those scopes, sampled (Hypothesis) over the histories around them.'
)
LEVEL_NOTE = (
    'Trusted: the fs-event wrapper vf/regx/fault.py (events = os.mkdir/rename/replace/unlink/rmdir, open+write, '
    'shutil.copyfile/rmtree under the registry root), the hand-written PEP 440 rank table, Hypothesis. A crash is '
    'process death at Python call granularity; fsync/power-loss reordering and concurrent writers are not modelled; '
    'a forked child of a pristine parent stands for a fresh process; the mlflow registry is not exercised.'
)
TECHNIQUE = 'stateful history generation (Hypothesis) + exhaustive crash-point injection in forked children vs dict model'
