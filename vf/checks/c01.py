"""C01 - the compiled instruction table preserves the task-graph dataflow.

graph spec -> real flow.Worker graph -> flow.compile(segment, assets) -> reference interpreter, compared with the direct
term semantics of the spec (vf.sym.graphgen.Expected).
"""
import collections

from forml import flow

from vf.core.hyp import Campaign
from vf.sym import actors, graphgen, hygiene, interp, term

ID = 'C01'
LEVEL = 'exploration'
RULE = (
    'Hypothesis-generated segment specs (2-12 nodes quick, up to 25 thorough; M:N workers up to 3x3 ports, worker groups '
    'with one trained and any number of applied forks, train/label fed from arbitrary upstream ports, unused ports, '
    'repeated builders, random wiring order, persistent assets with any subset/order of groups, previous generation '
    'present/absent) built with the public flow API, compiled and executed by an independent interpreter; every actor '
    'invocation (arguments in port order, state received) and every asset call is compared with the direct term semantics '
    'of the spec. Non-trivial: a multi-output node, a group with >=2 forks, or >=2 persistent groups. Distinct = spec digest.'
)
ASSUMPTIONS = [
    'actors are uninterpreted function symbols (the flow layer never inspects payloads)',
    'valid segments only: fully connected inputs, tail without applied subscribers, trainer of every derived fork inside the '
    'segment, with assets either all persistent groups are trained in the segment or none is',
]
FLOORS = {'multi-out': 0.3, 'derived': 0.15, 'assets-train': 0.08, 'assets-load': 0.08, 'fan-out': 0.3}
LEVEL_TEXT = (
    'Generated-program search with an exact oracle: thousands of random task graphs per run (plus every graph of a small '
    'scope in the thorough tier) are compiled by the real compiler, run by a reference interpreter and compared term-for-'
    'term with a direct evaluation of the graph spec. Terms carry full provenance, so any mis-wired port, wrong getter '
    'index, wrong state, double or missing execution, or misplaced load/dump/commit shows up as a term inequality.'
)
LEVEL_NOTE = (
    'Trusted: the direct semantics in vf/sym/graphgen.py (Expected), the reference interpreter vf/sym/interp.py, Hypothesis. '
    'Symbolic payloads; graphs up to 25 nodes; segments outside the stated validity domain are not generated.'
)
TECHNIQUE = 'property-based testing: random task graphs -> real compiler -> reference interpreter vs direct term semantics'


def run_spec(spec):
    """Build, compile, evaluate. Returns (observed calls, asset log, results, structure info)."""
    actors.reset()
    built = graphgen.Built(spec)
    symbols = flow.compile(built.segment(), built.assets)
    info = interp.structure(symbols)
    results = interp.evaluate(symbols)
    return list(actors.CALLS), list(built.log), results, info, symbols


release_graph = hygiene.release_graph


def _norm_call(c):
    kind, name, hp, state, args = c
    return (kind, name, hp.dig, None if state is None else state.dig, tuple(a.dig if isinstance(a, term.Term) else repr(a) for a in args))


def compare_calls(expected, observed):
    """None or (kind, detail)."""
    exp = collections.Counter(_norm_call(c) for c in expected)
    obs = collections.Counter(_norm_call(c) for c in observed)
    if exp == obs:
        return None
    missing = exp - obs
    extra = obs - exp
    # classify: same (kind, name) multiset => arguments/state differ; else count differs
    e_names = collections.Counter((c[0], c[1]) for c in exp.elements())
    o_names = collections.Counter((c[0], c[1]) for c in obs.elements())
    if e_names != o_names:
        kind = 'count'
    else:
        m = next(iter(missing))
        cands = [x for x in extra if x[:2] == m[:2]]
        x = cands[0] if cands else next(iter(extra))
        if m[3] != x[3]:
            kind = 'state'
        elif sorted(m[4]) == sorted(x[4]):
            kind = 'arg-order'
        else:
            kind = 'args'
    em = {_norm_call(c): c for c in expected}
    om = {_norm_call(c): c for c in observed}
    detail = 'missing: ' + '; '.join(repr(em[k]) for k in list(missing)[:2]) + ' | extra: ' + '; '.join(repr(om[k]) for k in list(extra)[:2])
    return kind, detail


def check_graph(ctx, spec):
    cls = graphgen.classes(spec)
    ctx.case(spec, nontrivial=graphgen.nontrivial(spec), classes=cls)
    exp = graphgen.Expected(spec)
    try:
        calls, alog, results, info, symbols = run_spec(spec)
    except interp.TableError as err:
        ctx.fail(spec, 'structure', err.kind, str(err))
        return
    except Exception as exc:
        one = len(spec['nodes']) == 1
        ctx.fail_exc(spec, 'compile-or-run-raises', exc, ['one-node'] if one else [])
        return
    finally:
        term.clear()
        release_graph()
    bad = compare_calls(exp.calls(), calls)
    if bad:
        ctx.fail(spec, 'calls', bad[0], bad[1])
    # value at the sink
    tail = spec['tail']
    if spec['groups'][spec['nodes'][tail]['g']]['nout'] == 1:
        want = exp.value(tail)
        if not any(isinstance(v, term.Term) and v == want for v in results.values()):
            ctx.fail(spec, 'tail-value', 'absent', f'expected {want!r}')
    # assets
    loads, dumps, commit = exp.asset_ops()
    got_loads = sorted(e[1] for e in alog if e[0] == 'get')
    if got_loads != loads:
        ctx.fail(spec, 'assets-load', 'offsets', f'expected {loads} got {got_loads}')
    got_dumps = [e for e in alog if e[0] == 'dump']
    puts = [e for e in alog if e[0] == 'put']
    if commit:
        sid_of = {}
        for _, sid, state in got_dumps:
            if state and not isinstance(state, (bytes, bytearray)):
                # a dumper was handed something that is not a serialised state at all (e.g. an actor's apply output)
                ctx.fail(spec, 'assets-dump', 'not-a-state', f'dumped object of type {type(state).__name__}: {state!r}'[:300])
                return
            sid_of.setdefault(term.from_bytes(state).dig if state else None, []).append(sid)
        got_digs = sorted(k for k, sids in sid_of.items() if k for _ in sids)  # multiset: twin groups may dump equal states
        if got_digs != sorted(s.dig for s in dumps.values()) or len(got_dumps) != len(dumps):
            ctx.fail(spec, 'assets-dump', 'states', f'expected {len(dumps)} dumps of {list(dumps.values())!r}, got {len(got_dumps)}')
        elif len(puts) != 1:
            ctx.fail(spec, 'assets-commit', 'count', f'{len(puts)} commits')
        else:
            committed = puts[0][1]
            want = [sid_of[dumps[k].dig] for k in range(len(exp.persistent))] if len(dumps) == len(exp.persistent) else None
            ok = (
                want is not None
                and len(committed) == len(want)
                and all(committed[k] in want[k] for k in range(len(want)))
                and len(set(committed)) == len(committed)
            )
            if not ok:
                ctx.fail(spec, 'assets-commit', 'positions', f'committed {committed} expected per position {want}')
    else:
        if got_dumps or puts:
            ctx.fail(spec, 'assets-dump', 'unexpected', f'{len(got_dumps)} dumps / {len(puts)} commits without persistent trained group')
    term.clear()


def campaigns(ctx):
    return [
        Campaign('graph', graphgen.graphs(max_nodes=11), check_graph, 2500, 12000),
        Campaign('graph-large', graphgen.graphs(max_nodes=24), check_graph, 150, 1500),
    ]


def enumerate_extra(ctx, shard, nshards):
    """Every graph of a small scope (exhaustive; see vf/sym/enumgraphs.py): quick = 1 node between head and tail,
    thorough = 2 nodes with shapes up to 2x2 and 3 nodes of shape 1x1."""
    from vf.sym import enumgraphs

    ctx.campaign = 'graph'
    scopes = [(1, ((1, 1), (2, 1), (1, 2)))]
    if ctx.tier == 'thorough':
        scopes = [(2, ((1, 1), (2, 1), (1, 2))), (3, ((1, 1),))]
    n = 0
    for middle, shapes in scopes:
        for k, spec in enumerate(enumgraphs.all_graphs(middle, shapes)):
            if k % nshards != shard:
                continue
            check_graph(ctx, spec)
            n += 1
    ctx.extra['enumerated_small_scope'] = ctx.extra.get('enumerated_small_scope', 0) + n
    ctx.extra['small_scope'] = [f'middle<={m} shapes={list(sh)}' for m, sh in scopes]
