"""C19 - content negotiation picks the client's most preferred supported encoding.

Campaigns (all specs are JSON-able):
* header   - media-range lists rendered to a header string; oracle = reference parse computed from the *spec*
             (never from the rendered string): kinds lower-cased, options without q, stable order by descending q.
* match    - (pattern, concrete) encoding pairs; oracle = own glob + option-subset predicate.
* nego     - Accept / Content-Type negotiation against the supported codec lists; oracle = reference negotiation.
* codec    - encode -> decode round trips on the codec pairs usable in this environment.
"""
import re

import numpy
import pandas
from hypothesis import strategies as st

from forml.io import dsl, layout
from forml.io.layout import _codec

from vf.core.hyp import Campaign

ID = 'C19'
LEVEL = 'exploration'
RULE = (
    'Hypothesis-generated media-range lists (1-5 ranges, wildcards, 0-3 options, RFC 7231 q-values incl. ties/missing/'
    'upper-case Q at any parameter position, random case and optional whitespace), (pattern, concrete) encoding pairs, '
    'Accept/Content-Type negotiations and small tables for codec round trips. Non-trivial: header with >=2 ranges and '
    '(a q tie or a wildcard); match pair with options or wildcard; negotiation where the winner is not decided by the '
    'first range; table with >=2 columns and >=1 row. Distinct = distinct spec digest.'
)
ASSUMPTIONS = [
    'header grammar restricted to RFC 7230 tokens (no quoted strings, no duplicate parameter names in one range, valid q-values)',
    'pandas.read_json in this environment (pandas 3) rejects literal JSON: codec pairs failing a trivial probe table are '
    'counted as unusable, not as violations - except the three pairs usable on the unchanged tree under pandas 3, which are pinned',
    'CSV round trip compared with float tolerance 1e-9 relative (pandas fast float parser); strings restricted to values '
    'that CSV type inference keeps as strings',
]
FLOORS = {'header:tie': 0.05, 'header:wildcard': 0.1, 'nego:second-choice': 0.03}

# ---- generators ------------------------------------------------------------------------------------------------------
_TYPES = ['application', 'text', 'image', 'foo', '*']
_SUBS = ['json', 'csv', 'html', 'x-bar', 'gif', '*', 'j*', '*n']
_ONAMES = ['format', 'charset', 'a', 'level', 'version']
_OVALS = ['pandas-records', 'pandas-columns', 'pandas-values', 'pandas-split', 'UTF-8', 'utf-8', 'x', '1', 'foobar']
_QS = [None, '1', '1.0', '1.000', '0', '0.0', '0.1', '0.5', '0.50', '0.500', '0.6', '0.8', '0.333', '0.9', '0.25']


def _casing(s: str, mask: int) -> str:
    return ''.join(c.upper() if (mask >> (i % 16)) & 1 else c for i, c in enumerate(s))


@st.composite
def media_range(draw, realistic=False):
    if realistic and draw(st.integers(0, 9)) < 7:
        kind = draw(
            st.sampled_from(['application/json', 'text/csv', '*/*', 'application/*', 'text/*', '*/json', '*/csv', 'application/j*'])
        )
        typ, sub = kind.split('/')
    else:
        typ, sub = draw(st.sampled_from(_TYPES)), draw(st.sampled_from(_SUBS))
    nopt = draw(st.sampled_from([0, 0, 0, 1, 1, 2, 3]))
    names = draw(st.lists(st.sampled_from(_ONAMES), min_size=nopt, max_size=nopt, unique=True))
    if realistic and names and draw(st.booleans()):
        names[0] = 'format'
        names = list(dict.fromkeys(names))
    params = [[n, draw(st.sampled_from(_OVALS))] for n in names]
    q = draw(st.sampled_from(_QS))
    return {
        'type': typ,
        'sub': sub,
        'params': params,
        'q': q,
        'qpos': draw(st.integers(0, 3)),
        'qname': draw(st.sampled_from(['q', 'q', 'Q'])),
        'case': draw(st.sampled_from([0, 0, 0xFFFF, 0x5555, 0x1, 0x92])),
        'ws': draw(st.lists(st.sampled_from(['', ' ', '  ', '\t']), min_size=4, max_size=4)),
    }


def header_spec(realistic=False):
    return st.lists(media_range(realistic), min_size=1, max_size=5)


def render(spec) -> str:
    parts = []
    for r in spec:
        kind = _casing(f"{r['type']}/{r['sub']}", r['case'])
        params = [f'{_casing(n, r["case"] >> 3)}={v}' for n, v in r['params']]
        if r['q'] is not None:
            params.insert(min(r['qpos'], len(params)), f"{r['qname']}={r['q']}")
        w = r['ws']
        item = kind + ''.join(f'{w[0]};{w[1]}{p}' for p in params)
        parts.append(item)
    seps = [f"{spec[i]['ws'][2]},{spec[i]['ws'][3]}" for i in range(len(spec) - 1)]
    out = parts[0]
    for s, p in zip(seps, parts[1:]):
        out += s + p
    return out


# ---- reference model --------------------------------------------------------------------------------------------------
def ref_parse(spec):
    items = []
    for i, r in enumerate(spec):
        q = 1.0 if r['q'] is None else float(r['q'])
        items.append((-q, i, (f"{r['type']}/{r['sub']}".lower(), {n.lower(): v for n, v in r['params']})))
    items.sort(key=lambda t: (t[0], t[1]))
    return [t[2] for t in items]


def ref_glob(pattern: str, value: str) -> bool:
    rx = ''.join('.*' if c == '*' else re.escape(c) for c in pattern)
    return re.fullmatch(rx, value, flags=re.S) is not None


def ref_match(pattern, concrete) -> bool:
    pk, po = pattern
    ck, co = concrete
    return '*' not in ck and ref_glob(pk, ck) and all(k in co and co[k] == v for k, v in po.items())


def as_pair(enc):
    return enc.kind, dict(enc.options)


# ---- campaign: header --------------------------------------------------------------------------------------------------
def check_header(ctx, spec):
    header = render(spec)
    qs = [1.0 if r['q'] is None else float(r['q']) for r in spec]
    tie = len(set(qs)) < len(qs)
    wild = any('*' in r['type'] + r['sub'] for r in spec)
    classes = ['header']
    if tie:
        classes.append('header:tie')
    if wild:
        classes.append('header:wildcard')
    if any(r['qname'] == 'Q' and r['q'] is not None for r in spec):
        classes.append('header:upper-Q')
    if any(r['params'] for r in spec):
        classes.append('header:options')
    ctx.case({'header': header}, nontrivial=len(spec) >= 2 and (tie or wild), classes=classes)
    expected = ref_parse(spec)
    for mode in ('cold', 'warm', 'warm'):
        try:
            if mode == 'cold':
                got = layout.Encoding.parse.__wrapped__(layout.Encoding, header)
            else:
                got = layout.Encoding.parse(header)
        except Exception as exc:
            ctx.fail_exc(spec, 'parse-raises', exc, [mode])
            return
        got = [as_pair(e) for e in got]
        if got != expected:
            kinds_ok = sorted(map(repr, got)) == sorted(map(repr, expected))
            ctx.fail(
                spec,
                'parse',
                'order' if kinds_ok else 'content',
                f'header={header!r} expected={expected} got={got}',
                [mode] + (['tie'] if tie else []),
            )
            return


# ---- campaign: match ---------------------------------------------------------------------------------------------------
@st.composite
def enc_spec(draw, concrete: bool):
    if concrete:
        kind = draw(st.sampled_from(['application/json', 'text/csv', 'text/html', 'application/xml', 'image/gif', 'application/*', 'text/json']))
    else:
        kind = draw(
            st.sampled_from(
                ['*/*', 'application/*', 'text/*', '*/json', 'application/json', 'text/csv', 'app*/json', 'application/j*', '*', 'a*/*n', 'text/html', '*/*/*', 'application/jso']
            )
        )
    n = draw(st.sampled_from([0, 0, 1, 1, 2]))
    names = draw(st.lists(st.sampled_from(['format', 'charset', 'a']), min_size=n, max_size=n, unique=True))
    opts = {k: draw(st.sampled_from(['x', 'y', 'UTF-8', 'utf-8', ''])) for k in names}
    return {'kind': kind, 'case': draw(st.sampled_from([0, 0, 0xFFFF, 0x5])), 'options': opts}


match_spec = st.fixed_dictionaries({'pattern': enc_spec(False), 'concrete': enc_spec(True), 'order': st.booleans()})


def _mk(es):
    return layout.Encoding(_casing(es['kind'], es['case']), **es['options'])


def check_match(ctx, spec):
    p, c = spec['pattern'], spec['concrete']
    if spec['order']:  # same options, different insertion order must not matter
        c = dict(c, options=dict(reversed(list(c['options'].items()))))
    expected = ref_match((p['kind'].lower(), p['options']), (c['kind'].lower(), c['options']))
    classes = ['match', 'match:true' if expected else 'match:false']
    ctx.case(spec, nontrivial=bool(p['options']) or '*' in p['kind'], classes=classes)
    pat, con = _mk(p), _mk(c)
    try:
        got_cold = layout.Encoding.match.__wrapped__(pat, con)
        got_warm = pat.match(con)
    except Exception as exc:
        ctx.fail_exc(spec, 'match-raises', exc)
        return
    if got_cold != expected or got_warm != expected:
        ctx.fail(spec, 'match', f'expected-{expected}', f'pattern={as_pair(pat)} concrete={as_pair(con)} got={got_cold}/{got_warm}')


# ---- campaign: negotiation -----------------------------------------------------------------------------------------------
def check_nego(ctx, spec):
    header = render(spec)
    prefs = ref_parse(spec)
    supported = [as_pair(e.encoding) for e in _codec.ENCODERS]
    expected = None
    which = None
    for i, pat in enumerate(prefs):
        for j, enc in enumerate(supported):
            if ref_match(pat, enc):
                expected, which = j, i
                break
        if expected is not None:
            break
    classes = ['nego', 'nego:unsupported' if expected is None else 'nego:found']
    if which:
        classes.append('nego:second-choice')
    ctx.case({'accept': header}, nontrivial=bool(which) or (expected is not None and expected > 0), classes=classes)
    try:
        accept = layout.Encoding.parse(header)
    except Exception as exc:
        ctx.fail_exc(spec, 'parse-raises', exc)
        return
    for mode in ('cold', 'warm'):
        fn = getattr(layout.get_encoder, '__wrapped__', layout.get_encoder) if mode == 'cold' else layout.get_encoder
        try:
            got = fn(*accept)
            if got is None:  # "otherwise the unsupported-encoding error is raised": returning nothing is not raising
                ctx.fail(spec, 'get_encoder', 'returned-none', f'accept={header!r}: no encoder and no Unsupported error', [mode])
                return
        except layout.Encoding.Unsupported:
            got = None
        except Exception as exc:
            ctx.fail_exc(spec, 'encoder-raises', exc, [mode])
            return
        gidx = None if got is None else [i for i, e in enumerate(_codec.ENCODERS) if e is got][0]
        if gidx != expected:
            kind = 'unsupported-vs-found' if (gidx is None) != (expected is None) else 'wrong-encoder'
            ctx.fail(
                spec,
                'get_encoder',
                kind,
                f'accept={header!r} expected={None if expected is None else supported[expected]} got={None if gidx is None else supported[gidx]}',
                [mode],
            )
            return
    # content type -> decoder: the most preferred parsed range is what the gateway uses as the declared content type
    top = prefs[0]
    declared = [as_pair(e) for _, e in _codec.DECODERS]
    dexp = next((i for i, d in enumerate(declared) if ref_match(d, top)), None)
    for mode in ('cold', 'warm'):
        fn = getattr(layout.get_decoder, '__wrapped__', layout.get_decoder) if mode == 'cold' else layout.get_decoder
        try:
            got = fn(accept[0])
            if got is None:
                ctx.fail(spec, 'get_decoder', 'returned-none', f'content-type={top}: no decoder and no Unsupported error', [mode])
                return
        except layout.Encoding.Unsupported:
            got = None
        except Exception as exc:
            ctx.fail_exc(spec, 'decoder-raises', exc, [mode])
            return
        gidx = None if got is None else [i for i, (d, _) in enumerate(_codec.DECODERS) if d is got][0]
        if gidx != dexp:
            kind = 'unsupported-vs-found' if (gidx is None) != (dexp is None) else 'wrong-decoder'
            ctx.fail(spec, 'get_decoder', kind, f'content-type={top} expected={dexp} got={gidx}', [mode])
            return


# ---- campaign: the whole endpoint path (Request -> Generic.respond) ---------------------------------------------------------
_CTYPES = ['application/json', 'text/csv', 'application/json; format=pandas-records', 'application/json; format=pandas-split', 'foo/x-bar']
def _mr(params=(), q=None):
    return {'type': '*', 'sub': '*', 'params': [list(p) for p in params], 'q': q, 'qpos': 0, 'qname': 'q', 'case': 0, 'ws': ['', ' ', '', ' ']}


_WILD_ONLY = [[_mr()], [_mr(q='0.8')], [_mr([('foo', '1')])], [_mr(), _mr([('format', 'csv')], '0.5')], [_mr([('format', 'pandas-split')])]]


@st.composite
def endpoint_spec(draw):
    """What a gateway hands over: a declared content type plus the Accept header (absent / wildcards only / anything)."""
    mode = draw(st.sampled_from(['none', 'wild', 'wild', 'any', 'any', 'any']))
    accept = None if mode == 'none' else draw(st.sampled_from(_WILD_ONLY)) if mode == 'wild' else draw(header_spec(realistic=True))
    return {'ctype': draw(st.sampled_from(_CTYPES)), 'accept': accept}


_OUTCOME = layout.Outcome(dsl.Schema.from_fields(dsl.Field(dsl.Integer(), name='y')), [(1,), (2,)])


def check_endpoint(ctx, spec):
    """The client's preference order must survive layout.Request and decide the encoder in Generic.respond: with an Accept
    header it is the header's order (nothing put in front of it), without one the request's own content type."""
    from forml import application

    ctype = layout.Encoding.parse(spec['ctype'])[0]
    if spec['accept'] is None:
        prefs = [as_pair(ctype)]
        accept = None
    else:
        prefs = ref_parse(spec['accept'])
        accept = layout.Encoding.parse(render(spec['accept']))
    supported = [as_pair(e.encoding) for e in _codec.ENCODERS]
    expected = next((j for pat in prefs for j, enc in enumerate(supported) if ref_match(pat, enc)), None)
    if expected is not None:  # first preference that is supported at all, then the first encoder matching it
        for pat in prefs:
            hit = next((j for j, enc in enumerate(supported) if ref_match(pat, enc)), None)
            if hit is not None:
                expected = hit
                break
    only_wild = spec['accept'] is not None and all(k == '*/*' for k, _ in prefs)
    classes = ['endpoint', 'endpoint:no-accept' if spec['accept'] is None else 'endpoint:wild-only' if only_wild else 'endpoint:accept']
    classes.append('endpoint:unsupported' if expected is None else 'endpoint:found')
    ctx.case(spec, nontrivial=spec['accept'] is not None and as_pair(ctype) != (prefs[0] if prefs else None), classes=classes)
    tags = [classes[1].split(':')[1]]
    try:
        request = layout.Request(b'[]', ctype, {}, accept)
    except Exception as exc:
        ctx.fail_exc(spec, 'request-raises', exc, tags)
        return
    got_prefs = [as_pair(e) for e in request.accept]
    if got_prefs != prefs:
        ctx.fail(spec, 'request-accept', 'preference-order-changed', f'ctype={spec["ctype"]} accept={prefs} request.accept={got_prefs}', tags)
        return
    app = application.Generic('endpoint-probe')
    try:
        payload = app.respond(_OUTCOME, request.accept, None)
        gidx = next((i for i, e in enumerate(_codec.ENCODERS) if e.encoding == payload.encoding), -1)
    except layout.Encoding.Unsupported:
        gidx = None
    except Exception as exc:
        ctx.fail_exc(spec, 'respond-raises', exc, tags)
        return
    if gidx != expected:
        kind = 'unsupported-vs-found' if (gidx is None) != (expected is None) else 'wrong-encoder'
        ctx.fail(spec, 'respond', kind, f'ctype={spec["ctype"]} accept={prefs} expected={expected} got={gidx}', tags)


# ---- campaign: codec round trip -------------------------------------------------------------------------------------------
_KINDS = {'int': dsl.Integer(), 'float': dsl.Float(), 'str': dsl.String()}
_cell = {
    'int': st.integers(-(2**40), 2**40),
    'float': st.integers(-(10**6), 10**6).map(lambda i: i / 8 + 0.0625),  # never integral, exactly representable
    'str': st.text('abcxyz', min_size=1, max_size=5).map(lambda s: 'v_' + s),
}


@st.composite
def table_spec(draw):
    ncol = draw(st.integers(1, 4))
    kinds = [draw(st.sampled_from(['int', 'float', 'str'])) for _ in range(ncol)]
    nrow = draw(st.integers(1, 5))
    rows = [[draw(_cell[k]) for k in kinds] for _ in range(nrow)]
    names = [f'c{i}' for i in range(ncol)]
    if draw(st.booleans()):
        names = names[::-1]
    return {'names': names, 'kinds': kinds, 'rows': rows}


_PAIRS = None


def usable_pairs():
    """(label, encoder, decoder) triples that survive a trivial probe in this environment."""
    global _PAIRS
    if _PAIRS is None:
        _PAIRS = []
        probe = {'names': ['a', 'b'], 'kinds': ['int', 'str'], 'rows': [[1, 'v_x'], [2, 'v_y']]}
        cands = []
        for enc in _codec.ENCODERS:
            try:
                cands.append((enc.encoding.header, enc, layout.get_decoder(enc.encoding)))
            except layout.Encoding.Unsupported:
                continue
        # decoder selected for a plain 'application/json' content type, documented to take row dicts and columns
        plain = layout.get_decoder(layout.Encoding('application/json'))
        for enc in _codec.ENCODERS:
            if enc.encoding.options.get('format') in ('pandas-records', 'pandas-columns'):
                cands.append((enc.encoding.header + ' -> application/json', enc, plain))
        for label, enc, dec in cands:
            try:
                if _roundtrip(probe, enc, dec) is None:
                    _PAIRS.append((label, enc, dec))
            except Exception:
                pass
    return _PAIRS


def _roundtrip(spec, enc, dec):
    """Returns None when the table survives, else a description."""
    schema = dsl.Schema.from_fields(*(dsl.Field(_KINDS[k], name=n) for n, k in zip(spec['names'], spec['kinds'])))
    outcome = layout.Outcome(schema, [tuple(r) for r in spec['rows']])
    data = enc.dumps(outcome)
    entry = dec.loads(data)
    names = [f.name for f in entry.schema]
    if names != spec['names']:
        return f'column names {names} != {spec["names"]}'
    rows = [list(r) for r in entry.data.to_rows()]
    if len(rows) != len(spec['rows']):
        return f'{len(rows)} rows != {len(spec["rows"])}'
    for r, (got, exp) in enumerate(zip(rows, spec['rows'])):
        if len(got) != len(exp):
            return f'row {r} width {len(got)}'
        for c, (g, e) in enumerate(zip(got, exp)):
            if isinstance(e, float):
                ok = isinstance(g, (float, numpy.floating)) and abs(float(g) - e) <= 1e-9 * max(1.0, abs(e))
            elif isinstance(e, int):
                # a row view over mixed int/float columns may hold the integer as an equal float: same value
                ok = isinstance(g, (int, float, numpy.integer, numpy.floating)) and not isinstance(g, bool) and g == e
            else:
                ok = isinstance(g, str) and g == e
            if not ok:
                return f'cell ({r},{c}) {g!r} != {e!r}'
    return None


# what the probe finds usable on the unchanged tree in this environment (pandas 3: the pandas-format JSON *decoders* are
# out). Pinned, because "usable" is decided by running the code under test: a change that breaks a codec altogether would
# otherwise just shrink the list (found by tools/mutsweep.py: dropped returns in Encoder.dumps / Json.to_pandas survived)
_PINNED = ['text/csv', 'application/json; format=pandas-records -> application/json', 'application/json; format=pandas-columns -> application/json']


def check_codec(ctx, spec):
    pairs = usable_pairs()
    if pandas.__version__.split('.')[0] == '3':
        for label in _PINNED:
            if label not in [lbl for lbl, _, _ in pairs]:
                ctx.fail(spec, 'roundtrip', 'codec-pair-unusable', f'{label}: fails the two-row probe table', [label])
    ctx.case(spec, nontrivial=len(spec['names']) >= 2, classes=['codec'] + [f'codec:{lbl}' for lbl, _, _ in pairs])
    for label, enc, dec in pairs:
        try:
            bad = _roundtrip(spec, enc, dec)
        except Exception as exc:
            ctx.fail_exc(spec, 'roundtrip-raises', exc, [label])
            continue
        if bad is not None:
            ctx.fail(spec, 'roundtrip', 'differs', f'{label}: {bad}', [label])


def campaigns(ctx):
    return [
        Campaign('header', header_spec(), check_header, 4000, 40000),
        Campaign('match', match_spec, check_match, 4000, 40000),
        Campaign('nego', header_spec(realistic=True), check_nego, 4000, 40000),
        Campaign('codec', table_spec(), check_codec, 300, 6000),
        Campaign('endpoint', endpoint_spec(), check_endpoint, 1500, 10000),
    ]


def enumerate_extra(ctx, shard, nshards):
    """All (pattern, concrete) pairs over the declared encoder/decoder encodings plus wildcard patterns."""
    if shard != 0:
        return
    ctx.campaign = 'match'
    ctx.extra['usable_codec_pairs'] = [lbl for lbl, _, _ in usable_pairs()]
    encs = [as_pair(e.encoding) for e in _codec.ENCODERS] + [as_pair(e) for _, e in _codec.DECODERS]
    pats = encs + [('*/*', {}), ('application/*', {}), ('text/*', {}), ('*/json', {}), ('*/*', {'format': 'pandas-split'})]
    for p in pats:
        for c in encs:
            spec = {'pattern': {'kind': p[0], 'case': 0, 'options': p[1]}, 'concrete': {'kind': c[0], 'case': 0, 'options': c[1]}, 'order': False}
            check_match(ctx, spec)

LEVEL_TEXT = (
    'Generated-input search: thousands of header strings, encoding pairs and negotiations per run are compared with an '
    'independent reference parser/matcher/negotiator computed from the generator spec, plus codec round trips on the '
    'pairs usable here. Appropriate because the property is a pure input->output relation with a cheap exact oracle; '
    'it is evidence over the sampled grammar, not a proof.'
)
LEVEL_NOTE = (
    'Trusted: reference parser/matcher in vf/checks/c19.py, Hypothesis. Assumes token-only header grammar and valid '
    'q-values; pandas-JSON decoders are unusable under pandas 3 here and are excluded after a probe.'
)
TECHNIQUE = 'property-based testing (Hypothesis) vs reference model; round-trip oracle for codecs'

# coverage-guided (atheris) pass of the thorough tier: (campaign, libFuzzer runs, instrumented module prefixes)
FUZZ = [('header', 40000, ['forml.io.layout', 'cgi']), ('nego', 40000, ['forml.io.layout', 'cgi'])]
