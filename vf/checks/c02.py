"""C02 - every runner executes a compiled workflow with identical results.

Differential: symbol tables compiled from generated task graphs are run by dask (synchronous / threads / processes) and
by the pyfunc expression (apply-mode, single-source single-sink tables) and compared with the reference interpreter:
the set of actor invocations (actor, hyper-parameters, state, argument terms in order), the sink value, and the
persisted states per position.
"""
import atexit
import concurrent.futures
import multiprocessing
import os
import pickle
import shutil
import uuid

import dask

from forml import flow
from forml.io import asset
from forml.provider.runner import dask as dask_runner
from forml.provider.runner import pyfunc

from vf.core.hyp import Campaign
from vf.sym import actors, graphgen, hygiene, interp, term
from vf.sym.term import T

ID = 'C02'
LEVEL = 'exploration'
RULE = (
    'Hypothesis-generated task graphs (as in C01: fan-out at any depth, unequal branch lengths, shared sub-results, '
    'multi-output getters, state loaders, repeated builders; train-mode tables with dumpers/committer for dask, apply-mode '
    'single-source single-sink tables for pyfunc) compiled to symbol tables and executed on dask synchronous/threads (every '
    'case), dask processes (subset, shared spawn pool) and pyfunc. Non-trivial: the table has a result with >=2 consumers and '
    '(branches of unequal depth, a getter or a loader). Distinct = spec digest.'
)
ASSUMPTIONS = [
    'symbolic payloads; states persisted through a file-backed stand-in for the registry generation (the registry itself is C05)',
    'observables: set of distinct actor invocations with full argument provenance, sink value, committed state bytes per '
    'position (dask merges equal pure tasks, so invocation *counts* are not compared here; C01 covers exactly-once on the table)',
    'distributed scheduler, Spark and graphviz runners not exercised (need a cluster/JVM/binaries)',
]
FLOORS = {'fan-out': 0.3, 'source-fanout': 0.1, 'unequal-branches': 0.15, 'pyfunc-failing-request': 0.2, 'dask-train': 0.05}
LEVEL_TEXT = (
    'Differential generated-program search: the same compiled table is executed by each backend and by an independent '
    'dependency-ordered interpreter; provenance terms make any difference in what an actor received or what was persisted '
    'visible. Crashes of a backend on a table the others run are failures; hangs are bounded by a harness timeout and '
    'reported as inconclusive unless reproduced.'
)
LEVEL_NOTE = (
    'Trusted: reference interpreter, Hypothesis, dask itself. Processes scheduler only on a subset of cases (spawn cost). '
    'Known genuine defects of the pyfunc transcoder are listed in known_findings.json with narrow keys.'
)
TECHNIQUE = 'differential property-based testing: dask schedulers and pyfunc expression vs reference interpreter'


# ---- file backed stand-in for a registry generation (picklable, shared across worker processes) -------------------------------


class FileRelease:
    def __init__(self, root):
        self.root = root

    def dump(self, state):
        sid = uuid.uuid4()
        with open(os.path.join(self.root, f'state-{sid}'), 'wb') as fh:
            fh.write(state)
        return sid

    def put(self, tag):
        path = os.path.join(self.root, f'commit-{uuid.uuid4()}')
        with open(path, 'wb') as fh:
            pickle.dump([str(s) for s in tag.states], fh)
        return FileGeneration(self.root, True)


class FileGeneration:
    def __init__(self, root, prev):
        self.root = root
        self.prev = prev
        self.release = FileRelease(root)
        self.tag = asset.Tag()

    def get(self, index):
        with open(os.path.join(self.root, f'get-{index}-{uuid.uuid4()}'), 'wb'):
            pass
        if not self.prev:
            return b''
        return term.to_bytes(T('P', index))


def read_store(root):
    """(sorted loaded offsets, list of committed state-term digests per commit)"""
    loads, commits = [], []
    for name in sorted(os.listdir(root)):
        if name.startswith('get-'):
            loads.append(int(name.split('-')[1]))
        elif name.startswith('commit-'):
            with open(os.path.join(root, name), 'rb') as fh:
                sids = pickle.load(fh)
            states = []
            for sid in sids:
                with open(os.path.join(root, f'state-{sid}'), 'rb') as fh:
                    data = fh.read()
                states.append(term.from_bytes(data).dig if data else None)
            commits.append(states)
    return sorted(set(loads)), commits


# ---- running one table on one backend --------------------------------------------------------------------------------------------


def _mentions_boom(value) -> bool:
    if not isinstance(value, term.Term):
        return value == 'boom'
    return any('boom' in t.kids for t in term.subterms(value))


def norm_calls(calls):
    out = set()
    for kind, name, hp, state, args in calls:
        if any(_mentions_boom(a) for a in args):
            continue  # invocations of the deliberately failing request are not part of the comparison
        out.add((kind, name, hp.dig, None if state is None else state.dig, tuple(a.dig if isinstance(a, term.Term) else repr(a) for a in args)))
    return out


def build_table(spec, root):
    built = graphgen.Built(spec)
    assets = None
    if spec['assets']:
        nodes = [built.gids[g] if g >= 0 else uuid.UUID(int=10**9 - g) for g in spec['assets']['persistent']]
        assets = asset.State(FileGeneration(root, spec['assets']['prev']), nodes, asset.Tag())
    return flow.compile(built.segment(), assets)


def fresh_dir(ctx_scratch, label):
    path = os.path.join(ctx_scratch, f'c02-{label}-{os.getpid()}-{uuid.uuid4().hex}')
    os.makedirs(path)
    return path


_POOL = None


def process_log():
    return os.path.join(os.environ.get('VERIF_SCRATCH', '/tmp'), f'c02-processes-calls-{os.getpid()}.log')


def process_pool():
    """One spawn pool for the whole run; its workers inherit the (fixed) call-log path through the environment."""
    global _POOL
    if _POOL is None:
        os.environ['VF_CALL_LOG'] = process_log()
        _POOL = concurrent.futures.ProcessPoolExecutor(2, mp_context=multiprocessing.get_context('spawn'))
        list(_POOL.map(abs, range(4)))  # start the workers now, while the environment is right
        atexit.register(_POOL.shutdown, wait=False, cancel_futures=True)
    return _POOL


def cleanup():
    """Stop the spawn pool of this process (called at the end of a shard, which exits without atexit handlers)."""
    global _POOL
    if _POOL is not None:
        pool, _POOL = _POOL, None
        procs = list((getattr(pool, '_processes', None) or {}).values())
        pool.shutdown(wait=False, cancel_futures=True)
        for proc in procs:  # do not depend on the workers noticing the shutdown
            proc.terminate()
        for proc in procs:
            proc.join(5)


def run_backend(backend, symbols, root):
    """Returns (calls set, value|None). Raises whatever the backend raises."""
    log = os.path.join(root, 'calls.log')
    actors.reset()
    if backend == 'dask-processes':
        process_pool()
        log = process_log()
        open(log, 'wb').close()
    os.environ['VF_CALL_LOG'] = log
    value = None
    try:
        if backend == 'reference':
            results = interp.evaluate(symbols)
        elif backend == 'reference-entry':
            # the serving runner is called repeatedly with different entries: three calls, all values compared
            leaves = interp.structure(symbols)['leaves']
            value = []
            for entry in (None, 'e1', 'e2'):
                results = interp.evaluate(symbols, entry=entry)
                value.append(results[id(leaves[0])] if len(leaves) == 1 else None)
        elif backend == 'pyfunc':
            expression = pyfunc.Expression(symbols)
            value = [expression(entry) for entry in (None, 'e1')]
            if FAILING[0] is not None:  # a request failing inside some actor must fail alone
                actors.FAIL[0] = FAILING[0]
                try:
                    expression('boom')
                    value.append('failing request did not raise')
                except actors.Injected:
                    pass
                finally:
                    actors.FAIL[0] = None
            value.append(expression('e2'))
        elif backend.startswith('dask-'):
            scheduler = backend.split('-', 1)[1]
            if scheduler == 'processes':
                with dask.config.set(scheduler='processes', pool=process_pool()):
                    dask_runner.Runner.run(symbols)
            else:
                with dask.config.set(scheduler=scheduler):
                    dask_runner.Runner.run(symbols)
        else:
            raise ValueError(backend)
    finally:
        os.environ.pop('VF_CALL_LOG', None)
    return norm_calls(actors.read_log(log)), value


def depth_classes(spec):
    """Structural tags of the table derived from the spec."""
    nodes, groups = spec['nodes'], spec['groups']
    cons = {}
    for i, n in enumerate(nodes):
        for p in (n['in'] if n['mode'] == 'apply' else [n['train'], n['label']]):
            cons.setdefault(p[0], set()).add(i)
    depth = {}
    for i, n in enumerate(nodes):
        ins = n['in'] if n['mode'] == 'apply' else [n['train'], n['label']]
        depth[i] = 1 + max((depth[p[0]] for p in ins), default=0)
    out = []
    if len(cons.get(0, ())) >= 2:
        out.append('source-fanout')
    for i, n in enumerate(nodes):
        ins = n['in'] if n['mode'] == 'apply' else [n['train'], n['label']]
        if len({depth[p[0]] for p in ins}) >= 2:
            out.append('unequal-branches')
            break
    return out


def check_table(ctx, spec, backends, label):
    cls = graphgen.classes(spec) + depth_classes(spec) + [label]
    shared = 'fan-out' in cls
    nontrivial = shared and ('unequal-branches' in cls or 'multi-out' in cls or 'assets-load' in cls or 'assets-train' in cls)
    ctx.case(spec, nontrivial=nontrivial, classes=cls + backends)
    tags = [t for t in ('source-fanout',) if t in cls]
    observed = {}
    try:
        for backend in backends:
            root = fresh_dir(ctx.scratch, backend)
            try:
                symbols = build_table(spec, root)
            except Exception as exc:  # compiling is C01's business
                ctx.mask('compile-raises')
                return
            try:
                calls, value = run_backend(backend, symbols, root)
                observed[backend] = (calls, value, read_store(root))
            except Exception as exc:
                if backend.startswith('reference'):
                    ctx.mask('reference-raises')
                    return
                ctx.fail_exc(spec, f'{backend}-raises', exc, tags)
            finally:
                hygiene.release_graph()
                shutil.rmtree(root, ignore_errors=True)
        ref = 'reference-entry' if 'reference-entry' in observed else 'reference'
        for backend, (calls, value, store) in observed.items():
            if backend.startswith('reference'):
                continue
            rcalls, rvalue, rstore = observed[ref]
            if calls != rcalls:
                missing, extra = rcalls - calls, calls - rcalls
                kind = 'missing-invocation' if missing and not extra else 'extra-invocation' if extra and not missing else 'different-invocation'
                ctx.fail(spec, f'{backend}-calls', kind, f'missing {len(missing)} extra {len(extra)}: {sorted(missing)[:1]} vs {sorted(extra)[:1]}', tags)
            if backend == 'pyfunc' and value != rvalue:
                ctx.fail(spec, 'pyfunc-value', 'differs', f'expected {rvalue!r} got {value!r}', tags)
            if store != rstore:
                ctx.fail(spec, f'{backend}-store', 'differs', f'expected loads/commits {rstore} got {store}', tags)
    finally:
        term.clear()


def check_dask(ctx, spec):
    check_table(ctx, spec, ['reference', 'dask-synchronous', 'dask-threads'], 'dask-train' if spec['assets'] and any(n['mode'] == 'train' for n in spec['nodes']) else 'dask')


def check_dask_processes(ctx, spec):
    check_table(ctx, spec, ['reference', 'dask-processes'], 'dask-processes')


#: name of the actor failing in the middle request of the serving history of the current case (None = no failing request)
FAILING = [None]


def check_pyfunc(ctx, spec):
    applied = [n for n in spec['nodes'] if n['mode'] == 'apply']
    FAILING[0] = None
    if 'fail' in spec and spec['fail'] % 3 != 0:
        FAILING[0] = spec['groups'][applied[spec['fail'] % len(applied)]['g']]['name']
    try:
        check_table(ctx, spec, ['reference-entry', 'pyfunc'], 'pyfunc' if FAILING[0] is None else 'pyfunc-failing-request')
    finally:
        FAILING[0] = None
        actors.FAIL[0] = None


def shared_builder_chains() -> list:
    """Serving tables in which 2-3 stateful worker groups are made from the very same builder object (an operator composed
    repeatedly), every one with its own persisted state - rare in the random campaign (twin x same object x persistent)."""
    out = []
    for n in (2, 3):
        for shape in ('chain', 'fan'):
            for order in ([*range(1, n + 1)], [*range(n, 0, -1)]):
                groups = [{'kind': 'fn', 'nin': 0, 'nout': 1, 'hp': {}, 'name': 'g0', 'opaque': 0}]
                nodes = [{'g': 0, 'mode': 'apply', 'in': []}]
                for k in range(1, n + 1):
                    g = {'kind': 'st', 'nin': 1, 'nout': 1, 'hp': {'a': 1}, 'name': 'g1', 'opaque': 1}
                    if k > 1:
                        g.update(twin_of=1, same_builder=True)
                    groups.append(g)
                    nodes.append({'g': k, 'mode': 'apply', 'in': [[k - 1 if shape == 'chain' else 0, 0]]})
                ins = [[n, 0]] if shape == 'chain' else [[k, 0] for k in range(1, n + 1)]
                groups.append({'kind': 'fn', 'nin': len(ins), 'nout': 1, 'hp': {}, 'name': 'gt', 'opaque': 9})
                nodes.append({'g': n + 1, 'mode': 'apply', 'in': ins})
                nwire = sum(len(x['in']) for x in nodes)
                out.append({'groups': groups, 'nodes': nodes, 'tail': n + 1, 'wire': list(range(nwire)),
                            'assets': {'persistent': order, 'prev': True}, 'fail': 0})
    return out


def lookalike_builders() -> list:
    """Two or three *different* builders that print alike (same actor name and visible hyper-parameters, different opaque
    content - like two lambdas) applied to the very same input: every one of them has to run."""
    out = []
    for n in (2, 3):
        groups = [{'kind': 'fn', 'nin': 0, 'nout': 1, 'hp': {}, 'name': 'g0', 'opaque': 0}]
        nodes = [{'g': 0, 'mode': 'apply', 'in': []}]
        for k in range(1, n + 1):
            g = {'kind': 'fn', 'nin': 1, 'nout': 1, 'hp': {'a': 2}, 'name': 'g1', 'opaque': k}
            if k > 1:
                g['twin_of'] = 1
            groups.append(g)
            nodes.append({'g': k, 'mode': 'apply', 'in': [[0, 0]]})
        groups.append({'kind': 'fn', 'nin': n, 'nout': 1, 'hp': {}, 'name': 'gt', 'opaque': 9})
        nodes.append({'g': n + 1, 'mode': 'apply', 'in': [[k, 0] for k in range(1, n + 1)]})
        nwire = sum(len(x['in']) for x in nodes)
        out.append({'groups': groups, 'nodes': nodes, 'tail': n + 1, 'wire': list(range(nwire)), 'assets': None, 'fail': 0})
    return out


def enumerate_extra(ctx, shard, nshards):
    if shard == 0:
        ctx.campaign = 'dask'
        for spec in lookalike_builders():
            check_dask(ctx, spec)
        ctx.campaign = 'pyfunc'
        for spec in lookalike_builders():
            check_pyfunc(ctx, spec)
        for spec in shared_builder_chains():
            check_pyfunc(ctx, spec)
        ctx.campaign = 'dask'
        for spec in shared_builder_chains():
            check_dask(ctx, spec)


def campaigns(ctx):
    return [
        Campaign('dask', graphgen.graphs(max_nodes=9), check_dask, 250, 2500),
        Campaign('pyfunc', graphgen.graphs(max_nodes=8, apply_only=True), check_pyfunc, 350, 3500),
        Campaign('dask-processes', graphgen.graphs(max_nodes=7), check_dask_processes, 12, 120, shrinkable=False),
    ]
