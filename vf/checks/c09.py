"""C09 - a feed is selected exactly when it can resolve the statement.

Campaign ``pool`` (JSON spec): ``{'stmt': <dslx statement AST>, 'feeds': [{'ident', 'prio', 'adv': [<source AST>...]}]}``

* ``feeds`` is the pool in the order handed to ``io.Importer``; ``prio`` is a number (the feed is given as a lazy
  ``setup.Feed`` descriptor with that priority) or ``None`` (an explicit instance = infinite priority, at most one per
  pool); priorities are pairwise distinct.
* ``adv`` are the sources the feed advertises (keys of its ``sources`` mapping, values are plain ``sqlalchemy.table``
  handles): tables, named references, joins, (sub-)queries and sets *taken from the statement's own source tree*, plus
  near misses of them (renamed reference, other join kind / swapped sides, query with a toggled limit / dropped where /
  reordered selection, other set kind / swapped operands, the structural twin table ``E`` for ``C``, a *decoy* table of
  the same name with other fields, a foreign table).

Oracle (reference model over the JSON only): a source is covered by a feed if its AST is among the advertised ASTs, or
- unless it is a table - all its child sources are covered. Expected result of ``Importer.match(statement)`` = the
covering feed with the highest priority, ``forml.MissingError`` iff there is none. Cross-check with the SQLAlchemy parser
(``alchemy.Reader.parser(feed.sources, feed.features)`` over the same statement): the selected feed raises no
``dsl.UnprovisionedError``; every feed of higher priority that was passed over (all feeds when ``MissingError`` is
expected) raises ``dsl.UnprovisionedError``. Any *other* exception of the parser (translation defects that belong to
C06) hides that verdict: counted with ``ctx.mask``.
"""
import copy
import hashlib

from sqlalchemy import sql

import forml
from forml import io, setup
from forml.io import dsl
from forml.io import _input as io_input
from forml.provider.feed.reader import alchemy

from vf.core import ctx as ctxmod
from vf.core import caches
from vf.core.hyp import Campaign, st
from vf.dslx import ast as A
from vf.dslx import build, catalog
from vf.dslx import strategies as S

ID = 'C09'
LEVEL = 'exploration'
RULE = (
    'Hypothesis-generated well-formed statements (dslx generator, source depth <= 3, no windows / unnamed outputs) x pools '
    'of 1-3 feeds with pairwise distinct priorities (lazy setup.Feed descriptors with int/float/negative/zero priorities, '
    'at most one explicit instance = infinite priority, random pool order) whose advertised sources are drawn from the '
    "statement's own source tree (tables, references, joins, sub-queries, sets, the statement itself: all tables / all "
    'tables but one / a random cut through the tree / random subset) and near misses of those (renamed reference, other '
    'join kind, swapped sides, edited query, other set kind, twin table, same-named decoy table, foreign table). '
    'Non-trivial: the expected winner is not the first feed in priority order, or the expected winner covers the '
    'statement only through an advertised non-table source, or nobody covers although some feed advertises a near miss. '
    'Distinct = distinct spec digest.'
)
ASSUMPTIONS = [
    'structural identity of DSL sources = equality of their JSON ASTs under the dslx normal forms (checked by C08); cases '
    'where two different sources of statement+adverts differ only in a hash-colliding literal pair (-1/-2, 0/2**61-1, '
    '-1.0/-2.0: the C08 finding, forml cannot tell them apart) are counted as masked, not judged',
    'priorities are pairwise distinct (the property says nothing about ties); feeds given as instances have infinite priority',
    'the parser cross-check only looks at dsl.UnprovisionedError; any other parser exception (C06 translation defects: '
    'two-table AND, negation, non-equi self-join, abs(), boolean column operands...) masks that clause for the case',
    'statements forml refuses to build (C07 findings) are masked',
]
FLOORS = {
    'pool:3': 0.2,
    'result:missing': 0.07,
    'result:not-first': 0.1,
    'cover:via-nontable': 0.1,
    'cover:tables-only': 0.1,
    'adv:near-miss': 0.2,
    'shape:join': 0.25,
    'shape:nested': 0.08,
    'parse:selected-ok': 0.05,
    'parse:passed-over-unprovisioned': 0.1,
}
SHARDS_THOROUGH = 16

_PROFILE = {'windows': False, 'p_unnamed': 0.0, 'p_bare_proxy': 0.0}
_SHAPES = ('join', 'self-join', 'multi-join', 'nested', 'set', 'ref-table', 'ref-set', 'top-set', 'deep')
_PRIOS = [-5, 0, 0.5, 1, 2, 10, 10.5, 1000, 1e9, -0.25]
_FOREIGN = 'D'


# ---- harness feed --------------------------------------------------------------------------------------------------------
_SOURCES = {}  # ident -> sources mapping of the current case


class PoolFeed(io.Feed):
    """Feed whose advertised sources are looked up by its identity (so that it can be created from a descriptor)."""

    Reader = alchemy.Reader

    def __init__(self, ident: str):
        super().__init__(connection='sqlite://')
        self.ident = ident

    @property
    def sources(self):
        return _SOURCES[self.ident]


_REFERENCE = f'{PoolFeed.__module__}:{PoolFeed.__qualname__}'


class Conf(setup.Feed):
    """Descriptor built directly (no config file involved), like tests/io/_input/test_input.py does."""

    def __new__(cls, reference: str, priority: float, ident: str):
        return tuple.__new__(cls, [reference, priority, {'ident': ident}])


_DECOYS = {}


def decoys():
    """name -> dsl.Table carrying the name of a catalog table but other fields."""
    if not _DECOYS:
        _DECOYS['A'] = dsl.Table(
            dsl.Schema.from_fields(dsl.Field(dsl.Integer(), name='id'), dsl.Field(dsl.String(), name='other'), title='A')
        )
        _DECOYS['B'] = dsl.Table(
            dsl.Schema.from_fields(
                dsl.Field(dsl.Integer(), name='id'), dsl.Field(dsl.Integer(), name='a'), dsl.Field(dsl.Float(), name='y'), title='B'
            )
        )
    return _DECOYS


# ---- reference model -----------------------------------------------------------------------------------------------------
def src_children(node):
    t = node['t']
    if t == 'ref':
        return [node['src']]
    if t in ('join', 'set'):
        return [node['left'], node['right']]
    if t == 'query':
        return [node['src']]
    return []


def src_nodes(node):
    """Pre-order source nodes reachable through source edges."""
    yield node
    for child in src_children(node):
        yield from src_nodes(child)


def key(node) -> str:
    return ctxmod.jdump(node)


def covered(node, adv: frozenset, via: set) -> bool:
    """Reference coverage; ``via`` collects the kinds of the advertised sources that established it."""
    if key(node) in adv:
        via.add(node['t'])
        return True
    if node['t'] in ('table', 'decoy'):
        return False
    return all([covered(c, adv, via) for c in src_children(node)])  # no short cut: ``via`` wants all witnesses


def _norm_collisions(node):
    """Copy with every literal of a hash-colliding pair replaced by the pair's first member."""
    if isinstance(node, dict):
        if node.get('f') == 'lit':
            for kind, pairs in S.COLLIDING.items():
                if node['kind'] == kind:
                    for a, b in pairs:
                        if node['v'] == b and type(node['v']) is type(b):
                            return dict(node, v=a)
            return node
        return {k: _norm_collisions(v) for k, v in node.items()}
    if isinstance(node, list):
        return [_norm_collisions(v) for v in node]
    return node


def collision_ambiguous(spec) -> bool:
    """Two different sources in play that differ only by colliding literals (forml treats them as equal: C08)."""
    seen = {}
    nodes = list(src_nodes(spec['stmt']))
    for feed in spec['feeds']:
        nodes += [n for n in feed['adv'] if n['t'] != 'decoy']
    for node in nodes:
        if node['t'] == 'table':
            continue
        k = key(node)
        n = key(_norm_collisions(node))
        if seen.setdefault(n, k) != k:
            return True
    return False


def expected_order(feeds):
    """Indices of the pool in descending priority (explicit instance first)."""
    return sorted(range(len(feeds)), key=lambda i: -(float('inf') if feeds[i]['prio'] is None else float(feeds[i]['prio'])))


# ---- generator -----------------------------------------------------------------------------------------------------------
def near_miss(ch, node):
    """A source AST structurally different from ``node`` but close to it (always buildable on its own)."""
    node = copy.deepcopy(node)
    t = node['t']
    if t == 'table':
        name = node['name']
        opts = []
        if name in ('A', 'B'):
            opts.append({'t': 'decoy', 'name': name})
        if name == 'C':
            opts.append(A.table('E'))
        opts.append(A.table(ch.pick([n for n in ('A', 'B', 'C', 'D') if n != name])))
        return ch.pick(opts)
    if t == 'ref':
        how = ch.pick(['rename', 'rename', 'inner'])
        if how == 'inner' and node['src']['t'] != 'table':
            node['src'] = near_miss(ch, node['src'])
            return node
        # elements of the reference are addressed by its name: rename consistently inside the node
        old, new = node['name'], node['name'] + 'x'
        for sub in A.walk(node):
            if sub.get('t') == 'ref' and sub['name'] == old:
                sub['name'] = new
            elif sub.get('f') == 'elem' and sub['ref'] == old:
                sub['ref'] = new
        return node
    if t == 'join':
        how = ch.pick(['kind', 'swap', 'kind'])
        if how == 'kind' and node['kind'] != 'cross':
            node['kind'] = ch.pick([k for k in ('inner', 'left', 'right', 'full') if k != node['kind']])
        else:
            node['left'], node['right'] = node['right'], node['left']
        return node
    if t == 'set':
        how = ch.pick(['kind', 'swap'])
        if how == 'kind':
            node['kind'] = ch.pick([k for k in A.SET_KINDS if k != node['kind']])
        elif node['left'] != node['right']:
            node['left'], node['right'] = node['right'], node['left']
        else:
            node['kind'] = ch.pick([k for k in A.SET_KINDS if k != node['kind']])
        return node
    # query
    opts = ['limit']
    if node.get('where') is not None:
        opts.append('where')
    if len(node.get('select') or []) >= 2 and node['select'][0] != node['select'][1]:
        opts.append('order')
    how = ch.pick(opts)
    if how == 'limit':
        node['limit'] = None if node.get('limit') is not None else [7, 0]
    elif how == 'where':
        node['where'] = None
    else:
        node['select'][0], node['select'][1] = node['select'][1], node['select'][0]
    return node


def gen_adv(ch, stmt):
    """Advertised source ASTs of one feed + the generation mode (informative only)."""
    tables = []
    nontables = []
    seen = set()
    for node in src_nodes(stmt):
        k = key(node)
        if k in seen:
            continue
        seen.add(k)
        (tables if node['t'] == 'table' else nontables).append(node)
    mode = ch.weighted([(20, 'all-tables'), (17, 'minus-one'), (30, 'cut'), (18, 'random'), (10, 'near-cut'), (5, 'empty')])
    adv = []

    def cut(node, p_self, nearp):
        if node['t'] == 'table':
            adv.append(near_miss(ch, node) if ch.pct(nearp / 2) else node)
        elif ch.pct(p_self):
            adv.append(near_miss(ch, node) if ch.pct(nearp) else node)
        else:
            for child in src_children(node):
                cut(child, min(p_self + 0.25, 0.9), nearp)

    if mode == 'all-tables':
        adv += tables
        for node in nontables:
            if ch.pct(0.15):
                adv.append(near_miss(ch, node) if ch.pct(0.3) else node)
        if ch.pct(0.2):
            adv.append(A.table(_FOREIGN))
    elif mode == 'minus-one':
        drop = ch.pick(tables)
        adv += [t for t in tables if t is not drop]
        holders = [n for n in nontables if any(key(s) == key(drop) for s in src_nodes(n))]
        what = ch.weighted([(30, 'nothing'), (30, 'near-table'), (25, 'near-holder'), (15, 'holder')])
        if what == 'near-table':
            adv.append(near_miss(ch, drop))
        elif what == 'near-holder' and holders:
            adv.append(near_miss(ch, ch.pick(holders)))
        elif what == 'holder' and holders:
            adv.append(ch.pick(holders))
    elif mode == 'cut':
        cut(stmt, 0.12, 0.0)
        if ch.pct(0.25) and adv:
            i = ch.int(0, len(adv) - 1)
            if ch.pct(0.5):
                adv[i] = near_miss(ch, adv[i])
            else:
                del adv[i]
        if ch.pct(0.3):
            adv += [t for t in tables if ch.pct(0.5)]
    elif mode == 'near-cut':
        cut(stmt, 0.12, 0.5)
    elif mode == 'random':
        adv += [t for t in tables if ch.pct(0.6)]
        for node in nontables:
            if ch.pct(0.3):
                adv.append(near_miss(ch, node) if ch.pct(0.3) else node)
    out, seen = [], set()
    for node in adv:
        if key(node) not in seen:
            seen.add(key(node))
            out.append(copy.deepcopy(node))
    return out, mode


def gen_spec(stmt, data: bytes):
    ch = S.ByteChooser(data)
    n = ch.weighted([(10, 1), (35, 2), (55, 3)])
    prios = list(_PRIOS)
    feeds = []
    explicit = ch.int(0, n - 1) if ch.pct(0.3) else None
    first_adv = None
    for i in range(n):
        if i == explicit:
            prio = None
        else:
            prio = prios.pop(ch.int(0, len(prios) - 1))
        if first_adv is not None and ch.pct(0.15):
            adv, mode = copy.deepcopy(first_adv), 'same'  # two feeds advertising the same: only the priority decides
        else:
            adv, mode = gen_adv(ch, stmt)
        if first_adv is None:
            first_adv = adv
        feeds.append({'ident': f'f{i}', 'prio': prio, 'adv': adv, 'mode': mode})
    return {'stmt': stmt, 'feeds': feeds}


def _stream(data: bytes, size: int) -> bytes:
    out, block = b'', data
    while len(out) < size:
        block = hashlib.sha256(block).digest()
        out += block
    return out[:size]


def make_spec(pair):
    """Hypothesis often hands out an all-zero byte string for one of the two parts (the same simplest statement or pool
    over and over): a degenerate part is derived from the other one instead, so that those draws are not wasted."""
    sdata, pdata = pair
    if not any(sdata) and any(pdata):
        sdata = _stream(pdata, len(sdata))
    elif not any(pdata) and any(sdata):
        pdata = _stream(sdata, len(pdata))
    stmt = S.gen_statement(S.ByteChooser(sdata), 3, 3, _PROFILE)
    return gen_spec(stmt, pdata)


def make_history_spec(triple):
    """A pool case preceded by 1-2 other statements matched on the *same* importer (their outcome is not judged here -
    every statement is judged when it is the main one of some case): the selection must not depend on earlier matches."""
    sdata, pdata, wdata = triple
    spec = make_spec((sdata, pdata))
    n = 1 + wdata[0] % 2
    size = S.STATEMENT_BYTES
    spec['warmup'] = [
        S.gen_statement(S.ByteChooser(_stream(wdata + bytes([k]), size)), 3, 3, _PROFILE) for k in range(n)
    ]
    return spec


pool_strategy = st.tuples(
    st.binary(min_size=S.STATEMENT_BYTES, max_size=S.STATEMENT_BYTES), st.binary(min_size=160, max_size=160)
).map(make_spec)

history_strategy = st.tuples(
    st.binary(min_size=S.STATEMENT_BYTES, max_size=S.STATEMENT_BYTES),
    st.binary(min_size=160, max_size=160),
    st.binary(min_size=16, max_size=16),
).map(make_history_spec)


# ---- execution -----------------------------------------------------------------------------------------------------------
def build_adv(node):
    if node['t'] == 'decoy':
        return decoys()[node['name']]
    return build.build_source(node)


def _clear_caches():
    caches.clear(dsl.Source, dsl.Source.Schema, alchemy.Reader, io.Importer, io_input)  # wherever forml memoises: not named one by one


def _parse(feed, statement):
    """Outcome of the feed's own parser on the statement: ('ok', sql) | ('unprovisioned', exc) | ('other', exc)."""
    try:
        with feed.Reader.parser(feed.sources, feed.features) as visitor:
            statement.accept(visitor)
            return 'ok', visitor.fetch()
    except dsl.UnprovisionedError as exc:
        return 'unprovisioned', exc
    except Exception as exc:  # pylint: disable=broad-except
        return 'other', exc


def check_pool(ctx, spec):
    stmt, feeds = spec['stmt'], spec['feeds']
    order = expected_order(feeds)
    advs = [frozenset(key(n) for n in f['adv']) for f in feeds]
    tables = [A.table(n) for n in sorted({n['name'] for n in src_nodes(stmt) if n['t'] == 'table'})]
    cover, vias = [], []
    for adv in advs:
        via = set()
        cover.append(covered(stmt, adv, via))
        vias.append(via)
    winner = next((i for i in order if cover[i]), None)
    stmt_keys = {key(n) for n in src_nodes(stmt)}
    near = any(k not in stmt_keys for adv in advs for k in adv)
    nontable = winner is not None and any(key(t) not in advs[winner] for t in tables)
    tags = S.features(stmt)
    classes = [f'pool:{len(feeds)}'] + [f'shape:{t}' for t in _SHAPES if t in tags]
    classes += sorted({f'mode:{f.get("mode", "?")}' for f in feeds})
    if any(f['prio'] is None for f in feeds):
        classes.append('pool:explicit-instance')
    if near:
        classes.append('adv:near-miss')
    if any(n['t'] == 'decoy' for f in feeds for n in f['adv']):
        classes.append('adv:decoy')
    if winner is None:
        classes.append('result:missing')
    else:
        classes.append('result:first' if winner == order[0] else 'result:not-first')
        if sum(cover) >= 2:
            classes.append('result:several-cover')
        if nontable:
            classes.append('cover:via-nontable')
            classes += [f'cover:via-{t}' for t in sorted(vias[winner]) if t != 'table']
            if key(stmt) in advs[winner]:
                classes.append('cover:via-statement')
        else:
            classes.append('cover:tables-only')
    nontrivial = (winner is not None and (winner != order[0] or nontable)) or (winner is None and near)
    summary = {'stmt': stmt, 'feeds': [{k: f[k] for k in ('ident', 'prio', 'adv')} for f in feeds]}
    if spec.get('warmup'):
        classes.append('history')
        summary['warmup'] = spec['warmup']
    ctx.case(summary, nontrivial=nontrivial, classes=classes)
    if collision_ambiguous(spec):
        ctx.mask('c08-colliding-literal-sources')
        return

    _clear_caches()
    try:
        statement = build.build_source(stmt)
        mappings = {}
        for f in feeds:
            mappings[f['ident']] = {build_adv(n): sql.table(f'{f["ident"]}_{j}') for j, n in enumerate(f['adv'])}
    except build.SpecError:
        raise
    except Exception as exc:  # pylint: disable=broad-except
        ctx.mask(f'build|{type(exc).__name__}@{ctxmod.forml_frame(exc)}')
        return
    _SOURCES.clear()
    _SOURCES.update(mappings)
    pool = [PoolFeed(f['ident']) if f['prio'] is None else Conf(_REFERENCE, f['prio'], f['ident']) for f in feeds]
    idx = {f['ident']: i for i, f in enumerate(feeds)}
    trig = ['covered-only-via-nontable-source'] if nontable else []
    try:
        importer = io.Importer(*pool)
        for warm in spec.get('warmup', []):
            try:
                importer.match(build.build_source(warm))
                ctx.klass('history:earlier-matched')
            except forml.MissingError:
                ctx.klass('history:earlier-missing')
            except Exception as exc:  # pylint: disable=broad-except
                ctx.mask(f'warmup|{type(exc).__name__}@{ctxmod.forml_frame(exc)}')
        try:
            got = importer.match(statement)
        except forml.MissingError:
            got = None
        except Exception as exc:  # pylint: disable=broad-except
            ctx.fail_exc(spec, 'match-raises', exc, trig)
            return
        gidx = None if got is None else idx.get(getattr(got, 'ident', None), -1)

        def detail():
            pool_txt = '; '.join(f'{f["ident"]}@{f["prio"]}:{sorted(map(repr, mappings[f["ident"]]))}' for f in feeds)
            exp = None if winner is None else feeds[winner]['ident']
            have = None if gidx is None else (feeds[gidx]['ident'] if gidx >= 0 else got)
            return f'statement={statement!r}; pool(prio:advertised)={pool_txt}; expected={exp} got={have}'

        if gidx != winner:
            if winner is None:
                kind = 'selected-although-none-covers'
            elif gidx is None:
                kind = 'missing-error-although-covered'
            elif gidx < 0 or not cover[gidx]:
                kind = 'selected-noncovering'
            elif order.index(gidx) > order.index(winner):
                kind = 'selected-lower-priority'
            else:
                kind = 'selected-other'
            ctx.fail(spec, 'match', kind, detail(), trig)
            return
        # cached second call must agree with the first
        try:
            again = importer.match(statement)
        except forml.MissingError:
            again = None
        if again is not got:
            ctx.fail(spec, 'match', 'second-call-differs', detail(), trig)
            return
        # ---- parser cross-check --------------------------------------------------------------------------------------
        instances = {f.ident: f for f in importer}
        passed = order if winner is None else order[: order.index(winner)]
        for i in passed:
            outcome, payload = _parse(instances[feeds[i]['ident']], statement)
            if outcome == 'unprovisioned':
                ctx.klass('parse:passed-over-unprovisioned')
            elif outcome == 'ok':
                ctx.fail(spec, 'passed-over-parses', 'no-unprovisioned-error', f'{detail()}; feed {feeds[i]["ident"]} parsed it to: {payload}', [])
            else:
                ctx.mask(f'passed-over-parse|{type(payload).__name__}@{ctxmod.forml_frame(payload)}')
        if winner is not None:
            outcome, payload = _parse(instances[feeds[winner]['ident']], statement)
            if outcome == 'ok':
                ctx.klass('parse:selected-ok')
            elif outcome == 'unprovisioned':
                ctx.fail_exc(spec, 'selected-parses', payload, trig)
            else:
                ctx.mask(f'selected-parse|{type(payload).__name__}@{ctxmod.forml_frame(payload)}')
    finally:
        _SOURCES.clear()
        _clear_caches()


def campaigns(ctx):
    return [
        Campaign('pool', pool_strategy, check_pool, 1700, 6000),
        Campaign('history', history_strategy, check_pool, 800, 3000),
    ]


LEVEL_TEXT = (
    'Generated-input search: thousands of (statement, feed pool) pairs per run; the feed returned by io.Importer.match (or '
    'its MissingError) is compared with a reference coverage function evaluated on the JSON ASTs, and the verdict is '
    "cross-checked against each feed's own SQLAlchemy parser (UnprovisionedError or not) on the same statement. Evidence "
    'over the sampled statements/pools up to the depth bound, not a proof.'
)
LEVEL_NOTE = (
    'Trusted: the coverage function and pool generator in vf/checks/c09.py, vf/dslx (generator, builder), Hypothesis. '
    'Priorities are distinct; parser exceptions other than UnprovisionedError and colliding-literal look-alikes are masked. '
    'Known finding: feeds covering a statement only through an advertised join / sub-query / reference are matched but '
    'their parser still raises UnprovisionedError.'
)
TECHNIQUE = 'property-based testing (Hypothesis, byte-stream driven generators) vs reference coverage model + matcher/parser cross-check'

# coverage-guided (atheris) pass of the thorough tier: (campaign, libFuzzer runs, instrumented module prefixes)
FUZZ = [('pool', 20000, ['forml.io._input', 'forml.io.dsl.parser'])]
