"""C13 - actor state and hyper-parameter contract holds for every actor flavour.

One campaign: a *scenario* picks an actor flavour (vf/c13_flavours.py: native class (stateless / default state / custom
state encoding), @wrap.Actor.apply function, @wrap.Actor.train+.apply pair, wrap.Actor.type with method names (assigned
and decorator style, with and without a required constructor argument), with callables, without a training method),
derives a builder through random ``update``/``reset`` operations, trains it in 1-4 incremental steps - every step either
on the live actor or on an actor rebuilt from the (possibly updated) builder and given the previous state through
``set_state``, the ``SetState`` preset action or a (pickled) ``Functor`` - and finally rebuilds a twin from a further
modified builder. The reference model (computed from the spec only) is the triple (constructor seed, effective
hyper-parameters, training history); every flavour's ``apply`` returns exactly that triple plus the input, so all
metamorphic relations of the property become plain equalities against the model.
"""
import pickle

import cloudpickle
from hypothesis import strategies as st

from forml.flow._code.target import user

from vf import c13_flavours as flavours
from vf.core.hyp import Campaign

ID = 'C13'
LEVEL = 'exploration'
RULE = (
    'Hypothesis-generated scenarios: flavour (15 flavours, among them a function pair updating its state in place and a class whose training method is a decorator object) x builder prelude of 0-3 update/reset operations (positional '
    'seed and keyword hyper-parameters a, b) x 1-4 incremental training steps (stateful flavours), each with its own '
    'builder update/reset, optional set_params and route {live, set_state, SetState preset, Functor, pickled Functor} x '
    'final twin builder and route x 1-2 inputs x serialiser {cloudpickle, pickle}. Non-trivial: >=2 training steps and '
    'effective hyper-parameters of the twin builder differing from those of the exporting actor (stateful), or a '
    'builder whose parameters were changed by update/reset (stateless). Distinct = distinct spec digest.'
)
ASSUMPTIONS = [
    'flavours follow docs/workflow/actor.rst: fixed hyper-parameter names (a, b) with defaults; the positional '
    'constructor argument (seed) is not a hyper-parameter and is kept constant once training started (a state exported '
    'by the default get_state carries it)',
    'an untrained stateful actor is recognised by apply raising RuntimeError (what all documented styles do)',
    'plain pickle is only applied to flavours importable under their qualified name; wrap.Actor.type(...) bound to a new '
    'name is serialised with cloudpickle only',
    'get_params of function based actors reports the explicitly supplied keywords only (Parametric), of the others the '
    'defaults as well: the oracle compares accordingly',
]
FLOORS = {
    'family:native': 0.15,
    'family:function': 0.12,
    'family:class-wrapped': 0.2,
    'params-changed-at-import': 0.2,
    'trains>=2': 0.3,
    'route:functor-pickled': 0.05,
    'route:set_state': 0.1,
    'ser:pickle': 0.1,
    'builder:reset': 0.1,
}
SHARDS_THOROUGH = 16

DEFAULTS = {'a': 0, 'b': 0}
FAMILY = {
    'native-stateless': 'native',
    'native-stateful': 'native',
    'native-custom-state': 'native',
    'native-greedy-state': 'native',
    'fn-stateless': 'function',
    'fn-stateful': 'function',
    'fn-sparse-state': 'function',
    'fn-inplace-state': 'function',
    'mapped-names': 'class-wrapped',
    'mapped-callables': 'class-wrapped',
    'mapped-stateless': 'class-wrapped',
    'mapped-decorated': 'class-wrapped',
    'mapped-bare': 'class-wrapped',
    'mapped-traced-method': 'class-wrapped',
    'mapped-required-arg': 'class-wrapped',
}

def tuplify(obj):
    return tuple(tuplify(o) for o in obj) if isinstance(obj, (list, tuple)) else obj


# ---- generator --------------------------------------------------------------------------------------------------------
_value = st.integers(-3, 9)
_kw = st.dictionaries(st.sampled_from(['a', 'b']), _value, max_size=2)
_kw1 = st.dictionaries(st.sampled_from(['a', 'b']), _value, min_size=1, max_size=2)
_payload = st.lists(st.integers(0, 5), min_size=0, max_size=3)


_SAFE_ROUTES = ['preset', 'functor', 'functor-pickled']  # the state goes through forml's SetState action


@st.composite
def scenario(draw):
    name = draw(st.sampled_from(sorted(FAMILY)))
    flv = flavours.FLAVOURS[name]
    stateful, seeded, importable, required, greedy = flv['stateful'], flv['seeded'], flv['importable'], flv['required'], flv['greedy']
    seed = draw(st.sampled_from([None, None, 0, 4, 7])) if seeded else None
    if required and seed is None:
        seed = 5
    build = [{'op': 'init', 'seed': seed, 'kw': draw(_kw)}]
    for _ in range(draw(st.sampled_from([0, 0, 1, 1, 2, 3]))):
        op = draw(st.sampled_from(['update', 'update', 'reset']))
        new = draw(st.sampled_from([None, None, 1, 7])) if seeded else None
        if op == 'reset' and required and new is None:
            new = 5
        build.append({'op': op, 'seed': new, 'kw': draw(_kw)})
    steps = []
    if stateful:
        for _ in range(draw(st.integers(1, 4))):
            steps.append(
                {
                    'op': draw(st.sampled_from(['keep', 'keep', 'update', 'update', 'reset'])),
                    'kw': draw(_kw),
                    'route': draw(st.sampled_from(_SAFE_ROUTES if greedy else ['live', 'live', 'set_state', 'set_state', *_SAFE_ROUTES])),
                    'setp': draw(st.sampled_from([None, None, None, 'x'])) and draw(_kw1),
                    'x': draw(_payload),
                    'y': draw(_payload),
                }
            )
    final = {
        'op': draw(st.sampled_from(['keep', 'update', 'update', 'update', 'reset'])),
        'kw': draw(_kw),
        'route': draw(st.sampled_from(_SAFE_ROUTES if greedy else ['set_state', 'set_state', *_SAFE_ROUTES])),
    }
    return {
        'flavour': name,
        'build': build,
        'steps': steps,
        'final': final,
        'inputs': draw(st.lists(_payload, min_size=1, max_size=2)),
        'ser': draw(st.sampled_from(['cloudpickle', 'cloudpickle', 'pickle'])) if importable else 'cloudpickle',
    }


# ---- reference model ------------------------------------------------------------------------------------------------------
class RefBuilder:
    """flow.Builder semantics from its docstrings: update replaces args when given and merges kwargs, reset replaces both."""

    def __init__(self, args=(), kwargs=None):
        self.args = tuple(args)
        self.kwargs = dict(kwargs or {})

    def apply(self, op, seed, kw, keep_seed=False):
        args = () if seed is None else (seed,)
        if op == 'update':
            return RefBuilder(args or self.args, {**self.kwargs, **kw})
        if op == 'reset':
            return RefBuilder(self.args if keep_seed else args, kw)
        return self

    @property
    def seed(self):
        return self.args[0] if self.args else 0

    @property
    def effective(self):
        return {**DEFAULTS, **self.kwargs}


def real_apply(builder, op, seed, kw, ref_before, keep_seed=False):
    """The same operation on the real builder; a reset during training re-supplies the current positional seed."""
    args = () if seed is None else (seed,)
    if op == 'update':
        return builder.update(*args, **kw)
    if op == 'reset':
        return builder.reset(*(ref_before.args if keep_seed else args), **kw)
    return builder


def expected_output(name, seed, params, history, x):
    if name == 'fn-sparse-state':  # steps without labels leave the state as it was (possibly the empty, falsy history)
        history = [h for h in history if h[2]]
    return (name, seed if flavours.FLAVOURS[name]['seeded'] else 0, (params['a'], params['b']), tuple(history), tuplify(x))


def expected_params(name, ref: RefBuilder, extra=None):
    reports_defaults = flavours.FLAVOURS[name]['defaults']
    base = ref.effective if reports_defaults else dict(ref.kwargs)
    return {**base, **(extra or {})}


# ---- check ------------------------------------------------------------------------------------------------------------------
class _Abort(Exception):
    """The case cannot be judged any further (a failure has been recorded)."""


def check_scenario(ctx, spec):
    name = spec['flavour']
    flv = flavours.FLAVOURS[name]
    cls, stateful, seeded, importable, required, greedy = (flv[k] for k in ('cls', 'stateful', 'seeded', 'importable', 'required', 'greedy'))
    family = FAMILY[name]
    ser = pickle if spec['ser'] == 'pickle' else cloudpickle
    sertag = 'plain-pickle' if ser is pickle else 'cloudpickle'
    base_tags = [family, 'stateful' if stateful else 'stateless']

    # ---- reference: builders and effective parameters per step --------------------------------------------------------
    ref = RefBuilder()
    for op in spec['build']:
        ref = RefBuilder((() if op['seed'] is None else (op['seed'],)), op['kw']) if op['op'] == 'init' else ref.apply(op['op'], op['seed'], op['kw'])
    seed = ref.seed
    history = []
    live_params = live_reported = None
    ref_steps = []
    cur = ref
    for i, step in enumerate(spec['steps']):
        cur = cur.apply(step['op'], None, step['kw'], keep_seed=True)
        continues = step['route'] == 'live' and i > 0 and step['op'] == 'keep' and ref_steps[-1]['has_actor']
        params = dict(live_params) if continues else cur.effective
        setp = step['setp'] if step['route'] in ('live', 'set_state') else None
        if setp:
            params.update(setp)
        history.append(((params['a'], params['b']), tuplify(step['x']), tuplify(step['y'])))
        has_actor = step['route'] in ('live', 'set_state', 'preset')
        reported = dict(live_reported) if continues else expected_params(name, cur)
        if setp:
            reported.update(setp)
        live_params, live_reported = params, reported
        ref_steps.append({'builder': cur, 'continues': continues, 'params': params, 'reported': reported, 'has_actor': has_actor, 'setp': setp})
    fin = spec['final']
    ref_final = cur.apply(fin['op'], None, fin['kw'], keep_seed=True)
    changed = bool(ref_steps) and ref_final.effective != ref_steps[-1]['params']

    classes = [f'flavour:{name}', f'family:{family}', f'ser:{spec["ser"]}', f'final-route:{fin["route"]}']
    for step in spec['steps']:
        classes.append(f'route:{step["route"]}')
    classes = sorted(set(classes))
    if len(spec['steps']) >= 2:
        classes.append('trains>=2')
    if changed:
        classes.append('params-changed-at-import')
    if any(s['setp'] for s in ref_steps):
        classes.append('set_params-while-training')
    ops = [o['op'] for o in spec['build'][1:]] + [s['op'] for s in spec['steps']] + [fin['op']]
    if 'reset' in ops:
        classes.append('builder:reset')
    if 'update' in ops:
        classes.append('builder:update')
    if seeded and ref.args:
        classes.append('positional-seed')
    if stateful:
        nontrivial = len(spec['steps']) >= 2 and changed
    else:
        nontrivial = any(o in ('update', 'reset') for o in ops)
    ctx.case(spec, nontrivial=nontrivial, classes=classes)

    def fail(clause, kind, detail, tags=()):
        ctx.fail(spec, clause, kind, detail, [*base_tags, *tags])

    def guard(clause, fn, tags=()):
        try:
            return fn()
        except Exception as exc:  # pylint: disable=broad-except
            ctx.fail_exc(spec, clause, exc, [*base_tags, *tags])
            raise _Abort() from exc

    def roundtrip(obj):
        return ser.loads(ser.dumps(obj))

    def give(actor, value):
        """Import a state: directly, or - for a flavour whose own setter overwrites parameters - through SetState."""
        if greedy:
            if value:  # what Preset.reduce does
                user.SetState(user.Apply()).set(actor, value)
        else:
            actor.set_state(value)

    def untrained(actor, x) -> bool:
        try:
            actor.apply(x)
        except RuntimeError:
            return True
        return False

    try:
        # ---- is_stateful <=> training implementation ---------------------------------------------------------------------
        flag = guard('is-stateful', cls.is_stateful)
        if flag != stateful:
            fail('is-stateful', f'reports-{flag}', f'{name}: is_stateful()={flag} but the flavour {"has" if stateful else "has no"} training implementation')
            return

        # ---- builder prelude ------------------------------------------------------------------------------------------------
        builder = None
        refb = None
        for op in spec['build']:
            args = () if op['seed'] is None else (op['seed'],)
            if op['op'] == 'init':
                builder = guard('builder', lambda: cls.builder(*args, **op['kw']))
                refb = RefBuilder(args, op['kw'])
            else:
                before = refb
                builder = guard('builder', lambda: real_apply(builder, op['op'], op['seed'], op['kw'], before))  # noqa: B023
                refb = refb.apply(op['op'], op['seed'], op['kw'])
            if tuple(builder.args) != refb.args or dict(builder.kwargs) != refb.kwargs or builder.actor is not cls:
                fail('builder', 'update-reset', f'after {op}: args={builder.args} kwargs={dict(builder.kwargs)} expected {refb.args} {refb.kwargs}')
                return

        # ---- incremental training -------------------------------------------------------------------------------------------
        state = b''
        actor = None
        trained = None  # (actor, reference step) of the last step that left an actor in hand
        for i, (step, rs) in enumerate(zip(spec['steps'], ref_steps)):
            before = refb
            builder = guard('builder', lambda: real_apply(builder, step['op'], None, step['kw'], before, keep_seed=True))  # noqa: B023
            refb = rs['builder']
            x, y = tuplify(step['x']), tuplify(step['y'])
            route = step['route']
            rtag = [f'route:{route}']
            if route in ('live', 'set_state'):
                if not rs['continues']:
                    actor = guard('train', builder, rtag)
                    guard('train', lambda: actor.set_state(state), rtag)  # noqa: B023
                if rs['setp']:
                    guard('train', lambda: actor.set_params(**rs['setp']), rtag)  # noqa: B023
                guard('train', lambda: actor.train(x, y), rtag)  # noqa: B023
                state = guard('train', actor.get_state, rtag)
            elif route == 'preset':
                actor = guard('train', builder, rtag)
                state = guard('train', lambda: user.SetState(user.Train())(actor, state, x, y), rtag)  # noqa: B023
            else:
                functor = user.Functor(builder, user.Train()).preset_state()
                if route == 'functor-pickled':
                    functor = guard('pickle-functor', lambda: roundtrip(functor), [sertag])  # noqa: B023
                state = guard('train', lambda: functor.execute(state, x, y), rtag)  # noqa: B023
                actor = None
            if actor is not None:
                trained = (actor, rs, i)
                got = guard('train', actor.get_params, rtag)
                if dict(got) != rs['reported']:
                    fail('params-precedence', 'after-import' if i else 'after-build', f'step {i} ({route}): get_params()={dict(got)} expected {rs["reported"]}', rtag)
                    return
                for inp in spec['inputs']:
                    want = expected_output(name, seed, rs['params'], history[: i + 1], inp)
                    got = guard('train', lambda: actor.apply(tuplify(inp)), rtag)  # noqa: B023
                    if got != want:
                        fail('state-transfer', 'while-training', f'step {i} ({route}): apply({inp})={got} expected {want}', rtag)
                        return

        # ---- the twin: rebuilt from the (modified) builder and given the exported state ---------------------------------------
        before = refb
        builder = guard('builder', lambda: real_apply(builder, fin['op'], None, fin['kw'], before, keep_seed=True))
        refb = ref_final
        route = fin['route']
        rtag = [f'route:{route}'] + (['params-changed'] if changed else [])
        twin = None
        outputs = []
        if route == 'set_state':
            twin = guard('twin', builder, rtag)
            guard('twin', lambda: twin.set_state(state), rtag)
            for inp in spec['inputs']:
                outputs.append(guard('twin', lambda: twin.apply(tuplify(inp)), rtag))  # noqa: B023
        elif route == 'preset':
            twin = guard('twin', builder, rtag)
            for inp in spec['inputs']:
                outputs.append(guard('twin', lambda: user.SetState(user.Apply())(twin, state, tuplify(inp)), rtag))  # noqa: B023
        else:
            functor = user.Functor(builder, user.Apply()).preset_state()
            if route == 'functor-pickled':
                functor = guard('pickle-functor', lambda: roundtrip(functor), [sertag])
            for inp in spec['inputs']:
                outputs.append(guard('twin', lambda: functor.execute(state, tuplify(inp)), rtag))  # noqa: B023
        if twin is not None:
            got = dict(guard('twin', twin.get_params, rtag))
            want = expected_params(name, ref_final)
            if got != want:
                fail('params-precedence', 'twin', f'twin get_params()={got} expected the builder\'s {want}', rtag)
                return
        for inp, got in zip(spec['inputs'], outputs):
            want = expected_output(name, seed, ref_final.effective, history, inp)
            if got != want:
                kind = 'twin-params' if got[:2] == want[:2] and got[3:] == want[3:] else 'twin-behaviour'
                fail('state-transfer', kind, f'twin ({route}) apply({inp})={got} expected {want}', rtag)
                return

        # ---- empty state leaves an untrained actor untrained ----------------------------------------------------------------------
        probe = tuplify(spec['inputs'][0])
        fresh = guard('empty-state', builder)
        guard('empty-state', lambda: fresh.set_state(b''))
        if stateful:
            if not untrained(fresh, probe):
                fail('empty-state', 'trained-by-set_state', 'apply works after set_state(b"") on a fresh actor')
                return
            fresh2 = guard('empty-state', builder)
            try:
                out = user.SetState(user.Apply())(fresh2, b'', probe)
            except RuntimeError:
                out = None
            except Exception as exc:  # pylint: disable=broad-except
                ctx.fail_exc(spec, 'empty-state', exc, base_tags)
                return
            if out is not None:
                fail('empty-state', 'trained-by-preset', f'SetState preset with an empty state produced {out}')
                return
            # importing the state exported by an untrained twin leaves the actor untrained as well
            blank = guard('empty-state', lambda: guard('empty-state', builder).get_state())
            fresh3 = guard('empty-state', builder)
            guard('empty-state', lambda: give(fresh3, blank))
            if not untrained(fresh3, probe):
                fail('empty-state', 'trained-by-untrained-state', 'apply works after importing the state of an untrained twin')
                return
        else:
            out = guard('empty-state', lambda: fresh.apply(probe))
            want = expected_output(name, seed, ref_final.effective, (), probe)
            if out != want:
                fail('empty-state', 'stateless-behaviour', f'apply({probe})={out} expected {want}')
                return
        got = dict(guard('empty-state', fresh.get_params))
        if got != expected_params(name, ref_final):
            fail('empty-state', 'params', f'get_params()={got} after set_state(b"") expected {expected_params(name, ref_final)}')
            return

        # ---- pickling: builder ---------------------------------------------------------------------------------------------------
        ptags = [sertag]
        clone = guard('pickle-builder', lambda: roundtrip(builder), ptags)
        same_class = clone.actor is cls if importable else clone.actor.is_stateful() == stateful
        if tuple(clone.args) != ref_final.args or dict(clone.kwargs) != ref_final.kwargs or not same_class:
            fail('pickle-builder', 'differs', f'unpickled builder args={clone.args} kwargs={dict(clone.kwargs)} expected {ref_final.args} {ref_final.kwargs}', ptags)
            return
        rebuilt = guard('pickle-builder', clone, ptags)
        guard('pickle-builder', lambda: give(rebuilt, state), ptags)
        got = dict(guard('pickle-builder', rebuilt.get_params, ptags))
        if got != expected_params(name, ref_final):
            fail('pickle-builder', 'params', f'actor of the unpickled builder get_params()={got} expected {expected_params(name, ref_final)}', ptags)
            return
        for inp in spec['inputs']:
            want = expected_output(name, seed, ref_final.effective, history, inp)
            got = guard('pickle-builder', lambda: rebuilt.apply(tuplify(inp)), ptags)  # noqa: B023
            if got != want:
                fail('pickle-builder', 'behaviour', f'actor of the unpickled builder apply({inp})={got} expected {want}', ptags)
                return

        # ---- pickling: trained actor ------------------------------------------------------------------------------------------------
        if stateful and trained is not None:
            subject, rs, upto = trained
            params, reported, hist = rs['params'], rs['reported'], history[: upto + 1]
        elif stateful:
            subject = guard('twin', builder)
            guard('twin', lambda: give(subject, state))
            params, reported, hist = ref_final.effective, expected_params(name, ref_final), history
        else:
            subject, params, reported, hist = fresh, ref_final.effective, expected_params(name, ref_final), ()
        atags = [sertag]
        try:
            copy = roundtrip(subject)
        except Exception as exc:  # pylint: disable=broad-except
            extra = ['required-constructor-argument'] if required and ser is cloudpickle else []
            ctx.mask(ctx.fail_exc(spec, 'pickle-actor', exc, [*base_tags, *atags, *extra]))
            return
        got = dict(guard('pickle-actor', copy.get_params, atags))
        if got != reported:
            fail('pickle-actor', 'params', f'unpickled actor get_params()={got} expected {reported}', atags)
            return
        for inp in spec['inputs']:
            want = expected_output(name, seed, params, hist, inp)
            got = guard('pickle-actor', lambda: copy.apply(tuplify(inp)), atags)  # noqa: B023
            if got != want:
                lost = got[:1] == want[:1] and got[2:] == want[2:]  # only the constructor argument differs
                kind = 'lost-constructor-argument' if lost else 'behaviour'
                fail('pickle-actor', kind, f'unpickled actor apply({inp})={got} expected {want}', atags + (['non-default-seed'] if lost and seed != 0 else []))
                return
        if guard('pickle-actor', copy.is_stateful, atags) != stateful:
            fail('pickle-actor', 'is-stateful', 'unpickled actor reports a different is_stateful()', atags)
    except _Abort:
        return


def campaigns(ctx):
    return [Campaign('scenario', scenario(), check_scenario, 3000, 12000)]


LEVEL_TEXT = (
    'Generated-input search: thousands of scenarios (flavour x builder operations x incremental training routes x '
    'parameter changes x serialiser) are executed against the real flow.Actor / wrap.Actor / Functor code and every '
    'observed get_params() and apply() output is compared with a reference model computed from the scenario alone. '
    'Appropriate because the contract is a set of input->output equalities over a finite flavour set; it is evidence over '
    'the sampled scenarios, not a proof.'
)
LEVEL_NOTE = (
    'Trusted: the flavour implementations in vf/c13_flavours.py (documented styles, outputs expose seed, parameters and '
    'history), the reference model in vf/checks/c13.py, cloudpickle/pickle, Hypothesis. Payloads are small int tuples; '
    'real ML estimators are represented by a third-party style class only.'
)
TECHNIQUE = 'property-based testing (Hypothesis) with metamorphic relations against a reference model of (seed, params, history)'
