"""C06 - feed reads return exactly what the statement denotes over its own storage.

Parser level (campaigns ``parser`` and ``clean``): a well-formed ``vf.dslx`` statement x random table contents; the
statement is parsed by ``forml.provider.feed.reader.alchemy.Parser`` driven exactly as ``Reader._parse_statement`` does,
the selectable is executed on SQLite and DuckDB and compared with ``vf.dslx.refeval`` (three-way differential).
``parser`` generates every shape (known parser defects are bucketed under narrow keys carrying their structural
trigger, the cases they hide are counted with ``ctx.mask``); ``clean`` excludes the trigger shapes of the known defects
by construction, so the search goes on behind them and every failure there is a violation.

Reader level (campaign ``reader``): histories of reads / storage mutations / restarts over real feeds sharing one
``FORML_HOME`` (see ``vf.dslx.readerlevel``).
"""
from vf.core.hyp import Campaign, st
from vf.dslx import ast as A
from vf.dslx import datagen, engines, refeval, shapes
from vf.dslx import strategies as S

ID = 'C06'
LEVEL = 'exploration'
RULE = (
    'Parser level: Hypothesis-generated well-formed statements of the semantic dslx profile (joins of all five kinds, named '
    'references incl. self-joins, nested queries and set operations through references, grouping/aggregates, having, '
    'ordering, limit/offset, and/or/not predicates over one or several tables, source depth <= 3, expression depth <= 4) x '
    'generated contents of the catalog tables (0-6 rows each, empty tables, duplicates, ties, optional NULLs), parsed by '
    'alchemy.Parser and executed on SQLite and DuckDB vs the reference evaluator. Reader level: histories of 4-9 steps '
    '{read via a feed, mutate its storage, read via the other feed with equally named tables, restart the process} over '
    'two alchemy feeds on different SQLite files and two monolite feeds (inline/csv/parquet origins). Non-trivial: the '
    'statement holds a join, a nested statement, a set operation, grouping or a two-table predicate and the expected '
    'result is non-empty (parser level); a history with a mutation or a feed switch followed by a read whose expected '
    'result differs from an earlier read of the same statement (reader level). Distinct = distinct spec digest.'
)
ASSUMPTIONS = [
    'engine-dependent constructs are compared three-way and a disagreement of the two engines with the reference agreeing '
    'with one of them is counted (engine-dependent:*), not judged: casts other than int->float, year() (absent in SQLite), '
    'floor/ceil (SQLAlchemy registers a python floor on SQLite that raises on NULL), arithmetic over literals beyond 32 '
    'bit (overflow), ordering/limit inside a set operand and nested set operands (SQLite has no parenthesised compound '
    'operands), FULL OUTER JOIN on SQLite (new in 3.39; 3.40 was observed to lose the NULL-extended rows when the other '
    'side is an inner join with a constant-false term) - in all these cases the other engine still judges',
    'integer / and % are not generated (SQLite truncates, DuckDB does not); division only by a non-zero float literal; '
    'floats are dyadic so sums are exact; numbers are compared by value with 1e-9 relative rounding',
    'having without grouping over non-aggregated columns has no SQL denotation (both engines reject it): executed, not judged',
    'NULL placement in ordering is engine defined: every uniform placement is accepted; a limit/offset whose window cuts '
    'through rows the ordering does not distinguish (or NULL keys) weakens the oracle to cardinality + sub-multiset; the '
    'same inside a nested statement makes the case unjudged (ambiguous-nested-limit)',
    'casts of non-numeric strings to numbers are undefined in the reference (unjudged: ref-undefined)',
    'queries directly over a query/set (not through a named reference) are not generated - only the plain select-all '
    'directly over a set operation is enumerated (3 shapes); windows, unnamed outputs and select-star over colliding names '
    'are not generated (semantic profile of vf.dslx.strategies)',
    'reader level: statements restricted to shapes without engine-dependent constructs and without triggers of the known '
    'parser defects (both back-ends, SQLite behind alchemy and DuckDB behind monolite, must execute them alike); storage '
    'contents without NULLs and with at most 4 rows per table (type inference of csv/pandas is not the subject); the '
    'inline origin of a monolite feed is part of its configuration and is not mutated, only its csv/parquet files are',
    'a DuckDB rejection of a literal inside a grouping/ordering expression is reported (known finding) and SQLite alone '
    'judges such a case',
]
FLOORS = {
    'join': 0.25,
    'two-table-pred': 0.12,
    'groupby': 0.12,
    'nested': 0.08,
    'set': 0.06,
    'self-join': 0.05,
    'judged:both-engines': 0.25,
    'expected:non-empty': 0.25,
}
SHARDS_THOROUGH = 16

#: trigger tags (vf.dslx.shapes.triggers) of the known parser defects: excluded by construction from ``clean``
PARSE_TRIGGERS = ('cross-join',)  # the not/abs/factors-asym/mixed-table-ref defects are repaired
PROFILE = dict(S.PROFILES['semantic'], bool_col_pred=True)
_EXCLUDED = {}

#: attribution of a parser exception to the trigger that explains it: (exception type, innermost forml frame, trigger)
_PARSE_ATTRIBUTION = [
    ('AttributeError', 'io/dsl/_struct/series.py:__call__', 'factors-asym'),
    ('AttributeError', 'io/dsl/parser.py:filter', 'bool-leaf-pred'),
    ('AttributeError', 'io/dsl/_struct/series.py:factors', 'bool-leaf-pred'),
    ('TypeError:bad operand type for abs', 'provider/feed/reader/alchemy.py:generate_expression', 'abs'),
    ('TypeError:Boolean value of this clause', 'provider/feed/reader/alchemy.py:generate_expression', 'not'),
    ('ArgumentError', 'provider/feed/reader/alchemy.py:generate_join', 'not-eq'),
    ('AttributeError', 'provider/feed/reader/alchemy.py:generate_alias', 'not-eq'),
    ('TypeError:unsupported operand type', 'provider/feed/reader/alchemy.py:generate_expression', 'not-eq'),
    ('AttributeError:\'bool\' object', 'provider/feed/reader/alchemy.py:<genexpr>', 'not-eq'),
    ('KeyError', 'io/dsl/parser.py:visit_element', 'mixed-table-ref'),
]
_SQLITE_EXCUSES = {'cast', 'year', 'floor-ceil', 'big-arith', 'set-operand-order', 'set-operand-set', 'full-join'}
_DUCKDB_EXCUSES = {'cast', 'big-arith', 'floor-ceil'}


def parse_tags(exc, trig) -> list:
    from vf.core.ctx import forml_frame

    name, frame = type(exc).__name__, forml_frame(exc)
    for etype, where, tag in _PARSE_ATTRIBUTION:
        etype, _, text = etype.partition(':')
        if name == etype and frame == where and tag in trig and text in str(exc):
            return [tag]
    return []


def slug(exc) -> str:
    """Engine error text without identifiers, literals and positions (structural bucket key material)."""
    import re

    text = str(exc).split('\n')[0]
    text = re.sub(r'^\([\w.]+\)\s*', '', text)
    text = re.sub(r'"[^"]*"|\'[^\']*\'|`[^`]*`', '', text)
    text = re.sub(r':\s.*$', '', text) if text.lower().startswith(('no such', 'near')) else text
    text = re.sub(r'\b[\w]+\.[\w.]+\b', '', text)
    text = re.sub(r'\d+', '', text)
    words = re.findall(r'[A-Za-z]+', text)
    return f'{type(exc).__name__}-' + '-'.join(words[:7]).lower()


def case_strategy(profile, clean: bool):
    stmts = S.statements(3, 4, profile)
    if clean:
        stmts = stmts.filter(_is_clean)
    return st.fixed_dictionaries({'stmt': stmts, 'data': datagen.tables()})


def _is_clean(stmt) -> bool:
    bad = shapes.triggers(stmt) & set(PARSE_TRIGGERS)
    if 'having-no-group' in shapes.engine_dependent(stmt):
        bad = bad | {'having-no-group'}
    for b in bad:
        _EXCLUDED[b] = _EXCLUDED.get(b, 0) + 1
    _EXCLUDED['_drawn'] = _EXCLUDED.get('_drawn', 0) + 1
    return not bad


def directions_of(stmt):
    return [d for _, d in stmt.get('orderby') or []] if stmt['t'] == 'query' else None


def run_engines(selectable, data, kinds):
    """``{engine name: ('rows', rows) | ('err', exception)}``"""
    out = {}
    for eng in engines.both():
        eng.load(data)
        try:
            out[eng.name] = ('rows', eng.execute(selectable, kinds))
        except Exception as exc:  # engine error: part of the observation
            out[eng.name] = ('err', exc)
    return out


def check_parser(ctx, spec):
    stmt, data = spec['stmt'], spec['data']
    tags = S.features(stmt)
    trig = shapes.triggers(stmt)
    edep = shapes.engine_dependent(stmt)
    ref, refstate = None, 'ok'
    try:
        ref = refeval.evaluate(stmt, data)
    except refeval.Ambiguous:
        refstate = 'ambiguous-nested-limit'
    except refeval.Undefined:
        refstate = 'ref-undefined'
    classes = sorted(tags & {'join', 'two-table-pred', 'two-table-and', 'two-table-or', 'groupby', 'nested', 'set', 'self-join',
                             'outer-join', 'cross-join', 'not', 'or', 'orderby', 'limit', 'offset', 'having', 'multi-join',
                             'non-equi-join', 'null-test', 'agg', 'deep', 'ref-set', 'select-star', 'aliased-field'})
    classes += [f'trigger:{t}' for t in sorted(trig & set(PARSE_TRIGGERS))]
    if ref is not None:
        classes.append('expected:non-empty' if ref.rows else 'expected:empty')
        if ref.weak:
            classes.append('expected:weak-limit')
        if ref.nullkeys:
            classes.append('expected:null-order-keys')
    else:
        classes.append(f'unjudged:{refstate}')
    if any(v is None for rows in data.values() for r in rows for v in r.values()):
        classes.append('data:nulls')
    if any(not rows for rows in data.values()):
        classes.append('data:empty-table')
    nontrivial = shapes.nontrivial_c06(stmt) or 'two-table-pred' in tags
    verdict_classes = _judge(ctx, spec, stmt, data, ref, trig, edep)
    ctx.case(spec, nontrivial=bool(nontrivial and ref is not None and ref.rows), classes=classes + verdict_classes)


def _judge(ctx, spec, stmt, data, ref, trig, edep) -> list:
    # ---- parse ------------------------------------------------------------------------------------------------------
    try:
        selectable = engines.parse(stmt)
    except Exception as exc:
        key = ctx.fail_exc(spec, 'parse', exc, parse_tags(exc, trig))
        ctx.mask(key)
        return ['parse:raised']
    kinds = [k for _, k in A.outputs_of(stmt)]
    outcome = run_engines(selectable, data, kinds)
    if 'having-no-group' in edep:
        return ['unjudged:having-no-group']
    rtags = result_tags(trig)
    # ---- per engine deviation ------------------------------------------------------------------------------------------
    dev = {}
    for name, (what, value) in outcome.items():
        if what == 'err':
            dev[name] = ('error', slug(value), str(value).split('\n')[0][:300])
        elif ref is not None:
            kind = refeval.compare(ref, value, directions_of(stmt))
            if kind is not None:
                dev[name] = (kind, kind, f'expected={_show(ref)} got={value[:12]}')
    excuses = {'sqlite': edep & _SQLITE_EXCUSES, 'duckdb': edep & _DUCKDB_EXCUSES}
    if ref is None:
        # no reference denotation: the only verdict left is that the parser output is executable somewhere
        if len(dev) == 2 and not excuses['sqlite'] and not excuses['duckdb'] and 'lit-group-key' not in edep:
            ctx.fail(spec, 'execute', 'error' if rtags else 'both-engines-' + dev['sqlite'][1], dev['sqlite'][2] + ' / ' + dev['duckdb'][2], rtags)
        return ['unjudged:no-reference']
    if not dev:
        return ['judged:both-engines']
    judges = ['sqlite', 'duckdb']
    # the literal-in-grouping-expression rejection of DuckDB is a reportable weakness of the generated SQL
    if 'duckdb' in dev and dev['duckdb'][0] == 'error' and 'lit-group-key' in edep and _is_groupby_rejection(dev['duckdb'][1]):
        ctx.fail(spec, 'execute', 'duckdb-' + dev['duckdb'][1], dev['duckdb'][2] + f' sql={selectable}', ['lit-group-key'])
        dev.pop('duckdb')
        judges.remove('duckdb')
    # an engine whose deviation an engine-dependent construct of the statement may explain is no judge
    excused = [n for n in dev if excuses[n]]
    for n in excused:
        judges.remove(n)
    out = ['engine-dependent:' + '+'.join(sorted(set().union(*[excuses[n] for n in excused])))] if excused else []
    bad = {n: dev[n] for n in judges if n in dev}
    if not bad:
        return out + (['judged:one-engine'] if judges else [])
    detail = f'sql={selectable} ' + ' / '.join(f'{n}: {d[2]}' for n, d in sorted(bad.items()))
    if rtags:
        # a known defect explains the deviation: its downstream symptoms (python bools inside SQL, wrong join kind) are
        # engine specific, the bucket names the defect and the coarse symptom only
        kinds = {d[0] for d in bad.values()}
        kind = 'error' if kinds == {'error'} else sorted(kinds - {'error'})[0]
        ctx.fail(spec, 'execute' if kind == 'error' else 'result', kind, detail, rtags)
        return out + ['judged:mismatch']
    if len({d[:2] for d in bad.values()}) == 1 and len(bad) == len(judges):  # every judge deviates the same way
        d = next(iter(bad.values()))
        if d[0] == 'error':
            ctx.fail(spec, 'execute', ('both-engines-' if len(bad) == 2 else sorted(bad)[0] + '-') + d[1], detail)
        else:
            ctx.fail(spec, 'result', d[0], detail)
        return out + ['judged:mismatch']
    for name, d in sorted(bad.items()):
        ctx.fail(spec, 'execute' if d[0] == 'error' else 'result', f'{name}-only-{d[1]}', detail)
    return out + ['judged:mismatch']


def result_tags(trig) -> list:
    """Attribution of a wrong result / execution error to the known defect that explains it (one tag, by precedence)."""
    # ('not-eq' - negation of a bare ==/!= - used to head this list; that defect is repaired, so it no longer explains anything)
    for tag in ('direct-query-over-set', 'cross-join'):
        if tag in trig:
            return [tag]
    return []


def _is_groupby_rejection(s: str) -> bool:
    return 'group-by' in s or 'parameter-not-supported' in s or 'must-appear' in s


def _show(ref) -> str:
    return f'{ref.rows[:12]}{" (weak, cardinality %d)" % ref.cardinality if ref.weak else ""}'


# ---- reader level -----------------------------------------------------------------------------------------------------------
def check_reader(ctx, spec):
    from vf.dslx import readerlevel as R

    records = R.execute(spec)
    steps = spec['steps']
    ops = [s['op'] for s in steps]
    classes = ['reader', f'reader:reads-{min(sum(o == "read" for o in ops), 6)}']
    if 'mutate' in ops:
        classes.append('reader:mutation')
    if 'restart' in ops:
        classes.append('reader:restart')
    fams = {R.family(r['feed']) for r in records}
    classes += [f'reader:{f}' for f in sorted(fams)]
    if len({r['feed'] for r in records}) > 1:
        classes.append('reader:feed-switch')
    if spec['stmts'][1] != spec['stmts'][0] and A.size(spec['stmts'][0]) == A.size(spec['stmts'][1]) and \
            A.tables_of(spec['stmts'][0]) == A.tables_of(spec['stmts'][1]):
        classes.append('reader:literal-twin-statements')
    changed = False
    seen = {}
    for rec in records:
        if rec['expected'] is None:
            continue
        sig = refeval.multiset(rec['expected'].rows)
        if rec['stmt'] in seen and seen[rec['stmt']] != sig:
            changed = True
        seen[rec['stmt']] = sig
    if changed:
        classes.append('reader:expected-changes')
    ctx.case(spec, nontrivial=changed, classes=classes)
    for i, rec in enumerate(records):
        fam = R.family(rec['feed'])
        stmt = spec['stmts'][rec['stmt']]
        obs = rec['obs']
        if 'err' in obs:
            tags = [fam] + (['table-without-columns'] if shapes.tables_without_columns(stmt) else [])
            ctx.fail(spec, 'read-raises', f"{obs['err']}@{obs['frame']}", f"step {rec['step']} via {rec['feed']}: {obs['msg']}", tags)
            continue
        if rec['expected'] is None:
            ctx.klass('reader:unjudged-' + rec['undefined'])
            continue
        got = [tuple(r) for r in obs['rows']]
        kind = refeval.compare(rec['expected'], got, directions_of(stmt))
        if kind is None:
            ctx.klass('reader:read-ok')
            continue
        # which earlier read's storage content explains the answer (state keyed without the identity of the storage)
        tags = [fam]
        stale = None
        for prev in reversed(records[:i]):
            try:
                old = refeval.evaluate(stmt, prev['storage'])
            except (refeval.Ambiguous, refeval.Undefined):
                # no single denotation over that content: the answer that read itself got is one admissible result
                if prev['stmt'] == rec['stmt'] and 'rows' in prev['obs'] and refeval.same_multiset([tuple(r) for r in prev['obs']['rows']], got):
                    stale = prev
                    break
                continue
            if refeval.compare(old, got, directions_of(stmt)) is None:
                stale = prev
                break
        detail = f"step {rec['step']} read stmt{rec['stmt']} via {rec['feed']}: expected={rec['expected'].rows[:10]} got={got[:10]}"
        if stale is None and _mixture_explains(stmt, got, records[:i], rec):
            ctx.fail(spec, 'read', 'stale-result', detail + ' == a per-table mixture of contents seen by earlier reads', tags + ['mixed-content'])
        elif stale is None:
            ctx.fail(spec, 'read', 'wrong-result-' + kind, detail, tags)
        else:
            tags.append('own-old-content' if stale['feed'] == rec['feed'] else 'other-feeds-content')
            if stale['segment'] != rec['segment']:
                tags.append('across-restart')
            ctx.fail(spec, 'read', 'stale-result', detail + f" == content seen by the read at step {stale['step']} via {stale['feed']}", tags)


def _mixture_explains(stmt, got, earlier, rec) -> bool:
    """Is the answer the statement's denotation over a per-table mixture of contents earlier reads have seen?"""
    import itertools

    tabs = A.tables_of(stmt)
    options = []
    for t in tabs:
        seen = []
        for r in earlier + [rec]:
            if r['storage'][t] not in seen:
                seen.append(r['storage'][t])
        options.append(seen)
    for n, combo in enumerate(itertools.product(*options)):
        if n > 600:
            break
        try:
            res = refeval.evaluate(stmt, dict(zip(tabs, combo)))
        except (refeval.Ambiguous, refeval.Undefined):
            continue
        if refeval.compare(res, got, directions_of(stmt)) is None:
            return True
    return False


def campaigns(ctx):
    from vf.dslx import readerlevel as R

    out = [
        Campaign('parser', case_strategy(PROFILE, False), check_parser, 900, 7000),
        Campaign('clean', case_strategy('semantic', True), check_parser, 900, 7000),
        Campaign('reader', R.histories(), check_reader, 40, 250),
    ]
    return out


_EXTRA_DATA = {
    'A': [{'id': 1, 'x': 1, 'f': 0.5, 's': 'a', 'b': True, 'd': '2020-01-01', 't': '2020-01-01T00:00:00'},
          {'id': 2, 'x': 2, 'f': 1.5, 's': 'b', 'b': False, 'd': '2021-06-15', 't': '2021-06-15T12:30:00'}],
    'B': [{'id': 1, 'a': 1, 'y': 0.5, 's': 'a'}, {'id': 2, 'a': 3, 'y': 2.0, 's': 'b'}],
    'C': [],
    'D': [],
}


def direct_set_queries() -> list:
    """Shapes the generator never produces (it queries statements through named references): the plain select-all
    directly over a set operation, ``left.union(right).query`` - it denotes the rows of the set."""
    out = []
    for kind in A.SET_KINDS:
        left = A.query(A.table('A'), [A.alias(A.col('A', 'x'), 'v')])
        right = A.query(A.table('B'), [A.alias(A.col('B', 'a'), 'v')])
        out.append({'stmt': A.query(A.setop(left, right, kind), []), 'data': _EXTRA_DATA})
    return out


def ungrouped_having_queries() -> list:
    """Whole-table aggregates with a post-aggregation filter but no grouping (rare in the random campaigns): the single
    aggregate row is returned iff the having-condition holds."""
    out = []
    count_b = A.agg('count', A.col('B', 'id'))
    sum_a = A.agg('sum', A.col('B', 'a'))
    for bound in (0, 1, 2, 5):
        for op in ('gt', 'le'):
            out.append({'stmt': A.query(A.table('B'), [A.alias(count_b, 'n')], having=A.cmp(op, count_b, A.lit(bound))), 'data': _EXTRA_DATA})
            out.append(
                {
                    'stmt': A.query(
                        A.table('B'), [A.alias(sum_a, 't'), A.alias(count_b, 'n')], where=A.cmp('gt', A.col('B', 'a'), A.lit(1)),
                        having=A.cmp(op, count_b, A.lit(bound)),
                    ),
                    'data': _EXTRA_DATA,
                }
            )
    return out


def reused_reference_names() -> list:
    """The generator keeps reference names unique within a statement; here two *different* sources carry the same
    reference name in different scopes (the two operands of a set operation) - names are local to their query."""
    out = []
    for kind in A.SET_KINDS:
        left = A.query(A.ref(A.table('A'), 't'), [A.alias(A.elem('t', 'x'), 'v')])
        right = A.query(A.ref(A.table('B'), 't'), [A.alias(A.elem('t', 'a'), 'v')])
        out.append({'stmt': A.setop(left, right, kind), 'data': _EXTRA_DATA})
        left = A.query(A.ref(A.table('B'), 't'), [A.alias(A.elem('t', 'a'), 'v')], where=A.cmp('gt', A.elem('t', 'y'), A.lit(1.0)))
        right = A.query(A.ref(A.table('A'), 't'), [A.alias(A.elem('t', 'x'), 'v')], where=A.cmp('gt', A.elem('t', 'f'), A.lit(1.0)))
        out.append({'stmt': A.setop(left, right, kind), 'data': _EXTRA_DATA})
    return out


def shared_reference_histories() -> list:
    """One producer serving several different statements that use the same named reference (a project's train and apply
    statements over ``School.reference('bar')``): rare among the random histories (reuse x alchemy x reference twice)."""
    from vf.dslx import readerlevel as R

    ref = A.ref(A.table('B'), 'r1')
    cond = A.cmp('eq', A.col('A', 'id'), A.elem('r1', 'a'))
    select = [A.col('A', 'id'), A.alias(A.elem('r1', 'y'), 'ry')]
    s0 = A.query(A.join(A.table('A'), ref, 'inner', cond), select)
    s1 = A.query(A.join(A.table('A'), ref, 'inner', cond), select, where=A.cmp('gt', A.col('A', 'x'), A.lit(1)))
    s2 = A.query(ref, [A.elem('r1', 'id'), A.elem('r1', 's')])
    init = {feed: _EXTRA_DATA for feed in R.FEEDS}
    out = []
    for a, b in ((s0, s1), (s1, s0), (s2, s0)):
        for feed in ('alc1', 'alc2'):
            steps = [{'op': 'read', 'feed': feed, 'stmt': i} for i in (0, 1, 0, 1)]
            out.append({'stmts': [a, b], 'init': init, 'steps': steps, 'reuse': True})
    return out


def enumerate_extra(ctx, shard, nshards):
    if shard == 0:
        ctx.campaign = 'reader'
        for spec in shared_reference_histories():
            check_reader(ctx, spec)
    for k, v in sorted(_EXCLUDED.items()):
        ctx.extra[f'clean_excluded:{k}'] = v
    if shard == 0:
        ctx.campaign = 'parser'
        for spec in direct_set_queries() + ungrouped_having_queries() + reused_reference_names():
            check_parser(ctx, spec)


LEVEL_TEXT = (
    'Generated-input search at two levels. Parser level: thousands of (statement, data) pairs per run; the SQLAlchemy '
    'selectable produced by alchemy.Parser (driven like Reader._parse_statement) is executed on SQLite and DuckDB and '
    'compared with an independent relational-algebra interpreter of the statement AST (three-valued logic, bag semantics, '
    'all join kinds, references, nesting, set operations, grouping, ordering, limit); a second campaign excludes the '
    'trigger shapes of the known parser defects so that the search goes on behind them. Reader level: short histories of '
    'reads, storage mutations, feed switches and process restarts over real alchemy and monolite feeds sharing one ForML '
    'home, every read compared with the interpreter over that feed\'s storage at read time. Evidence over the sampled '
    'statements, data and histories - not a proof.'
)
LEVEL_NOTE = (
    'Trusted: vf/dslx/refeval.py (reference evaluator), vf/dslx/build.py, SQLite 3.40 / DuckDB 1.5 through SQLAlchemy 2.0, '
    'Hypothesis. Engine-dependent constructs (casts, year, floor/ceil, overflow, ordering inside set operands) are '
    'compared three-way and a disagreement between the engines is counted, not judged; integer / and % are not generated. '
    'Reader level statements are restricted to shapes both back-ends execute alike and no known parser defect touches; '
    'restarts are forked children of a parent that has imported forml but never read.'
)
TECHNIQUE = (
    'property-based differential testing (Hypothesis): parser output on two SQL engines vs a reference interpreter; '
    'model-based history testing of real feeds across forked process restarts'
)
