"""C12 - cross-validated evaluation and stacking never leak held-out data.

Symbolic fold parts: the splitter is a symbolic stateful actor with 2n outputs, so fold parts are ``O(2i|2i+1, cv(.))``
terms and the provenance of everything reaching a metric / a stacker / a reducer is readable from the term.
"""
import pandas
from hypothesis import strategies as st

from forml import evaluation, flow
from forml.io import asset
from forml.pipeline import payload

from vf.checks import c03
from vf.core.hyp import Campaign
from vf.sym import actors, graphgen, hygiene, interp, opgen, term
from vf.sym.term import BOT, T

ID = 'C12'
LEVEL = 'exploration'
RULE = (
    'Hypothesis-generated (pipeline expression, method holdout|crossval, folds 2-5) evaluation configurations through '
    'evaluation.TrainTestScore, and (preprocessing scope, nesting, FullStack with 1-3 possibly composite bases, folds 2-5) '
    'stacking configurations, all with a symbolic splitter; plus random frames x random split index lists for the concrete '
    'PandasCVFolds splitter. Non-trivial: folds >= 3, or >= 2 bases, or a stateful operator inside the evaluated/ensembled '
    'scope. Distinct = spec digest.'
)
ASSUMPTIONS = [
    'symbolic actors/metric/reducer/stacker/appender; fold decisions are opaque ports of the symbolic splitter',
    'states of operators outside the evaluated/ensembled scope (upstream of the splitter by the documented scoping rule) are '
    'not subject to the no-leak predicate',
]
FLOORS = {'eval': 0.15, 'stack': 0.15, 'folds>=3': 0.12, 'scope-stateful': 0.3, 'splitter': 0.2}
LEVEL_TEXT = (
    'Generated-configuration search with two oracles: (1) exact equality of the metric / stacked-train / reduced-apply terms '
    'with the denotational model, and (2) an independent provenance predicate walked over the *observed* terms: every state '
    'under prediction i stems only from train port 2i, the data path only from test port 2i+1, true outcomes from label port '
    '2i+1, every fold exactly once and in order. The concrete pandas splitter is checked against plain list indexing.'
)
LEVEL_NOTE = (
    'Trusted: denotation and provenance walker in vf/checks/c12.py and vf/sym/opgen.py, Hypothesis. Fold counts 2-5, bases '
    '1-3, pipelines up to ~6 operators; real sklearn cross-validators are replaced by explicit index lists.'
)
TECHNIQUE = 'property-based testing: symbolic fold provenance (denotation equality + independent no-leak predicate on terms)'

E = actors.hp_term({})

# ---- generators ------------------------------------------------------------------------------------------------------------


@st.composite
def eval_specs(draw):
    names = opgen._Names()
    pipeline = draw(opgen._expr(names, 1, max_items=3, allow_stack=draw(st.integers(0, 5)) == 0))
    method = draw(st.sampled_from(['crossval', 'crossval', 'holdout']))
    return {'pipeline': pipeline, 'method': method, 'nsplits': 1 if method == 'holdout' else draw(st.integers(2, 5))}


@st.composite
def stack_specs(draw):
    names = opgen._Names()
    pre = draw(opgen._expr(names, 1, max_items=2, allow_stack=False)) if draw(st.integers(0, 3)) > 0 else None
    outer = draw(opgen._simple(names)) if pre is not None and draw(st.booleans()) else None
    nb = draw(st.integers(1, 3))
    bases = [draw(opgen._expr(names, 0, max_items=2, allow_stack=False)) for _ in range(nb)]
    fs = {'op': 'fullstack', 'name': 'fs', 'nsplits': draw(st.integers(2, 5)), 'bases': bases}
    # shapes: FS | pre >> FS | outer >> (pre >> FS)
    if pre is None:
        expr = fs
    elif outer is None:
        expr = {'op': 'seq', 'items': [pre, fs]}
    else:
        expr = {'op': 'seq', 'items': [outer, {'op': 'seq', 'items': [pre, fs]}]}
    return {'expr': expr, 'post': draw(st.booleans())}


# ---- provenance walker (independent of the denotation) ----------------------------------------------------------------------


def cv_ports(node, cvname, under_state=False, out=None):
    """Collect (port index, under_state, side) for every O(k, A(cvname, ..., x)) occurrence in the term."""
    if out is None:
        out = []
    seen = set()

    def visit(t, under):
        if not isinstance(t, term.Term):
            return
        key = (t.dig, under)
        if key in seen:
            return
        seen.add(key)
        if t.tag == 'O' and isinstance(t.kids[1], term.Term) and t.kids[1].tag == 'A' and t.kids[1].kids[0] == cvname:
            out.append((t.kids[0], under))
            return  # what the splitter itself was trained on (all data) is the splitter's business
        if t.tag == 'S':
            # kids: name, hp, prev, features, labels
            visit(t.kids[2], True)
            visit(t.kids[3], True)
            visit(t.kids[4], True)
            return
        for k in t.kids:
            visit(k, under)

    visit(node, under_state)
    return out


def purity(pred, fold, cvname, data_expected):
    """None or a description of the leak. data_expected: port the data path must come from (2i+1) or None (no cv data)."""
    for port, under in cv_ports(pred, cvname):
        if under and port != 2 * fold:
            return f'state under prediction of fold {fold} trained on splitter port {port} (expected {2 * fold})'
        if not under:
            if data_expected is None:
                return f'data path of fold {fold} reads splitter port {port} (expected none)'
            if port != data_expected:
                return f'data path of fold {fold} reads splitter port {port} (expected {data_expected})'
    return None


def is_cv_port(t, cvname, port, side):
    """t == O(port, A(cvname, hp, state, side))"""
    return (
        isinstance(t, term.Term)
        and t.tag == 'O'
        and t.kids[0] == port
        and isinstance(t.kids[1], term.Term)
        and t.kids[1].tag == 'A'
        and t.kids[1].kids[0] == cvname
        and t.kids[1].kids[3] == side
    )


def canon(t, unordered):
    """Rebuild the term with the arguments of order-insensitive combiners (named in ``unordered``) sorted by digest.

    The property demands that every fold contributes exactly once and that predictions are paired with the outcomes of
    the same fold; it does not fix the order in which folds are reduced / stacked. Pairing is checked by the predicates."""
    memo = {}

    def go(x):
        if not isinstance(x, term.Term):
            return x
        if x.dig in memo:
            return memo[x.dig]
        kids = [go(k) for k in x.kids]
        if x.tag in unordered:
            kids = sorted(kids, key=lambda k: k.dig if isinstance(k, term.Term) else repr(k))
        elif x.tag == 'F' and x.kids and x.kids[0] in unordered:
            kids = kids[:2] + sorted(kids[2:], key=lambda k: k.dig if isinstance(k, term.Term) else repr(k))
        out = T(x.tag, *kids)
        memo[x.dig] = out
        return out

    return go(t)


def fold_of_port(t, cvname, side):
    """j if t == O(2j+1, A(cvname, hp, state, side)) else None"""
    if isinstance(t, term.Term) and t.tag == 'O' and isinstance(t.kids[0], int) and t.kids[0] % 2 == 1:
        if is_cv_port(t, cvname, t.kids[0], side):
            return t.kids[0] // 2
    return None


def state_folds(t, cvname):
    """Set of fold indices whose train ports (2j) are mentioned under some state of t; odd ports under a state -> -1."""
    out = set()
    for port, under in cv_ports(t, cvname):
        if under:
            out.add(port // 2 if port % 2 == 0 else -1)
    return out


# ---- evaluation ---------------------------------------------------------------------------------------------------------------


def metric_fn(true, pred):
    return T('metric', true, pred)


def reduce_fn(*values):
    return T('reduce', *values)


def eval_expected(spec):
    a, t, l = c03.source_terms()
    n = spec['nsplits']
    cvs = T('S', 'cv', E, BOT, t, l)
    feats, labs = T('A', 'cv', E, cvs, t), T('A', 'cv', E, cvs, l)
    d = opgen.denote(spec['pipeline'])
    scores = []
    for i in range(n):
        pred = d(T('O', 2 * i + 1, feats), T('O', 2 * i, feats), T('O', 2 * i, labs))[0]
        scores.append(T('metric', T('O', 2 * i + 1, labs), pred))
    return scores[0] if n == 1 else T('reduce', *scores)


def run_eval(spec):
    actors.reset()
    n = spec['nsplits']
    if spec['method'] == 'holdout':
        method = evaluation.HoldOut(splitter=actors.St.builder('cv', 1, 2))
    else:
        method = evaluation.CrossVal(splitter=actors.St.builder('cv', 1, 2 * n), nsplits=n)
    pipeline = opgen.build(spec['pipeline'])
    composition = flow.Composition(
        c03.make_source(), pipeline >> evaluation.TrainTestScore(evaluation.Function(metric_fn, reduce_fn), method)
    )
    symbols = flow.compile(composition.train)
    info = interp.structure(symbols)
    results = interp.evaluate(symbols)
    leaves = [results[id(i)] for i in info['leaves']]
    return [v for v in leaves if isinstance(v, term.Term) and v.tag in ('metric', 'reduce')]


def check_eval(ctx, spec):
    cls = ['eval', f"method:{spec['method']}"] + opgen.classes(spec['pipeline'])
    n = spec['nsplits']
    scope_stateful = any(
        (e['op'] == 'simple' and 'st' in (e['mapper'], e['apply'], e['train'], e['label']))
        or e['op'] in ('smapper', 'fullstack')
        or (e['op'] == 'mapreduce' and any(m['kind'] == 'st' for m in e['mappers']))
        for e in opgen.walk(spec['pipeline'])
    )
    if n >= 3:
        cls.append('folds>=3')
    if scope_stateful:
        cls.append('scope-stateful')
    ctx.case(spec, nontrivial=n >= 3 or scope_stateful, classes=cls)
    try:
        got = run_eval(spec)
    except Exception as exc:
        ctx.fail_exc(spec, 'eval-raises', exc, [spec['method']] + opgen.copy_scope_tags(spec['pipeline'], whole=True))
        return
    finally:
        hygiene.release_graph()
    try:
        if len(got) != 1:
            ctx.fail(spec, 'eval-value', 'not-unique', f'{len(got)} metric leaves')
            return
        value = got[0]
        # (2) independent provenance predicate on the observed term
        scores = list(value.kids) if value.tag == 'reduce' else [value]
        if len(scores) != n:
            ctx.fail(spec, 'folds-once', 'count', f'{len(scores)} scored partitions for {n} folds', [spec['method']])
        _, t, l = c03.source_terms()
        seen_folds = []
        for sc in scores:
            if not (isinstance(sc, term.Term) and sc.tag == 'metric' and len(sc.kids) == 2):
                ctx.fail(spec, 'eval-value', 'shape', term.show(sc, 2))
                continue
            true, pred = sc.kids
            i = fold_of_port(true, 'cv', l)
            if i is None:
                ctx.fail(spec, 'true-outcomes', 'not-heldout-labels', f'true = {term.show(true, 3)}', [spec['method']])
                continue
            seen_folds.append(i)
            leak = purity(pred, i, 'cv', 2 * i + 1)
            if leak:
                ctx.fail(spec, 'leak', 'eval-' + ('state' if 'state' in leak else 'data'), leak, [spec['method']])
        if sorted(seen_folds) != list(range(n)):
            ctx.fail(spec, 'folds-once', 'folds', f'folds scored: {sorted(seen_folds)} expected {list(range(n))}', [spec['method']])
        # (1) exact denotation
        want = canon(eval_expected(spec), {'reduce'})
        value = canon(value, {'reduce'})
        if value != want:
            kind, detail = c03.diff_kind(want, value)
            ctx.fail(spec, 'eval-denotation', kind, detail, [spec['method']])
    finally:
        term.clear()


# ---- stacking -------------------------------------------------------------------------------------------------------------------


def find_fs(expr):
    return next(e for e in opgen.walk(expr) if e['op'] == 'fullstack' and e['name'] == 'fs')


def check_stack(ctx, spec):
    expr = spec['expr']
    fs = find_fs(expr)
    n, nb = fs['nsplits'], len(fs['bases'])
    cls = ['stack'] + opgen.classes(expr)
    scope_stateful = 'stateful>=2' in cls
    if n >= 3:
        cls.append('folds>=3')
    if nb >= 2:
        cls.append('bases>=2')
    if scope_stateful:
        cls.append('scope-stateful')
    ctx.case(spec, nontrivial=n >= 3 or nb >= 2 or scope_stateful, classes=cls)
    full = expr
    want_a, want_t = c03.expected(full)
    try:
        train_tail, apply_tail, _, _ = c03.run_expr(full)
    except Exception as exc:
        ctx.fail_exc(spec, 'stack-raises', exc, opgen.copy_scope_tags(full))
        return
    finally:
        hygiene.release_graph()
    try:
        if len(train_tail) != 1 or len(apply_tail) != 1:
            ctx.fail(spec, 'stack-value', 'not-unique', f'{len(train_tail)}/{len(apply_tail)} tails')
            return
        # (2) independent predicate on observed terms: locate the appender / stacker / reducer applications of 'fs'
        cv_state = [x for x in term.subterms(train_tail[0]) if x.tag == 'S' and x.kids[0] == 'fs.cv']
        if len(cv_state) != 1:
            ctx.fail(spec, 'stack-shape', 'splitter-state', f'{len(cv_state)} distinct splitter states')
            return
        l_in = cv_state[0].kids[4]
        for mode, tail in (('train', train_tail[0]), ('apply', apply_tail[0])):
            apps = [x for x in term.subterms(tail) if x.tag == 'F' and x.kids[0] == 'fs.app']
            train_apps = [x for x in apps if all(isinstance(k, term.Term) and k.tag == 'F' and k.kids[0] == 'fs.stk' for k in x.kids[2:])]
            apply_apps = [x for x in apps if all(isinstance(k, term.Term) and k.tag == 'F' and k.kids[0] == 'fs.red' for k in x.kids[2:])]
            if len(train_apps) != 1 or (mode == 'apply' and len(apply_apps) != 1) or len(train_apps) + len(apply_apps) != len(apps):
                ctx.fail(spec, 'stack-shape', 'appenders', f'{mode}: {len(train_apps)} stack-appenders, {len(apply_apps)} reduce-appenders of {len(apps)}')
                continue
            stackers = train_apps[0].kids[2:]
            if len(stackers) != nb:
                ctx.fail(spec, 'stack-shape', 'stackers', f'{len(stackers)} feature stackers for {nb} bases')
            label_stk = [
                x
                for x in term.subterms(tail)
                if x.tag == 'F' and x.kids[0] == 'fs.stk' and all(fold_of_port(k, 'fs.cv', l_in) is not None for k in x.kids[2:])
            ]
            if len(label_stk) != 1:
                ctx.fail(spec, 'stack-shape', 'label-stacker', f'{len(label_stk)} label stackers')
                continue
            order = [fold_of_port(k, 'fs.cv', l_in) for k in label_stk[0].kids[2:]]
            if sorted(order) != list(range(n)):
                ctx.fail(spec, 'folds-once', 'label-folds', f'stacked label folds {order} expected a permutation of {list(range(n))}')
                continue
            for s_ in stackers:
                parts = s_.kids[2:]
                if len(parts) != n:
                    ctx.fail(spec, 'folds-once', 'stack-count', f'{len(parts)} stacked parts for {n} folds')
                    continue
                for pos, part in enumerate(parts):
                    i = order[pos]  # the prediction stacked at this position is paired with the held-out labels of fold i
                    leak = purity(part, i, 'fs.cv', 2 * i + 1)
                    if leak:
                        ctx.fail(spec, 'leak', 'stack-' + ('state' if 'state' in leak else 'data'), leak)
            if mode == 'apply':
                reducers = apply_apps[0].kids[2:]
                if len(reducers) != nb:
                    ctx.fail(spec, 'stack-shape', 'reducers', f'{len(reducers)} reducers for {nb} bases')
                for r in reducers:
                    parts = r.kids[2:]
                    if len(parts) != n:
                        ctx.fail(spec, 'folds-once', 'reduce-count', f'{len(parts)} reduced parts for {n} folds')
                    determined = []
                    for part in parts:
                        if any(not under for _, under in cv_ports(part, 'fs.cv')):
                            ctx.fail(spec, 'leak', 'reduce-data', 'apply-mode fold model reads a splitter port on its data path')
                        folds = state_folds(part, 'fs.cv')
                        if len(folds) > 1 or -1 in folds:
                            ctx.fail(spec, 'leak', 'reduce-state', f'fold model mixes states of folds {sorted(folds)}')
                        determined.extend(folds)
                    if len(set(determined)) != len(determined):
                        ctx.fail(spec, 'folds-once', 'reduce-folds', f'fold models reduced: {sorted(determined)}')
        # (1) exact denotation
        for mode, want, got in (('train', want_t, train_tail[0]), ('apply', want_a, apply_tail[0])):
            want, got = canon(want, {'fs.red', 'fs.stk'}), canon(got, {'fs.red', 'fs.stk'})
            if got != want:
                kind, detail = c03.diff_kind(want, got)
                ctx.fail(spec, f'stack-denotation-{mode}', kind, detail)
    finally:
        term.clear()


# ---- concrete splitter ------------------------------------------------------------------------------------------------------------


class ListCV:
    """Cross-validator returning explicit index lists."""

    def __init__(self, indices):
        self._indices = indices

    def split(self, features, labels=None, groups=None):
        return [(list(a), list(b)) for a, b in self._indices]

    def get_n_splits(self, features=None, labels=None, groups=None):
        return len(self._indices)


@st.composite
def split_specs(draw):
    nrows = draw(st.integers(1, 8))
    ncols = draw(st.integers(1, 3))
    rows = [[draw(st.integers(-5, 5)) for _ in range(ncols)] for _ in range(nrows)]
    labels = [draw(st.integers(0, 3)) for _ in range(nrows)]
    nfolds = draw(st.integers(1, 4))
    idx = st.lists(st.integers(0, nrows - 1), max_size=nrows + 2)
    folds = [[draw(idx), draw(idx)] for _ in range(nfolds)]
    return {'rows': rows, 'labels': labels, 'folds': folds}


def check_split(ctx, spec):
    ctx.case(spec, nontrivial=len(spec['folds']) >= 2 and len(spec['rows']) >= 3, classes=['splitter'])
    frame = pandas.DataFrame(spec['rows'], columns=[f'c{i}' for i in range(len(spec['rows'][0]))])
    labels = pandas.Series(spec['labels'], name='y')
    builder = payload.PandasCVFolds.builder(crossvalidator=ListCV(spec['folds']))
    fresh = builder()
    try:
        fresh.apply(frame)
        ctx.fail(spec, 'splitter', 'untrained-apply-succeeds', 'apply before train did not raise')
    except RuntimeError:
        pass
    except Exception as exc:
        ctx.fail_exc(spec, 'splitter-untrained', exc)
    actor = builder()
    try:
        actor.train(frame, labels)
        twin = builder()
        twin.set_state(actor.get_state())
        fparts = actor.apply(frame)
        lparts = twin.apply(labels.to_frame())
    except Exception as exc:
        ctx.fail_exc(spec, 'splitter-raises', exc)
        return
    if len(fparts) != 2 * len(spec['folds']) or len(lparts) != len(fparts):
        ctx.fail(spec, 'splitter', 'port-count', f'{len(fparts)}/{len(lparts)} parts for {len(spec["folds"])} folds')
        return
    for i, (tr, te) in enumerate(spec['folds']):
        for port, idx in ((2 * i, tr), (2 * i + 1, te)):
            want_f = [spec['rows'][j] for j in idx]
            want_l = [spec['labels'][j] for j in idx]
            got_f = fparts[port].values.tolist()
            got_l = lparts[port]['y'].tolist()
            if got_f != want_f:
                ctx.fail(spec, 'splitter', 'features-rows', f'port {port}: {got_f} != {want_f}')
            if got_l != want_l:
                ctx.fail(spec, 'splitter', 'labels-rows', f'port {port}: {got_l} != {want_l}')


def campaigns(ctx):
    return [
        Campaign('eval', eval_specs(), check_eval, 250, 2500),
        Campaign('stack', stack_specs(), check_stack, 200, 2000),
        Campaign('splitter', split_specs(), check_split, 300, 3000),
    ]
