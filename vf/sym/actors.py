"""Symbolic actors: uninterpreted function symbols over :mod:`vf.sym.term`.

Importable by module name (required by spawned worker processes of dask / the serving pool).

* ``Fn(name, nin, nout, **hp)``: stateless; ``apply(x1..xn) = F(name, HP, x1..xn)``; output ``i`` of a multi-output
  actor is ``O(i, F(...))``.
* ``St(name, nin, nout, **hp)``: stateful; ``train(x, y)`` sets ``state = S(name, HP, prev_state, x, y)``;
  ``apply(xs) = A(name, HP, state, xs)``; an untrained apply yields ``A(name, HP, bot, xs)``.
* every ``apply``/``train`` invocation is appended to the call log (in-memory list, plus a file when
  ``VF_CALL_LOG`` is set so that other processes can be observed).
"""
import os
import pickle
import typing

from forml import flow

from . import term
from .term import BOT, T

CALLS: list[tuple] = []

#: name of the actor that raises on its next apply (failure injection by the harness); None = nobody
FAIL: list = [None]


class Injected(RuntimeError):
    """Failure injected by the harness into an actor."""


def maybe_fail(name: str) -> None:
    if FAIL[0] is not None and FAIL[0] == name:
        raise Injected(f'injected failure in {name}')


def log_call(entry: tuple) -> None:
    CALLS.append(entry)
    path = os.environ.get('VF_CALL_LOG')
    if path:
        blob = pickle.dumps(entry, protocol=4)
        fd = os.open(path, os.O_WRONLY | os.O_APPEND | os.O_CREAT, 0o644)
        try:
            os.write(fd, len(blob).to_bytes(4, 'big') + blob)  # one append per record: atomic across processes
        finally:
            os.close(fd)


def read_log(path: str) -> list[tuple]:
    out = []
    if not os.path.exists(path):
        return out
    with open(path, 'rb') as fh:
        data = fh.read()
    pos = 0
    while pos + 4 <= len(data):
        size = int.from_bytes(data[pos : pos + 4], 'big')
        out.append(pickle.loads(data[pos + 4 : pos + 4 + size]))
        pos += 4 + size
    return out


class Opaque:
    """Hyper-parameter whose *name* is constant while its content differs - like two different lambdas, both called
    '<lambda>': forml's textual representation of a builder shows only ``__name__`` of such values."""

    __name__ = 'opaque'

    def __init__(self, value):
        self.value = value

    def __repr__(self):
        return f'Opaque({self.value})'

    def __eq__(self, other):
        return isinstance(other, Opaque) and other.value == self.value

    def __hash__(self):
        return hash(('Opaque', self.value))


def hp_term(hp: typing.Mapping[str, typing.Any]) -> term.Term:
    return T('hp', *(f'{k}={hp[k]!r}' for k in sorted(hp)))


def outputs(value: term.Term, nout: int):
    if nout == 1:
        return value
    return tuple(T('O', i, value) for i in range(nout))


class Fn(flow.Actor):
    """Stateless symbolic actor."""

    ROLE = ''

    def __init__(self, name: str, nin: int = 1, nout: int = 1, **hp):
        self.name = self.ROLE + name
        self.nin = nin
        self.nout = nout
        self.hp = dict(hp)

    def apply(self, *features):
        maybe_fail(self.name)
        log_call(('apply', self.name, hp_term(self.hp), None, tuple(features)))
        return outputs(T('F', self.name, hp_term(self.hp), *features), self.nout)

    def get_params(self):
        return dict(self.hp)

    def set_params(self, **params):
        self.hp.update(params)


class St(flow.Actor):
    """Stateful symbolic actor."""

    ROLE = ''

    def __init__(self, name: str, nin: int = 1, nout: int = 1, **hp):
        self.name = self.ROLE + name
        self.nin = nin
        self.nout = nout
        self.hp = dict(hp)
        self.state: term.Term = BOT

    def train(self, features, labels, /):
        log_call(('train', self.name, hp_term(self.hp), self.state, (features, labels)))
        self.state = T('S', self.name, hp_term(self.hp), self.state, features, labels)

    def apply(self, *features):
        maybe_fail(self.name)
        log_call(('apply', self.name, hp_term(self.hp), self.state, tuple(features)))
        return outputs(T('A', self.name, hp_term(self.hp), self.state, *features), self.nout)

    def get_state(self) -> bytes:
        if self.state is BOT:
            return b''
        return term.to_bytes(self.state)

    def set_state(self, state: bytes) -> None:
        if not state:
            return
        self.state = term.from_bytes(state)

    def get_params(self):
        return dict(self.hp)

    def set_params(self, **params):
        self.hp.update(params)


def reset() -> None:
    CALLS.clear()
