"""Reference interpreter of a compiled symbol table: memoised, dependency ordered, every instruction exactly once."""
import typing

from forml.flow._code.target import system


class TableError(Exception):
    """Structural defect of a symbol table."""

    def __init__(self, kind: str, detail: str = ''):
        super().__init__(f'{kind}: {detail}')
        self.kind = kind


def structure(symbols) -> dict:
    """Structural validation; returns {'leaves': [...instructions nobody depends on...]}."""
    symbols = list(symbols)
    table = {}
    for sym in symbols:
        if id(sym.instruction) in table:
            raise TableError('duplicate-instruction', repr(sym.instruction))
        table[id(sym.instruction)] = sym
    used = set()
    for sym in symbols:
        for arg in sym.arguments:
            if id(arg) not in table:
                raise TableError('dangling-argument', f'{sym.instruction!r} <- {arg!r}')
            used.add(id(arg))
    # acyclicity
    state: dict[int, int] = {}
    for root in symbols:
        stack = [(root, iter(root.arguments))]
        if state.get(id(root.instruction)):
            continue
        state[id(root.instruction)] = 1
        while stack:
            sym, it = stack[-1]
            for arg in it:
                st = state.get(id(arg), 0)
                if st == 1:
                    raise TableError('cyclic', repr(arg))
                if st == 0:
                    state[id(arg)] = 1
                    nxt = table[id(arg)]
                    stack.append((nxt, iter(nxt.arguments)))
                    break
            else:
                state[id(sym.instruction)] = 2
                stack.pop()
    leaves = [s.instruction for s in symbols if id(s.instruction) not in used]
    for sym in symbols:
        if isinstance(sym.instruction, system.Getter) and id(sym.instruction) not in used:
            raise TableError('orphan-getter', repr(sym.instruction))
    return {'leaves': leaves, 'count': len(symbols)}


_NOENTRY = object()


def evaluate(symbols, entry=_NOENTRY) -> dict[int, typing.Any]:
    """Execute every instruction exactly once in dependency order; returns id(instruction) -> result.

    With ``entry`` given, argument-less actor instructions (the source) are called with that single argument - the calling
    convention of the serving runner, which feeds the request entry to the source."""
    symbols = list(symbols)
    table = {id(s.instruction): s for s in symbols}
    results: dict[int, typing.Any] = {}

    def ev(instruction):
        key = id(instruction)
        if key in results:
            return results[key]
        order = [(table[key], 0)]
        while order:
            sym, idx = order.pop()
            k = id(sym.instruction)
            if k in results:
                continue
            pending = [a for a in sym.arguments if id(a) not in results]
            if pending:
                order.append((sym, 0))
                for a in pending:
                    order.append((table[id(a)], 0))
                continue
            args = [results[id(a)] for a in sym.arguments]
            if (
                entry is not _NOENTRY
                and hasattr(sym.instruction, 'builder')
                and all(isinstance(a, system.Loader) for a in sym.arguments)
            ):
                args = args + [entry]  # the source: nothing but (optional) state presets in front
            results[k] = sym.instruction(*args)
        return results[key]

    for sym in symbols:
        ev(sym.instruction)
    return results
