"""Hash-consed symbolic terms.

A term ``T(tag, *kids)`` is an uninterpreted function application. Kids are terms or plain literals (str/int/float/
bool/None). Identity is the SHA-1 of the tag and the kid digests: equality and hashing are O(1), stable across processes
and survive pickling. Naive nested tuples explode exponentially on DAG-shaped provenance, so terms are interned and
(de)serialised as DAGs.
"""
import hashlib
import pickle
import typing

_TABLE: dict[str, 'Term'] = {}


class Term:
    __slots__ = ('tag', 'kids', 'dig', '__weakref__')

    def __new__(cls, tag: str, *kids):
        h = hashlib.sha1(tag.encode())
        for k in kids:
            if isinstance(k, Term):
                h.update(b'T' + k.dig.encode())
            else:
                h.update(b'L' + repr(k).encode())
        dig = h.hexdigest()[:20]
        found = _TABLE.get(dig)
        if found is not None:
            return found
        self = object.__new__(cls)
        self.tag = tag
        self.kids = tuple(kids)
        self.dig = dig
        _TABLE[dig] = self
        return self

    def __eq__(self, other):
        return isinstance(other, Term) and other.dig == self.dig

    def __ne__(self, other):
        return not self == other

    def __hash__(self):
        return hash(self.dig)

    def __bool__(self):
        return True

    def __repr__(self):
        return show(self, 6)

    def __reduce__(self):
        return _rebuild, (to_dag(self),)

    # terms travel through pandas-free code only; make accidental iteration/len loud
    def __iter__(self):
        raise TypeError('Term is atomic')


T = Term
BOT = Term('bot')  # "no state"


def to_dag(term: Term) -> list:
    """Topologically ordered list of (digest, tag, kids) where term kids are referenced by digest."""
    out: list = []
    seen: set[str] = set()

    def visit(t: Term):
        if t.dig in seen:
            return
        stack = [(t, iter(t.kids))]
        seen.add(t.dig)
        while stack:
            node, it = stack[-1]
            for k in it:
                if isinstance(k, Term) and k.dig not in seen:
                    seen.add(k.dig)
                    stack.append((k, iter(k.kids)))
                    break
            else:
                stack.pop()
                out.append((node.dig, node.tag, tuple(('T', k.dig) if isinstance(k, Term) else ('L', k) for k in node.kids)))

    visit(term)
    return out


def _rebuild(dag: list) -> Term:
    local: dict[str, Term] = {}
    last = None
    for dig, tag, kids in dag:
        last = Term(tag, *(local[v] if kind == 'T' else v for kind, v in kids))
        local[dig] = last
    return last


def to_bytes(term: Term) -> bytes:
    return pickle.dumps(to_dag(term), protocol=4)


def from_bytes(data: bytes) -> Term:
    return _rebuild(pickle.loads(data))


def show(term, depth: int = 4) -> str:
    if not isinstance(term, Term):
        return repr(term)
    if not term.kids:
        return term.tag
    if depth <= 0:
        return f'{term.tag}(#{term.dig[:6]})'
    return f"{term.tag}({', '.join(show(k, depth - 1) for k in term.kids)})"


def subterms(term: Term) -> typing.Iterator[Term]:
    seen = set()
    stack = [term]
    while stack:
        t = stack.pop()
        if not isinstance(t, Term) or t.dig in seen:
            continue
        seen.add(t.dig)
        yield t
        stack.extend(t.kids)


def size(term: Term) -> int:
    return sum(1 for _ in subterms(term))


def clear() -> None:
    """Drop the intern table (between cases, to bound memory). Existing Term objects stay valid and comparable."""
    _TABLE.clear()
    _TABLE[BOT.dig] = BOT
