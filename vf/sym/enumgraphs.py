"""Exhaustive enumeration of all segment specs of a small scope (for the thorough tier of C01/C02).

Scope: head (stateless, 0 inputs, 1-2 outputs) + up to ``middle`` further nodes + a one-input stateless tail; every
further node is a new group (fn/st, 1-2 inputs, 1-2 outputs) or a fork of an existing group, applied or (stateful
groups, at most once) trained; every input/train/label port ranges over every upstream output port that keeps the
symbol-level dependencies acyclic; assets: none, or every order of the trained stateful groups (train mode), or every
order of the untrained stateful groups (apply mode), each with and without a previous generation.
"""
import itertools

from . import graphgen


def _pubs(groups, nodes, trained_of, exclude_group=None):
    closure = graphgen._full_anc(nodes, trained_of) if exclude_group is not None else None
    out = []
    for i, n in enumerate(nodes):
        if n['mode'] != 'apply':
            continue
        if exclude_group is not None:
            anc = closure[i] | {i}
            if any(nodes[a]['mode'] == 'apply' and nodes[a]['g'] == exclude_group for a in anc):
                continue
        for p in range(groups[n['g']]['nout']):
            out.append([i, p])
    return out


def _extend(groups, nodes, trained_of, remaining, shapes):
    yield groups, nodes, trained_of
    if remaining == 0:
        return
    # new applied group
    for kind in ('fn', 'st'):
        for nin, nout in shapes:
            g = len(groups)
            groups2 = groups + [{'kind': kind, 'nin': nin, 'nout': nout, 'hp': {}, 'name': f'g{g}'}]
            for ins in itertools.product(_pubs(groups, nodes, trained_of), repeat=nin):
                nodes2 = nodes + [{'g': g, 'mode': 'apply', 'in': [list(p) for p in ins]}]
                yield from _extend(groups2, nodes2, trained_of, remaining - 1, shapes)
    # applied fork of an existing group
    for g, spec in enumerate(groups):
        if spec['nin'] < 1 or g == 0:
            continue
        for ins in itertools.product(_pubs(groups, nodes, trained_of), repeat=spec['nin']):
            nodes2 = nodes + [{'g': g, 'mode': 'apply', 'in': [list(p) for p in ins]}]
            yield from _extend(groups, nodes2, trained_of, remaining - 1, shapes)
    # trained fork of an existing stateful group / of a new stateful group
    cands = [(g, groups) for g, spec in enumerate(groups) if spec['kind'] == 'st' and g not in trained_of]
    g = len(groups)
    cands.append((g, groups + [{'kind': 'st', 'nin': 1, 'nout': 1, 'hp': {}, 'name': f'g{g}'}]))
    for g, groups2 in cands:
        ports = _pubs(groups, nodes, trained_of, exclude_group=g)
        for tr, lb in itertools.product(ports, repeat=2):
            nodes2 = nodes + [{'g': g, 'mode': 'train', 'train': list(tr), 'label': list(lb)}]
            yield from _extend(groups2, nodes2, {**trained_of, g: len(nodes)}, remaining - 1, shapes)


def all_graphs(middle=2, shapes=((1, 1), (2, 1), (1, 2))):
    for head_out in (1, 2):
        groups = [{'kind': 'fn', 'nin': 0, 'nout': head_out, 'hp': {}, 'name': 'g0'}]
        nodes = [{'g': 0, 'mode': 'apply', 'in': []}]
        for groups2, nodes2, trained_of in _extend(groups, nodes, {}, middle, shapes):
            for tin in _pubs(groups2, nodes2, trained_of):
                g = len(groups2)
                groups3 = groups2 + [{'kind': 'fn', 'nin': 1, 'nout': 1, 'hp': {}, 'name': f'g{g}'}]
                nodes3 = nodes2 + [{'g': g, 'mode': 'apply', 'in': [list(tin)]}]
                base = {'groups': groups3, 'nodes': nodes3, 'tail': len(nodes3) - 1, 'wire': []}
                yield {**base, 'assets': None}
                stateful = [x for x, s in enumerate(groups3) if s['kind'] == 'st']
                trained = [x for x in stateful if x in trained_of]
                untrained = [x for x in stateful if x not in trained_of]
                for pool in (trained, untrained):
                    for r in range(1, len(pool) + 1):
                        for perm in itertools.permutations(pool, r):
                            if pool is trained and r != len(pool) and False:
                                continue
                            for prev in (False, True):
                                yield {**base, 'assets': {'persistent': list(perm), 'prev': prev}}
