"""Task-graph specs: Hypothesis strategy (generative, not rejective), builder into forml.flow objects, and the direct
graph semantics over terms (computed from the spec alone; never touches forml.flow).

Spec::

    {'groups': [{'kind': 'fn'|'st', 'nin': int, 'nout': int, 'hp': {...}, 'name': str}],
     'nodes':  [{'g': group, 'mode': 'apply', 'in': [[node, port], ...]} | {'g': group, 'mode': 'train', 'train': [n, p], 'label': [n, p]}],
     'tail': node index, 'wire': [permutation of wiring calls],
     'assets': None | {'persistent': [group | -k phantom], 'prev': bool}}

Node 0 is the head (its single optional input port stays open). Nodes are listed in a topological order of the data
dependencies.
"""
import uuid

from hypothesis import strategies as st

from forml import flow
from forml.io import asset

from . import actors, term
from .term import BOT, T

# ---- strategy ------------------------------------------------------------------------------------------------------------


def _full_anc(nodes, trained_of):
    """node -> set of nodes it depends on, including state edges (derived fork -> trainer of its group)."""
    deps = {}
    for i, n in enumerate(nodes):
        d = set()
        if n['mode'] == 'apply':
            d.update(p for p, _ in n['in'])
            t = trained_of.get(n['g'])
            if t is not None and t != i:
                d.add(t)
        else:
            d.add(n['train'][0])
            d.add(n['label'][0])
        deps[i] = d
    closure = {}

    def close(i, stack=()):
        if i in closure:
            return closure[i]
        out = set()
        for d in deps[i]:
            out.add(d)
            out |= close(d)
        closure[i] = out
        return out

    for i in range(len(nodes)):
        close(i)
    return closure


@st.composite
def graphs(draw, max_nodes=10, with_assets=True, max_ports=3, apply_only=False):
    hp_st = st.dictionaries(st.sampled_from(['a', 'b']), st.integers(0, 3), max_size=2)
    groups = []
    nodes = []
    trained_of = {}

    def new_group(kind, nin, nout):
        gid = len(groups)
        twin = None
        if groups and draw(st.integers(0, 3 if apply_only else 9)) == 0:  # repeated builder: equal name/hp as an earlier group of same shape
            cands = [g for g in groups if (g['kind'], g['nin'], g['nout']) == (kind, nin, nout)]
            if cands:
                twin = cands[draw(st.integers(0, len(cands) - 1))]
        if twin is not None:
            # same name and hyper-parameters; half of the twins differ in an *opaque* parameter (equal textual
            # representation of the builder, different content - like two different lambdas)
            groups.append({'kind': kind, 'nin': nin, 'nout': nout, 'hp': dict(twin['hp']), 'name': twin['name']})
            groups[-1]['twin_of'] = groups.index(twin)
            groups[-1]['opaque'] = gid if draw(st.booleans()) else twin['opaque']
            # equal content: the two worker groups may even be made from the very same builder object (an operator
            # composed repeatedly reuses its builder)
            groups[-1]['same_builder'] = groups[-1]['opaque'] == twin['opaque'] and draw(st.booleans())
        else:
            groups.append({'kind': kind, 'nin': nin, 'nout': nout, 'hp': draw(hp_st), 'name': f'g{gid}', 'opaque': gid})
        return gid

    # head
    head_kind = draw(st.sampled_from(['fn', 'fn', 'st']))
    head_nin = draw(st.integers(0, 1))
    new_group(head_kind, head_nin, draw(st.sampled_from([1, 1, 2, 3][:max_ports + 1])))
    nodes.append({'g': 0, 'mode': 'apply', 'in': []})
    if not apply_only and draw(st.integers(0, 39)) == 0:  # the smallest valid segment: a single worker being head and tail at once
        groups[0]['nout'] = 1
        spec = {'groups': groups, 'nodes': nodes, 'tail': 0, 'wire': [], 'assets': None}
        if with_assets and head_kind == 'st' and draw(st.booleans()):
            spec['assets'] = {'persistent': [0], 'prev': draw(st.booleans())}
        return spec
    total = draw(st.integers(1, max_nodes))

    def pubs(exclude_groups=()):
        """Output ports of applied nodes usable as publishers."""
        closure = _full_anc(nodes, trained_of) if exclude_groups else None
        out = []
        for i, n in enumerate(nodes):
            if n['mode'] != 'apply':
                continue
            if exclude_groups:
                anc = closure[i] | {i}
                if any(nodes[a]['mode'] == 'apply' and nodes[a]['g'] in exclude_groups for a in anc):
                    continue
            for p in range(groups[n['g']]['nout']):
                out.append([i, p])
        return out

    while len(nodes) < total:
        choice = draw(st.integers(0, 9))
        if choice <= 2 and not apply_only:  # trained fork of an existing or new stateful group
            cand = [g for g, spec in enumerate(groups) if spec['kind'] == 'st' and g not in trained_of]
            if cand and draw(st.booleans()):
                g = cand[draw(st.integers(0, len(cand) - 1))]
            else:
                g = new_group('st', draw(st.integers(1, max_ports)), draw(st.integers(1, max_ports)))
            ports = pubs(exclude_groups={g})
            if not ports:
                continue
            tr = ports[draw(st.integers(0, len(ports) - 1))]
            lb = ports[draw(st.integers(0, len(ports) - 1))]
            trained_of[g] = len(nodes)
            nodes.append({'g': g, 'mode': 'train', 'train': tr, 'label': lb})
            continue
        # applied node: fork of an existing group (shape must allow: nin >= 1) or a new group
        cand = [g for g, spec in enumerate(groups) if spec['nin'] >= 1]
        if cand and choice <= 5:
            g = cand[draw(st.integers(0, len(cand) - 1))]
        else:
            g = new_group(draw(st.sampled_from(['fn', 'st'])), draw(st.integers(1, max_ports)), draw(st.integers(1, max_ports)))
        ports = pubs()
        ins = [ports[draw(st.integers(0, len(ports) - 1))] for _ in range(groups[g]['nin'])]
        sibling = [n for n in nodes if n['mode'] == 'apply' and n['g'] == groups[g].get('twin_of', -1) and n['in']]
        if sibling and draw(st.booleans()):  # twin builders fed by the very same publishers
            ins = [list(p) for p in sibling[0]['in']]
        nodes.append({'g': g, 'mode': 'apply', 'in': ins})
    # tail: a fresh single-output (or output-less) node that nobody subscribes to
    ports = pubs()
    consumed = {(p[0], p[1]) for n in nodes if n['mode'] == 'apply' for p in n['in']}
    consumed |= {tuple(n[k]) for n in nodes if n['mode'] == 'train' for k in ('train', 'label')}
    free = [p for p in ports if tuple(p) not in consumed]
    if apply_only:
        # single-sink table: the tail consumes one port of every node nobody listens to (plus a few random ports)
        listened = {p[0] for p in consumed}
        ins = [p for p in free if p[0] not in listened and p[1] == 0]
        ins += [ports[draw(st.integers(0, len(ports) - 1))] for _ in range(draw(st.integers(0 if ins else 1, 2)))]
    elif free and draw(st.booleans()):
        ins = free[:6]  # fully connected: the tail consumes the otherwise unconsumed outputs
    else:
        ins = [ports[draw(st.integers(0, len(ports) - 1))] for _ in range(draw(st.integers(1, 3)))]
    g = new_group(draw(st.sampled_from(['fn', 'st'])), len(ins), 1 if apply_only else draw(st.sampled_from([1, 1, 1, 0])))
    nodes.append({'g': g, 'mode': 'apply', 'in': ins})
    tail = len(nodes) - 1
    # late trained forks may also hang on the tail output
    if groups[g]['nout'] == 1 and not apply_only and draw(st.integers(0, 4)) == 0:
        cand = [x for x, spec in enumerate(groups) if spec['kind'] == 'st' and x not in trained_of]
        if cand:
            x = cand[draw(st.integers(0, len(cand) - 1))]
            ports = pubs(exclude_groups={x})
            if [tail, 0] in ports:
                trained_of[x] = len(nodes)
                nodes.append({'g': x, 'mode': 'train', 'train': [tail, 0], 'label': ports[draw(st.integers(0, len(ports) - 1))]})
    nwire = sum(len(n['in']) if n['mode'] == 'apply' else 1 for n in nodes)
    wire = draw(st.permutations(list(range(nwire)))) if draw(st.booleans()) else list(range(nwire))
    spec = {'groups': groups, 'nodes': nodes, 'tail': tail, 'wire': list(wire), 'assets': None}
    if apply_only:
        spec['fail'] = draw(st.integers(0, 10**6))  # which node raises in the failing request of a serving history
    if with_assets and draw(st.integers(0, 3)) > 0:
        stateful = [g for g, s in enumerate(groups) if s['kind'] == 'st' and any(n['g'] == g for n in nodes)]
        trained = [g for g in stateful if g in trained_of]
        untrained = [g for g in stateful if g not in trained_of]
        if trained and draw(st.booleans()):  # train mode: every persistent group is trained in the segment
            subset = draw(st.lists(st.sampled_from(trained), min_size=1, max_size=len(trained), unique=True))
        else:  # apply mode: persistent groups only get loaded; phantom entries (negative) are absent from the segment
            subset = draw(st.lists(st.sampled_from(untrained), max_size=len(untrained), unique=True)) if untrained else []
            for k in range(draw(st.integers(0, 2))):
                subset.insert(draw(st.integers(0, len(subset))), -(k + 1))
        spec['assets'] = {'persistent': subset, 'prev': draw(st.booleans())}
    return spec


# ---- direct semantics -------------------------------------------------------------------------------------------------------


def group_hp(group):
    hp = dict(group['hp'])
    if group.get('opaque') is not None:
        hp['opaque'] = actors.Opaque(group['opaque'])
    return hp


class Expected:
    """Direct evaluation of the spec DAG in the term algebra."""

    def __init__(self, spec):
        self.spec = spec
        self.groups = spec['groups']
        self.nodes = spec['nodes']
        self.assets = spec['assets']
        self.trained_of = {n['g']: i for i, n in enumerate(self.nodes) if n['mode'] == 'train'}
        self.persistent = list(self.assets['persistent']) if self.assets else []
        self._val = {}
        self._state = {}

    def hp(self, g):
        return actors.hp_term(group_hp(self.groups[g]))

    def prev(self, g):
        """State loaded from the previous generation for group g (bot if none)."""
        if self.assets and g in self.persistent and self.assets['prev']:
            return T('P', self.persistent.index(g))
        return BOT

    def state(self, g):
        """State held by the applied forks of group g."""
        if g in self._state:
            return self._state[g]
        if g in self.trained_of:
            n = self.nodes[self.trained_of[g]]
            s = T('S', self.groups[g]['name'], self.hp(g), self.prev(g), self.port(*n['train']), self.port(*n['label']))
        else:
            s = self.prev(g)
        self._state[g] = s
        return s

    def value(self, i):
        """Whole (un-split) result term of applied node i."""
        if i in self._val:
            return self._val[i]
        n = self.nodes[i]
        g = self.groups[n['g']]
        ins = [self.port(*p) for p in n['in']]
        if g['kind'] == 'fn':
            v = T('F', g['name'], self.hp(n['g']), *ins)
        else:
            v = T('A', g['name'], self.hp(n['g']), self.state(n['g']), *ins)
        self._val[i] = v
        return v

    def port(self, i, p):
        g = self.groups[self.nodes[i]['g']]
        v = self.value(i)
        return v if g['nout'] == 1 else T('O', p, v)

    def calls(self):
        out = []
        for i, n in enumerate(self.nodes):
            g = self.groups[n['g']]
            if n['mode'] == 'train':
                out.append(('train', g['name'], self.hp(n['g']), self.prev(n['g']), (self.port(*n['train']), self.port(*n['label']))))
            else:
                state = None if g['kind'] == 'fn' else self.state(n['g'])
                out.append(('apply', g['name'], self.hp(n['g']), state, tuple(self.port(*p) for p in n['in'])))
        return out

    def asset_ops(self):
        """(sorted load offsets, {offset: state term dumped}, committed?)"""
        if not self.assets:
            return [], {}, False
        present = {n['g'] for n in self.nodes}
        loads = sorted(k for k, g in enumerate(self.persistent) if g >= 0 and g in present)
        dumps = {k: self.state(g) for k, g in enumerate(self.persistent) if g >= 0 and g in self.trained_of}
        return loads, dumps, bool(dumps)


# ---- builder ------------------------------------------------------------------------------------------------------------------


class FakeRelease:
    def __init__(self, log):
        self.log = log
        self.dumped = {}

    def dump(self, state):
        sid = uuid.UUID(int=len(self.dumped) + 1)
        self.dumped[sid] = state
        self.log.append(('dump', sid, state))
        return sid

    def put(self, tag):
        self.log.append(('put', tuple(tag.states)))
        return FakeGeneration(self.log, self, tag, True)


class FakeGeneration:
    """Stand-in for asset.Generation: only what asset.State touches."""

    def __init__(self, log, release=None, tag=None, prev=False):
        self.log = log
        self.release = release or FakeRelease(log)
        self.tag = tag or asset.Tag()
        self.prev = prev

    def get(self, index):
        self.log.append(('get', index))
        if not self.prev:
            return b''
        return term.to_bytes(T('P', index))


class Built:
    def __init__(self, spec):
        self.spec = spec
        self.log = []
        groups = spec['groups']
        self.builders = []
        for g in groups:
            cls = actors.St if g['kind'] == 'st' else actors.Fn
            if g.get('same_builder'):
                self.builders.append(self.builders[g['twin_of']])
                continue
            self.builders.append(cls.builder(g['name'], g['nin'], g['nout'], **group_hp(g)))
        self.workers = []
        first = {}
        for n in spec['nodes']:
            g = n['g']
            if g not in first:
                w = flow.Worker(self.builders[g], groups[g]['nin'], groups[g]['nout'])
                first[g] = w
            else:
                w = first[g].fork()
            self.workers.append(w)
        calls = []
        for i, n in enumerate(spec['nodes']):
            if n['mode'] == 'apply':
                for port, (p, q) in enumerate(n['in']):
                    calls.append(('sub', i, port, p, q))
            else:
                calls.append(('train', i, n['train'], n['label']))
        order = spec.get('wire') or list(range(len(calls)))
        for k in order:
            c = calls[k]
            if c[0] == 'sub':
                _, i, port, p, q = c
                self.workers[i][port].subscribe(self.workers[p][q])
            else:
                _, i, tr, lb = c
                self.workers[i].train(self.workers[tr[0]][tr[1]], self.workers[lb[0]][lb[1]])
        self.head = self.workers[0]
        self.tail = self.workers[spec['tail']]
        self.gids = [first[g].gid if g in first else None for g in range(len(groups))]
        self.assets = None
        if spec['assets']:
            nodes = [self.gids[g] if g >= 0 else uuid.UUID(int=10**9 - g) for g in spec['assets']['persistent']]
            self.generation = FakeGeneration(self.log, prev=spec['assets']['prev'])
            self.assets = asset.State(self.generation, nodes, asset.Tag())

    def segment(self):
        return flow.Segment(self.head, self.tail)


def classes(spec):
    groups, nodes = spec['groups'], spec['nodes']
    out = []
    if any(groups[n['g']]['nout'] > 1 for n in nodes):
        out.append('multi-out')
    if any(groups[n['g']]['nin'] > 1 for n in nodes if n['mode'] == 'apply'):
        out.append('multi-in')
    per = {}
    for n in nodes:
        per[n['g']] = per.get(n['g'], 0) + 1
    if any(v >= 2 for v in per.values()):
        out.append('forks')
    trained = {n['g'] for n in nodes if n['mode'] == 'train'}
    if trained:
        out.append('trained')
    if any(per[g] >= 2 for g in trained):
        out.append('derived')
    a = spec['assets']
    if a:
        out.append('assets')
        real = [g for g in a['persistent'] if g >= 0]
        if len(real) >= 2:
            out.append('assets>=2')
        if any(g in trained for g in real):
            out.append('assets-train')
        elif real:
            out.append('assets-load')
        if a['prev']:
            out.append('prev-gen')
    names = [g['name'] for g in groups]
    if len(set(names)) < len(names):
        out.append('repeated-builder')
    if any(g.get('twin_of') is not None and g.get('opaque') != groups[g['twin_of']].get('opaque') for g in groups):
        out.append('same-repr-different-builder')
    pubs = {}
    for n in nodes:
        for p in (n['in'] if n['mode'] == 'apply' else [n['train'], n['label']]):
            pubs[tuple(p)] = pubs.get(tuple(p), 0) + 1
    if any(v >= 2 for v in pubs.values()):
        out.append('fan-out')
    used = {(p[0], p[1]) for p in pubs}
    if any((i, q) not in used for i, n in enumerate(nodes) if n['mode'] == 'apply' and i != spec['tail'] for q in range(groups[n['g']]['nout'])):
        out.append('unused-port')
    return out


def nontrivial(spec):
    c = classes(spec)
    return 'multi-out' in c or 'forks' in c or 'assets>=2' in c
