"""Process-global state of forml.flow that must not leak between generated cases."""
import collections

from forml.flow._graph import port


class _Ports(collections.defaultdict):
    """Drop-in for ``Subscription._PORTS`` (a never shrinking defaultdict(set) keyed by nodes whose hash is only their
    shape, so lookups degrade linearly with every node ever created in the process).

    Identical semantics, except that ``get`` of a missing key hands out a throw-away set instead of the caller supplied
    ``{}`` default on which ``Subscription.__del__`` would call ``.discard`` (AttributeError noise at garbage collection
    after the registry was emptied)."""

    def get(self, key, default=None):
        if key in self:
            return self[key]
        return set()


def install() -> None:
    if not isinstance(port.Subscription._PORTS, _Ports):
        new = _Ports(set)
        new.update(port.Subscription._PORTS)
        port.Subscription._PORTS = new


def release_graph() -> None:
    """Forget the registry entries of the graphs built so far (call between cases, after dropping the graph)."""
    install()
    port.Subscription._PORTS.clear()
