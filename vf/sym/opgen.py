"""Operator-expression specs: Hypothesis strategy, builder into real forml operators, denotational model over terms.

Spec (JSON)::

    expr := {'op': 'seq', 'items': [expr, expr, ...]}            # left associative chain; nesting = explicit parentheses
          | {'op': 'simple', 'name': n, 'hp': {...}, 'mapper': k, 'apply': k, 'train': k, 'label': k}   # k: None|'st'|'fn'
          | {'op': 'mapreduce', 'name': n, 'mappers': [{'name','kind','hp'}]}
          | {'op': 'smapper', 'name': n, 'hp': {...}}              # docs' StatefulMapper (public API operator)
          | {'op': 'twice', 'name': n}                              # scope-wrapping operator expanding its left side twice
          | {'op': 'fullstack', 'name': n, 'nsplits': k, 'bases': [expr, ...]}

The denotation ``D(expr)`` is a function ``(a, t, l) -> (a', t', l')`` over terms written from docs/workflow/operator.rst
and the operator docstrings; it never touches forml.
"""
from hypothesis import strategies as st

from forml.pipeline import ensemble, payload

from . import actors, ops
from .term import BOT, T

# ---- strategy ----------------------------------------------------------------------------------------------------------

_KINDS = st.sampled_from(['st', 'st', 'fn'])
_HP = st.dictionaries(st.sampled_from(['a', 'b']), st.integers(0, 2), max_size=1)


class _Names:
    def __init__(self):
        self.n = 0

    def __call__(self, prefix):
        self.n += 1
        return f'{prefix}{self.n}'


@st.composite
def _simple(draw, names):
    shape = draw(st.integers(0, 11))
    spec = {'op': 'simple', 'name': names('m'), 'hp': draw(_HP), 'mapper': None, 'apply': None, 'train': None, 'label': None}
    if shape <= 3:
        spec['mapper'] = draw(_KINDS)
    elif shape == 4:
        spec['apply'] = draw(_KINDS)
    elif shape == 5:
        spec['train'] = draw(_KINDS)
    elif shape == 6:
        spec['label'] = draw(_KINDS)
    elif shape == 7:
        spec['mapper'], spec['label'] = draw(_KINDS), draw(_KINDS)
    elif shape == 8:
        spec['apply'], spec['label'] = draw(_KINDS), draw(_KINDS)
    elif shape == 9:
        spec['apply'], spec['train'] = draw(_KINDS), draw(_KINDS)
    elif shape == 10:
        spec['apply'], spec['train'], spec['label'] = draw(_KINDS), draw(_KINDS), draw(_KINDS)
    else:
        spec['train'], spec['label'] = draw(_KINDS), draw(_KINDS)
    return spec


@st.composite
def _operator(draw, names, depth, allow_stack=True):
    pick = draw(st.integers(0, 19))
    if pick <= 10 or depth <= 0:
        return draw(_simple(names))
    if pick <= 12:
        k = draw(st.integers(1, 3))
        return {
            'op': 'mapreduce',
            'name': names('mr'),
            'mappers': [{'name': names('mm'), 'kind': draw(_KINDS), 'hp': draw(_HP)} for _ in range(k)],
        }
    if pick <= 14:
        return {'op': 'smapper', 'name': names('sm'), 'hp': draw(_HP)}
    if pick <= 15:
        return {'op': 'twice', 'name': names('tw')}
    if pick <= 16:
        return {'op': 'siamese', 'name': names('si'), 'hp': draw(_HP)}
    if not allow_stack:
        return draw(_simple(names))
    nb = draw(st.integers(1, 2))
    bases = [draw(_expr(names, depth - 1, max_items=2, allow_stack=False)) for _ in range(nb)]
    return {'op': 'fullstack', 'name': names('fs'), 'nsplits': draw(st.integers(2, 3)), 'bases': bases}


@st.composite
def _expr(draw, names, depth, max_items=4, allow_stack=True):
    n = draw(st.integers(1, max_items))
    items = []
    for _ in range(n):
        if depth > 0 and draw(st.integers(0, 4)) == 0:
            items.append(draw(_expr(names, depth - 1, max_items=3, allow_stack=allow_stack)))  # explicit parentheses
        else:
            items.append(draw(_operator(names, depth, allow_stack)))
    if len(items) == 1:
        return items[0]
    return {'op': 'seq', 'items': items}


@st.composite
def expressions(draw, depth=2, max_items=4):
    return draw(_expr(_Names(), depth, max_items))


@st.composite
def _passthrough(draw, names):
    """A simple operator without any apply-mode actor (train-only and/or label actors): its apply segment is a bare Future."""
    spec = {'op': 'simple', 'name': names('m'), 'hp': draw(_HP), 'mapper': None, 'apply': None, 'train': None, 'label': None}
    which = draw(st.sampled_from(['train', 'label', 'both']))
    if which in ('train', 'both'):
        spec['train'] = draw(_KINDS)
    if which in ('label', 'both'):
        spec['label'] = draw(_KINDS)
    return spec


@st.composite
def scoped_expressions(draw):
    """A multi-expanding operator (stacking ensemble, ``twice``) behind a scope that holds an explicitly parenthesised group,
    most of whose members have no apply-mode actor: the copies such operators take of the scope's apply segment then run over
    placeholder nodes that were only registered with each other, never subscribed (seeded change C03-5)."""
    names = _Names()
    one = lambda: draw(_passthrough(names)) if draw(st.integers(0, 9)) < 7 else draw(_simple(names))  # noqa: E731
    prefix = [draw(_simple(names)) for _ in range(draw(st.integers(0, 2)))]
    group = [one() for _ in range(draw(st.integers(1, 3)))]
    if len(group) >= 2 and draw(st.booleans()):  # nested once more: a >> (b >> (c >> d))
        group = group[:1] + [{'op': 'seq', 'items': group[1:]}] if len(group) > 2 else group
    if draw(st.integers(0, 3)) == 0:
        expander = {'op': 'twice', 'name': names('tw')}
    else:
        nb = draw(st.integers(1, 2))
        bases = [draw(_expr(names, 0, max_items=2, allow_stack=False)) for _ in range(nb)]
        expander = {'op': 'fullstack', 'name': names('fs'), 'nsplits': draw(st.integers(2, 3)), 'bases': bases}
    suffix = [draw(_simple(names)) for _ in range(draw(st.integers(0, 1)))]
    scope = prefix + [{'op': 'seq', 'items': group} if len(group) > 1 else group[0]]
    return {'op': 'seq', 'items': scope + [expander] + suffix}


# ---- builder --------------------------------------------------------------------------------------------------------------


_SHARED: dict = {}


def build(expr, _top=True):
    """Fresh real operator instances for the expression. ``smapper`` nodes flagged ``share`` with equal name and
    hyper-parameters are made from one and the same builder object (an operator instantiated repeatedly with one builder)."""
    if _top:
        _SHARED.clear()
    op = expr['op']
    if op == 'seq':
        items = [build(e, False) for e in expr['items']]
        out = items[0]
        for nxt in items[1:]:
            out = out >> nxt
        return out
    if op == 'simple':
        cls = ops.decorated(expr['mapper'], expr['apply'], expr['train'], expr['label'])
        return cls(name=expr['name'], **expr['hp'])
    if op == 'mapreduce':
        mappers = [(actors.St if m['kind'] == 'st' else actors.Fn).builder(m['name'], 1, 1, **m['hp']) for m in expr['mappers']]
        return payload.MapReduce(*mappers, reducer=actors.Fn.builder(expr['name'], len(mappers), 1))
    if op == 'smapper':
        if expr.get('share'):
            key = (expr['name'], repr(sorted(expr['hp'].items())))
            if key not in _SHARED:
                _SHARED[key] = actors.St.builder(expr['name'], 1, 1, **expr['hp'])
            return ops.StatefulMapper(_SHARED[key])
        return ops.StatefulMapper(actors.St.builder(expr['name'], 1, 1, **expr['hp']))
    if op == 'twice':
        return ops.Twice(actors.Fn.builder(expr['name'], 2, 1))
    if op == 'siamese':
        n = expr['name']
        return ops.Siamese(
            actors.St.builder(n, 1, 1, **expr['hp']),
            actors.Fn.builder(f'{n}.l', 1, 1),
            actors.Fn.builder(f'{n}.r', 1, 1),
            actors.Fn.builder(f'{n}.red', 2, 1),
        )
    if op == 'fullstack':
        n = expr['nsplits']
        name = expr['name']
        return ensemble.FullStack(
            *[build(b, False) for b in expr['bases']],
            splitter=actors.St.builder(f'{name}.cv', 1, 2 * n),
            nsplits=n,
            appender=actors.Fn.builder(f'{name}.app', len(expr['bases']), 1),
            stacker=actors.Fn.builder(f'{name}.stk', n, 1),
            reducer=actors.Fn.builder(f'{name}.red', n, 1),
        )
    raise ValueError(op)


# ---- denotation -------------------------------------------------------------------------------------------------------------


def hp(d):
    return actors.hp_term(d)


def _identity(a, t, l):
    return a, t, l


class Sem:
    """Semantics of a single actor application inside the denotation; the default is training from scratch."""

    def state(self, name, h, train_on):
        """State of the stateful actor ``name`` trained on train_on=(features, labels)."""
        return T('S', name, h, BOT, train_on[0], train_on[1])

    def actor(self, kind, name, h, train_on, x):
        """Value of applying actor (kind) on x, trained (if stateful) on train_on."""
        if kind == 'st':
            return T('A', name, h, self.state(name, h, train_on), x)
        return T('F', name, h, x)


_SEM = Sem()


def denote(expr, scope=_identity, sem=_SEM):
    """D(expr composed onto scope): (a, t, l) -> (a', t', l')."""
    _actor = sem.actor
    op = expr['op']
    if op == 'seq':
        items = expr['items']
        fn = scope
        for i, item in enumerate(items):
            if item['op'] == 'seq' and i > 0:
                # A >> (B >> C): the parenthesised right side is composed on its own and then *extended* onto the left
                inner, outer = denote(item, sem=sem), fn
                fn = (lambda inner, outer: lambda a, t, l: inner(*outer(a, t, l)))(inner, outer)
            else:
                fn = denote(item, fn, sem)
        return fn
    if op == 'simple':
        name, h = expr['name'], hp(expr['hp'])

        def simple(a, t, l):
            a, t, l = scope(a, t, l)
            l1 = l
            if expr['label']:
                l1 = _actor(expr['label'], 'L:' + name, h, (t, l), l)
            a1, t1 = a, t
            if expr['mapper']:
                a1 = _actor(expr['mapper'], name, h, (t, l1), a)
                t1 = _actor(expr['mapper'], name, h, (t, l1), t)
            if expr['apply']:
                a1 = _actor(expr['apply'], name, h, (t, l1), a1)
            if expr['train']:
                t1 = _actor(expr['train'], 'T:' + name, h, (t, l1), t1)
            return a1, t1, l1

        return simple
    if op == 'mapreduce':

        def mapreduce(a, t, l):
            a, t, l = scope(a, t, l)
            ma = [_actor(m['kind'], m['name'], hp(m['hp']), (t, l), a) for m in expr['mappers']]
            mt = [_actor(m['kind'], m['name'], hp(m['hp']), (t, l), t) for m in expr['mappers']]
            return T('F', expr['name'], hp({}), *ma), T('F', expr['name'], hp({}), *mt), l

        return mapreduce
    if op == 'smapper':

        def smapper(a, t, l):
            a, t, l = scope(a, t, l)
            h = hp(expr['hp'])
            return _actor('st', expr['name'], h, (t, l), a), _actor('st', expr['name'], h, (t, l), t), l

        return smapper
    if op == 'twice':

        def twice(a, t, l):
            a1, t1, _ = scope(a, t, l)
            a2, t2, _ = scope(a, t, l)
            return T('F', expr['name'], hp({}), a1, a2), T('F', expr['name'], hp({}), t1, t2), l

        return twice
    if op == 'siamese':

        def siamese(a, t, l):
            a, t, l = scope(a, t, l)
            n, h, e = expr['name'], hp(expr['hp']), hp({})
            sigma = sem.state(n, h, (t, l))
            out = []
            for x in (a, t):
                sides = [T('A', n, h, sigma, T('F', f'{n}.{side}', e, x)) for side in ('l', 'r')]
                out.append(T('F', f'{n}.red', e, *sides))
            return out[0], out[1], l

        return siamese
    if op == 'fullstack':
        n, name, e = expr['nsplits'], expr['name'], hp({})

        def fullstack(a, t, l):
            cvs = sem.state(f'{name}.cv', e, (t, l))
            feats = T('A', f'{name}.cv', e, cvs, t)
            labs = T('A', f'{name}.cv', e, cvs, l)
            folds = []
            for i in range(n):
                tr_t, tr_l = T('O', 2 * i, feats), T('O', 2 * i, labs)
                te_t, te_l = T('O', 2 * i + 1, feats), T('O', 2 * i + 1, labs)
                a_i, t_i, l_i = scope(a, tr_t, tr_l)
                test_i = scope(te_t, tr_t, tr_l)[0]
                folds.append((a_i, t_i, l_i, test_i, te_l))
            stacks, reds = [], []
            for base in expr['bases']:
                d = denote(base, sem=sem)
                stacks.append(T('F', f'{name}.stk', e, *[d(test_i, t_i, l_i)[0] for a_i, t_i, l_i, test_i, _ in folds]))
                reds.append(T('F', f'{name}.red', e, *[d(a_i, t_i, l_i)[0] for a_i, t_i, l_i, _, _ in folds]))
            return (
                T('F', f'{name}.app', e, *reds),
                T('F', f'{name}.app', e, *stacks),
                T('F', f'{name}.stk', e, *[f[4] for f in folds]),
            )

        return fullstack
    raise ValueError(op)


# ---- classification ------------------------------------------------------------------------------------------------------------


def walk(expr):
    yield expr
    for k in ('items', 'bases'):
        for e in expr.get(k, []):
            yield from walk(e)


def classes(expr):
    out = set()
    nodes = list(walk(expr))
    nst = 0
    for e in nodes:
        if e['op'] == 'simple':
            nst += sum(1 for k in ('mapper', 'apply', 'train', 'label') if e[k] == 'st')
            if e['label']:
                out.add('label-op')
            if e['apply'] and e['train']:
                out.add('split-actors')
            if (e['apply'] and not e['train'] and not e['mapper']) or (e['train'] and not e['apply'] and not e['mapper']):
                out.add('one-mode-op')
        elif e['op'] == 'mapreduce':
            nst += sum(1 for m in e['mappers'] if m['kind'] == 'st')
            out.add('mapreduce')
        elif e['op'] == 'smapper':
            nst += 1
            out.add('custom-op')
        elif e['op'] == 'twice':
            out.add('multi-expand')
        elif e['op'] == 'siamese':
            nst += 1
            out.add('shared-group')
            out.add('custom-op')
        elif e['op'] == 'fullstack':
            nst += 1
            out.add('fullstack')
            out.add('multi-expand')
        elif e['op'] == 'seq':
            if any(i > 0 and item['op'] == 'seq' for i, item in enumerate(e['items'])):
                out.add('right-nested')
    if nst >= 2:
        out.add('stateful>=2')
    return sorted(out)


def _passes_through(e) -> bool:
    """No apply-mode actor anywhere in the (sub-)expression: its apply segment consists of bare placeholders only."""
    if e['op'] == 'seq':
        return all(_passes_through(i) for i in e['items'])
    return e['op'] == 'simple' and not e['mapper'] and not e['apply']


def _chained_placeholders(items) -> bool:
    """A scope made of apply-passthrough operators only, one of them an explicitly parenthesised group: the shape of the
    recorded finding *copy-chained-futures* (its apply path is placeholders registered with each other, nothing subscribed)."""
    return bool(items) and all(_passes_through(i) for i in items) and any(i['op'] == 'seq' and len(i['items']) >= 2 for i in items)


def copy_scope_tags(expr, whole: bool = False) -> list:
    """['scope-all-passthrough'] when some multi-expanding operator (stacking, twice) - or, with ``whole``, an evaluation
    wrapped around the complete expression - copies a scope of the recorded shape; [] otherwise. Computed from the spec only:
    it keeps the recorded finding's bucket from absorbing copy failures of any other scope (seeded change C03-5)."""
    if whole and _chained_placeholders(expr['items'] if expr['op'] == 'seq' else [expr]):
        return ['scope-all-passthrough']
    for e in walk(expr):
        if e['op'] == 'seq':
            for i, item in enumerate(e['items']):
                if item['op'] in ('fullstack', 'twice') and _chained_placeholders(e['items'][:i]):
                    return ['scope-all-passthrough']
        if e['op'] == 'fullstack' and any(_chained_placeholders(b['items'] if b['op'] == 'seq' else [b]) for b in e['bases']):
            return ['scope-all-passthrough']
    return []


def nontrivial(expr):
    c = classes(expr)
    return 'stateful>=2' in c and ('right-nested' in c or 'label-op' in c or 'multi-expand' in c)


def size(expr):
    return sum(1 for e in walk(expr) if e['op'] != 'seq')
