"""Operators used by the flow-layer checks: role-tagged symbolic actors, decorated operator classes for every
decorator combination, and operators written against the public composition API in the documented style."""
import functools

from forml import flow
from forml.pipeline import wrap

from . import actors


# role-tagged actors: an operator passes the same kwargs (name, hp) to all of its builders, the role keeps terms apart
class StT(actors.St):
    ROLE = 'T:'


class FnT(actors.Fn):
    ROLE = 'T:'


class StL(actors.St):
    ROLE = 'L:'


class FnL(actors.Fn):
    ROLE = 'L:'


_ACTOR = {
    ('apply', 'st'): actors.St,
    ('apply', 'fn'): actors.Fn,
    ('train', 'st'): StT,
    ('train', 'fn'): FnT,
    ('label', 'st'): StL,
    ('label', 'fn'): FnL,
}


@functools.lru_cache(maxsize=None)
def decorated(mapper=None, apply=None, train=None, label=None):
    """Operator class built with the public decorators; each argument is None|'st'|'fn'.

    ``mapper`` engages one actor in both modes (wrap.Operator.mapper); ``apply``/``train``/``label`` add separate
    actors through the split-fashion decorators of the already decorated class.
    """
    cls = None

    def deco(current, method, actor):
        owner = wrap.Operator if current is None else current
        return getattr(owner, method)(actor)

    if mapper:
        cls = deco(cls, 'mapper', _ACTOR[('apply', mapper)])
    if apply:
        cls = deco(cls, 'apply', _ACTOR[('apply', apply)])
    if train:
        cls = deco(cls, 'train', _ACTOR[('train', train)])
    if label:
        cls = deco(cls, 'label', _ACTOR[('label', label)])
    return cls


class StatefulMapper(flow.Operator):
    """Generic stateful mapper operator, verbatim from docs/workflow/operator.rst."""

    def __init__(self, actor_builder: flow.Builder):
        assert actor_builder.actor.is_stateful(), 'Stateful expected'
        self._actor_builder = actor_builder

    def compose(self, scope: flow.Composable) -> flow.Trunk:
        preceding: flow.Trunk = scope.expand()
        mapper_trainmode_train = flow.Worker(self._actor_builder, 1, 1)
        mapper_trainmode_apply = mapper_trainmode_train.fork()
        mapper_applymode_apply = mapper_trainmode_train.fork()
        mapper_trainmode_train.train(preceding.train.publisher, preceding.label.publisher)
        return preceding.extend(mapper_applymode_apply, mapper_trainmode_apply)


class Twice(flow.Operator):
    """Scope-wrapping operator expanding its left side twice (as ensembling does) and merging the two branches with a
    stateless 2:1 reducer in both modes; labels pass through."""

    def __init__(self, reducer: flow.Builder):
        self._reducer = reducer

    def compose(self, scope: flow.Composable) -> flow.Trunk:
        head = flow.Trunk()
        apply_reducer = flow.Worker(self._reducer, 2, 1)
        train_reducer = apply_reducer.fork()
        for idx in range(2):
            branch = scope.expand()
            branch.apply.subscribe(head.apply.publisher)
            branch.train.subscribe(head.train.publisher)
            branch.label.subscribe(head.label.publisher)
            apply_reducer[idx].subscribe(branch.apply.publisher)
            train_reducer[idx].subscribe(branch.train.publisher)
        return head.use(apply=head.apply.extend(tail=apply_reducer), train=head.train.extend(tail=train_reducer))


class Siamese(flow.Operator):
    """Two stateless branches processed by forks of one and the same stateful worker group (shared state by design), merged
    by a stateless 2:1 reducer, in both modes. Written against the public composition API."""

    def __init__(self, shared: flow.Builder, left: flow.Builder, right: flow.Builder, reducer: flow.Builder):
        self._shared = shared
        self._sides = (left, right)
        self._reducer = reducer

    def compose(self, scope: flow.Composable) -> flow.Trunk:
        preceding: flow.Trunk = scope.expand()
        trainer = flow.Worker(self._shared, 1, 1)
        trainer.train(preceding.train.publisher, preceding.label.publisher)
        apply_reducer = flow.Worker(self._reducer, 2, 1)
        train_reducer = apply_reducer.fork()
        for idx, side in enumerate(self._sides):
            apply_side = flow.Worker(side, 1, 1)
            train_side = apply_side.fork()
            apply_side[0].subscribe(preceding.apply.publisher)
            train_side[0].subscribe(preceding.train.publisher)
            apply_shared = trainer.fork()
            train_shared = trainer.fork()
            apply_shared[0].subscribe(apply_side[0])
            train_shared[0].subscribe(train_side[0])
            apply_reducer[idx].subscribe(apply_shared[0])
            train_reducer[idx].subscribe(train_shared[0])
        return preceding.use(
            apply=preceding.apply.extend(tail=apply_reducer), train=preceding.train.extend(tail=train_reducer)
        )
