"""Importable (by module name, also from spawned worker processes) building blocks of the C16 serving harness.

* ``Req``       - the one table of the harness catalogue (rid, x, delay | label)
* ``Feed``      - training rows whose label is the constant the model is to learn; serving entries go through the
                  stock ``io.Feed.Reader`` (so that a missing feature column raises the documented ``MissingError``)
* ``Delay``     - stateless pipeline actor sleeping half of the largest ``delay`` (ms) carried by the payload rows; the
                  other half is slept by the first branch of the 3-way fan-out behind it
* ``Const``     - stateful pipeline actor: learns ``K = labels[0]``; answers ``(rid, K * SCALE + x)`` per row
* ``Inventory`` - in-memory application inventory whose ``list()/get()`` sleep a configurable time
"""
import time
import typing

from forml import flow, io
from forml.io import asset, dsl
from forml.io.dsl import parser as parsmod

SCALE = 1000  # response value = K * SCALE + x, 0 <= x < SCALE


class Req(dsl.Schema):
    """Request table."""

    rid = dsl.Field(dsl.Integer())
    x = dsl.Field(dsl.Integer())
    delay = dsl.Field(dsl.Integer())
    label = dsl.Field(dsl.Integer())


FEATURES = ('rid', 'x', 'delay')


class Feed(io.Feed[str, str]):
    """Harness feed: ``Feed(const=K)`` yields one training row labelled K."""

    class Reader(io.Feed.Reader[str, str, typing.Any]):
        """Reader with a dummy parser (the statement is never pushed down anywhere)."""

        class Parser(parsmod.Visitor[str, str]):
            """Dummy parser: the target statement is the number of projected columns."""

            # pylint: disable=unnecessary-lambda-assignment
            resolve_feature = generate_alias = generate_expression = generate_join = lambda *_: ''
            generate_literal = generate_set = lambda *_: ''
            generate_reference = lambda *_: ('', '')

            def generate_element(self, origin: str, element: str) -> str:
                return f'{origin}-{element}'

            def generate_query(self, source, features, where, groupby, having, orderby, rows) -> str:
                return str(len(features))

        @classmethod
        def parser(cls, sources, features):
            return cls.Parser(sources, features)  # pylint: disable=abstract-class-instantiated

        @classmethod
        def read(cls, statement: str, **kwargs: typing.Any):
            const = int(kwargs.get('const', 0))
            width = int(statement)
            row = (0, 0, 0, const)
            return [row[-width:] if width < 4 else row]

    @property
    def sources(self):
        return {Req: 'req'}


class Delay(flow.Actor):
    """Sleep for the largest delay (ms) found in the third column; pass the rows on."""

    def apply(self, rows):  # pylint: disable=arguments-differ
        rows = [tuple(int(v) for v in r) for r in rows]
        wait = max((r[2] for r in rows), default=0)
        if wait > 0:
            time.sleep(wait / 2000.0)  # the other half is slept inside the first branch of the fan-out (Pick)
        return rows


class Pick(flow.Actor):
    """One column of the rows (three of these consume the same upstream result: a 3-way fan-out)."""

    def __init__(self, column: int):
        self._column = column

    def apply(self, rows):  # pylint: disable=arguments-differ
        if self._column == 0:
            # half of the request's processing time passes *between* the branches of the fan-out, so that requests
            # overlapping inside one model evaluate it in interleaved fashion if anything lets them (seeded change C16-8)
            wait = max((r[2] for r in rows), default=0)
            if wait > 0:
                time.sleep(wait / 2000.0)
        return [r[self._column] for r in rows]


class Zip3(flow.Actor):
    """Recombine the three columns into rows; values leaking in from another request show up as crossed rows."""

    def apply(self, rids, xs, delays):  # pylint: disable=arguments-differ
        if not len(rids) == len(xs) == len(delays):
            raise RuntimeError(f'column lengths differ: {len(rids)}/{len(xs)}/{len(delays)}')
        return list(zip(rids, xs, delays))


class Const(flow.Actor):
    """Learns a constant; the answer identifies both the payload row and the model."""

    def __init__(self):
        self._const: typing.Optional[int] = None

    def train(self, features, labels) -> None:  # pylint: disable=arguments-differ
        self._const = int(list(labels)[0])

    def apply(self, rows):  # pylint: disable=arguments-differ
        if self._const is None:
            raise RuntimeError('not trained')
        return [(int(r[0]), self._const * SCALE + int(r[1])) for r in rows]

    def get_state(self) -> bytes:
        return b'' if self._const is None else str(self._const).encode()

    def set_state(self, state: bytes) -> None:
        self._const = int(state.decode()) if state else None


class Inventory(asset.Inventory):
    """In-memory inventory; ``pause`` (seconds) is slept inside ``list`` and ``get``; calls are counted."""

    def __init__(self, descriptors: typing.Iterable = ()):
        self._content: dict = {d.name: d for d in descriptors}
        self.pause_list: float = 0.0
        self.pause_get: float = 0.0
        self.calls: dict = {'list': 0, 'get': 0}

    def list(self):
        self.calls['list'] += 1
        names = tuple(self._content)
        if self.pause_list > 0:
            time.sleep(self.pause_list)
        return names

    def get(self, application: str):
        self.calls['get'] += 1
        if self.pause_get > 0:
            time.sleep(self.pause_get)
        return self._content[application]

    def put(self, descriptor) -> None:
        self._content[descriptor.descriptor.name] = descriptor.descriptor


def slow_posix_inventory(path: str):
    """forml's own file-system inventory (descriptors are *modules* loaded on first use) with the same pause knobs."""
    from forml.provider.inventory import posix as posixinv  # pylint: disable=import-outside-toplevel

    class SlowPosix(posixinv.Inventory):
        """Posix inventory sleeping inside list/get."""

        pause_list = 0.0
        pause_get = 0.0

        def list(self):
            names = tuple(super().list())
            if self.pause_list > 0:
                time.sleep(self.pause_list)
            return names

        def get(self, application: str):
            if self.pause_get > 0:
                time.sleep(self.pause_get)
            return super().get(application)

    return SlowPosix(path)


SOURCE_MODULE = '''
from forml import project
from vf.proj import serve_actors as sa

project.setup(project.Source.query(sa.Req.select(sa.Req.rid, sa.Req.x, sa.Req.delay), sa.Req.label))
'''

PIPELINE_MODULE = '''
from forml import project
from forml.pipeline import payload, wrap
from vf.proj import serve_actors as sa

project.setup(
    wrap.Operator.mapper(sa.Delay)()
    >> payload.MapReduce(sa.Pick.builder(0), sa.Pick.builder(1), sa.Pick.builder(2), reducer=sa.Zip3.builder())
    >> wrap.Operator.apply(sa.Const)()
)
'''
