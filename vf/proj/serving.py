"""Serving harness of C16: scratch registry with trained constant models, engine sessions, batch firing, clean-up.

Nothing in here judges anything: ``Session.fire`` returns, per request of a batch, what the awaited ``Engine.apply``
produced (``('ok', rows, instance-triple, encoding-header)`` / ``('err', exception)`` / ``('timeout',)``). The oracle
lives in ``vf/checks/c16.py`` and is computed from the JSON spec and the constants of the fixed plan below.
"""
import asyncio
import csv
import io as stdio
import json
import multiprocessing
import os
import pathlib
import pickle
import tempfile
import threading
import time
import typing

import psutil

from forml import application as appmod
from forml import io
from forml import project as prj
from forml.io import asset, layout
from forml.provider.registry.filesystem import posix
from forml.runtime import _service

from vf.proj import serve_actors as sa

SCALE = sa.SCALE

# ---- fixed plan: what is published/trained, and the applications served -------------------------------------------
#: (project, release, python package) - one package name per release so that module caches never mix releases
PACKAGES = [('alpha', '1', 'c16_alpha_r1'), ('alpha', '2', 'c16_alpha_r2'), ('beta', '1', 'c16_beta_r1')]
#: trainings in order: (project, release, learned constant); generation numbers are 1.. per release in this order
TRAININGS = [('alpha', '1', 11), ('alpha', '1', 12), ('alpha', '2', 21), ('beta', '1', 31)]
#: instance triple -> learned constant (the reference the oracle uses)
CONSTANT = {'alpha/1/1': 11, 'alpha/1/2': 12, 'alpha/2/1': 21, 'beta/1/1': 31}
#: application -> (selector kind, instance triples it may select)
APPS = {
    'exp-a11': ('explicit', ['alpha/1/1']),
    'exp-a21': ('explicit', ['alpha/2/1']),
    'latest-alpha': ('latest', ['alpha/2/1']),  # newest generation of the highest release
    'latest-alpha-r1': ('latest', ['alpha/1/2']),  # newest generation of the configured release
    'latest-beta': ('latest', ['beta/1/1']),
    'ab-alpha': ('abtest', ['alpha/1/1', 'alpha/1/2']),
    'ab-mixed': ('abtest', ['beta/1/1', 'alpha/2/1', 'alpha/1/2']),
}
APP_NAMES = list(APPS)
UNKNOWN_APP = 'no-such-app'

ACCEPT = {
    'values': 'application/json; format=pandas-values',
    'records': 'application/json; format=pandas-records',
    'split': 'application/json; format=pandas-split',
    'csv': 'text/csv',
}
BAD_ENCODING = 'application/x-c16-unsupported'


def descriptors() -> list:
    """Fresh (stateful!) descriptors of the fixed applications."""
    far = 3600  # keep the Latest refresher thread asleep for the whole run
    return [
        appmod.Generic('exp-a11', appmod.Explicit('alpha', '1', 1)),
        appmod.Generic('exp-a21', appmod.Explicit('alpha', '2', 1)),
        appmod.Generic('latest-alpha', appmod.Latest('alpha', refresh=far)),
        appmod.Generic('latest-alpha-r1', appmod.Latest('alpha', '1', refresh=far)),
        appmod.Generic('latest-beta', appmod.Latest('beta', refresh=far)),
        appmod.Generic('ab-alpha', appmod.ABTest.compare('alpha', '1', 1, 0.5).against(2, target=0.5)),
        appmod.Generic(
            'ab-mixed', appmod.ABTest.compare('beta', '1', 1).over(1, project='alpha', release='2').against(2, release='1')
        ),
    ]


_FAR = 3600
DESCRIPTOR_MODULES = {
    'exp-a11': "application.Generic('exp-a11', application.Explicit('alpha', '1', 1))",
    'exp-a21': "application.Generic('exp-a21', application.Explicit('alpha', '2', 1))",
    'latest-alpha': f"application.Generic('latest-alpha', application.Latest('alpha', refresh={_FAR}))",
    'latest-alpha-r1': f"application.Generic('latest-alpha-r1', application.Latest('alpha', '1', refresh={_FAR}))",
    'latest-beta': f"application.Generic('latest-beta', application.Latest('beta', refresh={_FAR}))",
    'ab-alpha': "application.Generic('ab-alpha', application.ABTest.compare('alpha', '1', 1, 0.5).against(2, target=0.5))",
    'ab-mixed': "application.Generic('ab-mixed', application.ABTest.compare('beta', '1', 1).over(1, project='alpha', release='2').against(2, release='1'))",
}


def write_inventory(path: str) -> str:
    """The same seven applications as descriptor modules of a posix inventory (what `forml application put` leaves)."""
    root = pathlib.Path(path)
    root.mkdir(parents=True, exist_ok=True)
    for name, expr in DESCRIPTOR_MODULES.items():
        (root / f'{name}.py').write_text(f'from forml import application\n\napplication.setup({expr})\n')
    return str(root)


def _build(base: str) -> None:
    """Body of ``build_registry`` (runs in a forked child)."""
    from forml.provider.runner import dask  # pylint: disable=import-outside-toplevel
    from forml.provider.sink import null  # pylint: disable=import-outside-toplevel

    base = pathlib.Path(base)
    registry = posix.Registry(base / 'registry')
    for name, version, package in PACKAGES:
        root = base / f'{name}-{version}.4ml'
        pkgdir = root / package
        pkgdir.mkdir(parents=True)
        (pkgdir / '__init__.py').write_text('')
        (pkgdir / 'source.py').write_text(sa.SOURCE_MODULE)
        (pkgdir / 'pipeline.py').write_text(sa.PIPELINE_MODULE)
        prj.Manifest(name, version, package).write(root)
        registry.push(prj.Package(root))
    directory = asset.Directory(registry)
    for name, version, const in TRAININGS:
        instance = asset.Instance(name, version, None, directory)
        dask.Runner(instance, sa.Feed(const=const), null.Sink(), scheduler='synchronous').train()
    (base / 'READY').write_text('ok')


def build_registry(base: str) -> str:
    """Publish the packages and train the generations through the real lifecycle; returns the registry path.

    The training runs in a forked child: the dask runner imports ``dask.multiprocessing``, which installs tblib's
    pickling support process-wide (every exception becomes picklable whatever its constructor looks like). The serving
    engine proper never imports dask, so keeping it out of the serving process keeps the engine's own error transport
    between its encoder pool and the loop as it is in a real gateway process."""
    path = pathlib.Path(base) / 'registry'
    if not (pathlib.Path(base) / 'READY').exists():
        allow_children()
        child = multiprocessing.get_context('fork').Process(target=_build, args=(str(base),))
        child.start()
        child.join()
        if child.exitcode != 0 or not (pathlib.Path(base) / 'READY').exists():
            raise RuntimeError(f'registry build failed (exit {child.exitcode})')
    preheat(str(path))
    return str(path)


def preheat(registry_path: str) -> None:
    """Exercise, in the calling (main) thread, every lazily importing code path the engine will later run in its
    threads: the engine forks helper processes (manager servers, encoder pool) while its thread pool is busy, and a
    module import lock held by another thread at fork time is never released in the child. Doing the first-time imports
    up front keeps that (environmental) deadlock out of the measurements; the watchdog in ``Session.fire`` covers the
    rest."""
    from forml.io import dsl  # pylint: disable=import-outside-toplevel

    rows = [{'rid': 1, 'x': 2, 'delay': 0}]
    for encoding, body in (
        ('application/json', json.dumps(rows)),
        ('application/json', json.dumps({'instances': rows})),
        ('text/csv', 'rid,x,delay\n1,2,0\n'),
    ):
        layout.get_decoder(layout.Encoding.parse(encoding)[0]).loads(body.encode())
    schema = dsl.Schema.from_fields(dsl.Field(dsl.Integer(), name='c0'), dsl.Field(dsl.Integer(), name='c1'))
    outcome = layout.Outcome(schema, [(1, 2)])
    for accept in ACCEPT.values():
        layout.get_encoder(*layout.Encoding.parse(accept)).dumps(outcome)
    directory = asset.Directory(posix.Registry(registry_path))
    feeds = io.Importer(sa.Feed())
    for key in CONSTANT:
        project, release, generation = key.split('/')
        instance = asset.Instance(project, release, int(generation), directory)
        _ = instance.tag
        feeds.match(instance.project.source.extract.apply)
    pickle.dumps(descriptors())


# ---- request rendering / response decoding -------------------------------------------------------------------------
def rid(spec: dict, i: int, j: int) -> int:
    """Row token: unique per (batch nonce, request index, row index)."""
    return (int(spec['nonce']) * 100 + i) * 10 + j + 1


def render(spec: dict, i: int) -> tuple[str, 'layout.Request']:
    """Application name and engine request of the i-th request of the batch spec."""
    req = spec['reqs'][i]
    fault = req['fault']
    rows = []
    for j, x in enumerate(req['rows']):
        row = {'rid': rid(spec, i, j), 'x': int(x), 'delay': int(req['delay']) if j == 0 else 0}
        if fault == 'column':
            del row[req.get('drop', 'x')]
        rows.append(row)
    names = list(rows[0])
    if req.get('order'):  # the client's own feature order
        import itertools  # pylint: disable=import-outside-toplevel

        perms = list(itertools.permutations(names))
        names = list(perms[req['order'] % len(perms)])
        rows = [{n: r[n] for n in names} for r in rows]
    ctype = req['ctype']
    if ctype == 'csv':
        body = ','.join(names) + '\n' + ''.join(','.join(str(r[n]) for n in names) + '\n' for r in rows)
        encoding = 'text/csv'
    elif ctype == 'instances':
        body = json.dumps({'instances': rows})
        encoding = 'application/json'
    else:
        body = json.dumps(rows)
        encoding = 'application/json'
    if fault == 'ctype':
        encoding = BAD_ENCODING
    accept = BAD_ENCODING if fault == 'accept' else ACCEPT[req['accept']]
    app = UNKNOWN_APP if fault == 'app' else req['app']
    request = layout.Request(body.encode(), layout.Encoding.parse(encoding)[0], {}, layout.Encoding.parse(accept))
    return app, request


def decode(payload: 'layout.Payload') -> list[list[int]]:
    """Rows of a response payload (own decoder: json / csv modules only)."""
    text = payload.data.decode()
    fmt = payload.encoding.options.get('format')
    if payload.encoding.kind == 'text/csv':
        lines = list(csv.reader(stdio.StringIO(text)))
        return [[int(v) for v in r] for r in lines[1:] if r]
    doc = json.loads(text)
    if fmt == 'pandas-values':
        return [[int(v) for v in r] for r in doc]
    if fmt == 'pandas-records':
        return [[int(v) for v in r.values()] for r in doc]
    if fmt == 'pandas-split':
        return [[int(v) for v in r] for r in doc['data']]
    raise ValueError(f'unexpected response encoding {payload.encoding}')


def triple(instance: 'asset.Instance') -> str:
    """project/release/generation of a response instance."""
    gen = instance._generation  # pylint: disable=protected-access
    return f'{gen.release.project.key}/{gen.release.key}/{gen.key}'


# ---- process hygiene ---------------------------------------------------------------------------------------------------
def _children() -> set:
    try:
        return {(p.pid, p.create_time()) for p in psutil.Process().children(recursive=True)}
    except psutil.Error:
        return set()


def _kill(procs: typing.Iterable) -> int:
    killed = 0
    for pid, created in procs:
        try:
            proc = psutil.Process(pid)
            if proc.create_time() == created and proc.status() != psutil.STATUS_ZOMBIE:
                proc.kill()
                killed += 1
        except psutil.Error:
            continue
    return killed


def reap() -> None:
    """Collect zombies of killed children (best effort)."""
    try:
        multiprocessing.active_children()
        while True:
            pid, _ = os.waitpid(-1, os.WNOHANG)
            if pid == 0:
                break
    except (ChildProcessError, OSError):
        pass


def allow_children() -> None:
    """A shard of the thorough tier runs inside a daemonic multiprocessing.Pool worker, which may not start processes;
    the engine under test has to (manager, spawned pool). Dropping the flag only disables that assertion."""
    proc = multiprocessing.current_process()
    if proc.daemon:
        proc._config['daemon'] = False  # pylint: disable=protected-access


SESSIONS: list = []  # every live session of this process (closed by ``close_all`` / atexit)


class Session:
    """One engine + its loop, inventory and process bookkeeping."""

    def __init__(self, registry_path: str, procs: int, inventory: str = 'memory'):
        allow_children()
        self.procs = procs
        self.before = _children()
        self.mine: set = set()
        self.loop = asyncio.new_event_loop()
        if inventory == 'posix':
            self.invdir = tempfile.mkdtemp(prefix='inventory-', dir=os.environ.get('VERIF_SCRATCH') or None)
            self.inventory = sa.slow_posix_inventory(write_inventory(self.invdir))
        else:
            self.invdir = None
            self.inventory = sa.Inventory(descriptors())
        self.engine = _service.Engine(
            self.inventory, posix.Registry(registry_path), io.Importer(sa.Feed()), processes=procs
        )
        self.closed = False
        self.broken = False
        self.aborted = False
        self.warmed = False
        self._closer: typing.Optional[threading.Thread] = None
        SESSIONS.append(self)

    def processes(self) -> set:
        """Processes started since this session was created that no other (closing) session has claimed."""
        others = set()
        for other in SESSIONS:
            if other is not self:
                others |= other.mine
        return _children() - self.before - others

    # ---- firing ----------------------------------------------------------------------------------------------------
    def fire(self, spec: dict, timeout: float) -> list:
        """Fire all requests of the batch concurrently on the session loop; one outcome tuple per request."""
        self.inventory.pause_list = spec.get('list_ms', 0) / 1000.0
        self.inventory.pause_get = spec.get('get_ms', 0) / 1000.0
        prepared = [render(spec, i) for i in range(len(spec['reqs']))]
        staggers = [r.get('stagger', 0) / 1000.0 for r in spec['reqs']]
        engine = self.engine

        async def one(i: int):
            if staggers[i] > 0:
                await asyncio.sleep(staggers[i])
            app, request = prepared[i]
            return await engine.apply(app, request)

        async def batch():
            tasks = [asyncio.ensure_future(one(i)) for i in range(len(prepared))]
            # gather(..., return_exceptions=True) semantics with an overall deadline
            gathered = asyncio.gather(*tasks, return_exceptions=True)
            try:
                await asyncio.wait_for(asyncio.shield(gathered), timeout)
            except asyncio.TimeoutError:
                pass
            out = []
            for task in tasks:
                if not task.done():
                    task.cancel()
                    out.append(('timeout',))
                elif task.cancelled():
                    out.append(('err', asyncio.CancelledError()))
                elif task.exception() is not None:
                    out.append(('err', task.exception()))
                else:
                    out.append(('ok', task.result()))
            if not gathered.done():
                gathered.cancel()
            try:
                await gathered
            except BaseException:  # pylint: disable=broad-except
                pass
            return out

        # hard deadline: the engine calls into its model pools synchronously on the loop thread (manager proxies); if
        # such a call never returns, the soft deadline above cannot fire. The watchdog then kills the processes of this
        # engine, which unblocks the loop thread, and the whole batch counts as not completed.
        aborted = threading.Event()

        def abort():
            aborted.set()
            self.broken = True
            _kill(self.processes())

        watchdog = threading.Timer(timeout + 25.0, abort)
        watchdog.daemon = True
        watchdog.start()
        try:
            raw = self.loop.run_until_complete(batch())
        except Exception:  # pylint: disable=broad-except
            if not aborted.is_set():
                raise
            raw = []
        finally:
            watchdog.cancel()
            self.inventory.pause_list = self.inventory.pause_get = 0.0
        if aborted.is_set():
            self.aborted = True
            return [('timeout',)] * len(prepared)
        out = []
        for item in raw:
            if item[0] == 'ok':
                response = item[1]
                try:
                    rows = decode(response.payload)
                except Exception as err:  # pylint: disable=broad-except
                    out.append(('undecodable', f'{type(err).__name__}: {err}; data={response.payload.data[:200]!r}'))
                    continue
                out.append(('ok', rows, triple(response.instance), response.payload.encoding.header))
            else:
                out.append(item)
        if any(o[0] == 'timeout' for o in out):
            self.broken = True
        return out

    # ---- shutdown --------------------------------------------------------------------------------------------------
    def close(self, background: bool = False) -> None:
        """Shut the engine down; whatever process of it survives the shutdown is killed."""
        if self.closed:
            return
        self.closed = True
        self.mine = self.processes()

        def work():
            done = threading.Event()

            def shut():
                try:
                    self.engine.shutdown()
                except BaseException:  # pylint: disable=broad-except
                    pass
                done.set()

            thread = threading.Thread(target=shut, daemon=True)
            if not self.broken:
                thread.start()
                done.wait(40)
            _kill(self.mine)

        if background:
            self._closer = threading.Thread(target=work, daemon=True)
            self._closer.start()
        else:
            work()
            self._finish()

    def _finish(self) -> None:
        try:
            self.loop.run_until_complete(self.loop.shutdown_default_executor())
            self.loop.close()
        except BaseException:  # pylint: disable=broad-except
            pass
        if self in SESSIONS:
            SESSIONS.remove(self)
        reap()

    def join(self) -> None:
        if self._closer is not None:
            self._closer.join(60)
            self._closer = None
            _kill(self.mine)
            self._finish()


def close_all() -> None:
    """Close every session of this process and kill any descendant process left (called in finally / atexit)."""
    # sessions already shutting down in the background first: the process set of a session still open is computed
    # as "everything started since it was created" and must not include engines that are half way down
    for session in sorted(SESSIONS, key=lambda s: not s.closed):
        try:
            if session.closed:
                session.join()
            else:
                session.close()
        except BaseException:  # pylint: disable=broad-except
            pass
    t0 = time.time()
    left = _children()
    while left and time.time() - t0 < 3:
        time.sleep(0.1)
        left = _children()
    _kill(left)
    reap()
