"""Real-lifecycle harness: generated project packages, symbolic feed/sink, steps executed in forked children.

A *project* is a directory package whose component modules read ``spec.json`` next to them and build the pipeline from
:mod:`vf.sym.opgen`. A *step* (publish / train / apply / perftrack / serve) is executed by ``run_step`` in a freshly
forked child of a parent that has imported forml but never touched the registry, so every step sees fresh caches and a
fresh graph expansion (node ids regenerated) - observationally a fresh process.
"""
import json
import os
import pickle
import sys
import textwrap
import traceback

from forml import io, project
from forml.io import asset
from forml.io._input import extract
from forml.provider.registry.filesystem import posix
from forml.provider.runner import dask as dask_runner
from forml.provider.runner import pyfunc

from vf.sym import actors, term

PACKAGE_TEMPLATE = {
    '__init__.py': '',
    'source.py': '''
        from forml import project
        from forml.io import dsl


        class VfTable(dsl.Schema):
            """Stand-in schema: the harness feed ignores the statement and serves symbolic payloads."""

            x = dsl.Field(dsl.Integer())
            y = dsl.Field(dsl.Integer())


        project.setup(project.Source.query(VfTable.select(VfTable.x), VfTable.y))
        ''',
    'pipeline.py': '''
        import json
        import os

        from forml import project
        from vf.sym import opgen

        with open(os.path.join(os.path.dirname(__file__), 'spec.json')) as fh:
            SPEC = json.load(fh)

        project.setup(opgen.build(SPEC['expr']))
        ''',
    'evaluation.py': '''
        from forml import evaluation, project
        from vf.proj import lifecycle
        from vf.sym import actors

        project.setup(
            project.Evaluation(
                evaluation.Function(lifecycle.metric_fn, lifecycle.reduce_fn),
                evaluation.HoldOut(splitter=actors.St.builder('evalcv', 1, 2)),
            )
        )
        ''',
}


def metric_fn(true, pred):
    return term.T('metric', true, pred)


def reduce_fn(*values):
    return term.T('reduce', *values)


def write_package(root: str, name: str, version: str, spec: dict) -> str:
    """Create the directory package; returns its path."""
    pkg = f'vfproj_{name}'
    base = os.path.join(root, f'{name}-{version}')
    os.makedirs(os.path.join(base, pkg))
    for fname, body in PACKAGE_TEMPLATE.items():
        with open(os.path.join(base, pkg, fname), 'w') as fh:
            fh.write(textwrap.dedent(body))
    with open(os.path.join(base, pkg, 'spec.json'), 'w') as fh:
        json.dump(spec, fh)
    project.Manifest(name, version, pkg).write(base)
    return base


class SymFeed(io.Feed):
    """Feed serving symbolic payloads: the source actors are uninterpreted symbols tagged with the run nonce."""

    def __init__(self, nonce: int = 0):
        super().__init__()
        self._nonce = nonce

    def load(self, extract_, lower=None, upper=None):  # pylint: disable=arguments-renamed
        return extract.Operator(
            actors.Fn.builder('src_a', 0, 1, nonce=self._nonce),
            actors.Fn.builder('src_t', 0, 1, nonce=self._nonce),
            actors.Fn.builder('src_x', 1, 2),
        )

    @property
    def sources(self):
        return {}


class Recorder:
    """Picklable consumer appending every received payload to a file."""

    def __init__(self, path: str):
        self._path = path

    def __call__(self, data):
        with open(self._path, 'ab') as fh:
            blob = pickle.dumps(data, protocol=4)
            fh.write(len(blob).to_bytes(4, 'big') + blob)
        return data


class SymSink(io.Sink):
    """Sink recording the received terms."""

    def __init__(self, path: str):
        super().__init__(path=path)

    @classmethod
    def consumer(cls, schema, **kwargs):
        return Recorder(kwargs['path'])


def read_records(path: str) -> list:
    return actors.read_log(path)


def source_terms(nonce: int):
    """(a, t, l) as produced by SymFeed for a batch run."""
    e = actors.hp_term({})
    n = actors.hp_term({'nonce': nonce})
    x = term.T('F', 'src_x', e, term.T('F', 'src_t', n))
    return term.T('F', 'src_a', n), term.T('O', 0, x), term.T('O', 1, x)


def serve_input(nonce: int, entry):
    return term.T('F', 'src_a', actors.hp_term({'nonce': nonce}), entry)


# ---- steps ------------------------------------------------------------------------------------------------------------------


def _instance(registry_path, name, release, generation):
    directory = asset.Directory(posix.Registry(registry_path))
    return asset.Instance(name, release, generation, directory)


def do_step(step: dict, workdir: str) -> dict:
    """Executed inside the child. Returns a picklable result."""
    registry_path = os.path.join(workdir, 'registry')
    out = os.path.join(workdir, f"out-{step['id']}")
    op = step['op']
    name = step.get('project', 'p')
    if op == 'publish':
        directory = asset.Directory(posix.Registry(registry_path))
        directory.get(name).put(project.Package(step['package']))
        return {'ok': True}
    if step.get('nogc'):
        import gc

        gc.disable()
    instance = _instance(registry_path, name, step.get('release'), step.get('generation'))
    feed = SymFeed(step.get('nonce', 0))
    result = {'ok': True}
    if op in ('train', 'apply', 'perftrack', 'traintest'):
        # ``Launcher.train_call`` (the CLI's ``forml model train``) builds its runner without any sink
        sink = None if (op == 'train' and step.get('nosink')) else SymSink(out)
        runner = dask_runner.Runner(instance, feed, sink, scheduler='synchronous')
        getattr(runner, {'train': 'train', 'apply': 'apply', 'perftrack': 'eval_perftrack', 'traintest': 'eval_traintest'}[op])()
        result['records'] = read_records(out) if sink is not None else []
    elif op == 'serve':
        runner = pyfunc.Runner(instance, feed, SymSink(out))
        result['returned'] = [runner.call(entry) for entry in step['entries']]
        result['records'] = read_records(out)
    else:
        raise ValueError(op)
    # what the registry now says about the instance that was used / produced
    fresh = asset.Directory(posix.Registry(registry_path)).get(name)
    releases = {}
    for rel in fresh.list():
        try:
            gens = [int(g) for g in fresh.get(rel).list()]
        except Exception:  # pylint: disable=broad-except
            gens = []
        releases[str(rel)] = gens
    result['releases'] = releases
    if op == 'train':
        rel = fresh.get(step.get('release'))
        gen = rel.get(None)
        result['generation'] = int(gen.key)
        result['nstates'] = len(gen.tag.states)
    return result


def run_step(step: dict, workdir: str, chain: list | None = None) -> list:
    """Fork, run the step (and the optional further steps chained in the same child), return the list of results.

    A result is {'ok': True, ...} or {'ok': False, 'error': type name, 'frame': innermost forml frame, 'message': str}."""
    steps = [step] + list(chain or [])
    res_path = os.path.join(workdir, f"result-{step['id']}.pkl")
    pid = os.fork()
    if pid == 0:
        code = 0
        try:
            results = []
            for s in steps:
                try:
                    results.append(do_step(s, workdir))
                except BaseException as exc:  # pylint: disable=broad-except
                    from vf.core.ctx import forml_frame

                    results.append(
                        {
                            'ok': False,
                            'error': type(exc).__name__,
                            'frame': forml_frame(exc),
                            'message': str(exc)[:500],
                            'trace': traceback.format_exc()[-1500:],
                        }
                    )
            with open(res_path, 'wb') as fh:
                pickle.dump(results, fh, protocol=4)
        except BaseException:  # pylint: disable=broad-except
            traceback.print_exc()
            code = 3
        finally:
            sys.stdout.flush()
            sys.stderr.flush()
            os._exit(code)
    _, status = os.waitpid(pid, 0)
    if status != 0 or not os.path.exists(res_path):
        return [{'ok': False, 'error': 'ChildDied', 'frame': 'harness', 'message': f'status {status}'}]
    with open(res_path, 'rb') as fh:
        return pickle.load(fh)
