"""Run a function in a forked child and get its JSON-able result back through a pipe.

The child never returns into the caller's stack: it ``os._exit``s. An exception escaping ``fn`` in the child travels back
as ``{'__child_error__': '<Type>: <message>', 'traceback': ...}`` (the caller decides whether that is a harness error).
"""
import json
import os
import select
import signal
import sys
import time
import traceback


class ChildFailure(Exception):
    """The forked child died without delivering a result (harness error)."""


def forked(fn, *args, timeout: float = 60.0):
    rfd, wfd = os.pipe()
    sys.stdout.flush()
    sys.stderr.flush()
    pid = os.fork()
    if pid == 0:  # ---- child
        code = 0
        try:
            os.close(rfd)
            try:
                result = fn(*args)
            except BaseException as exc:  # pylint: disable=broad-except
                result = {'__child_error__': f'{type(exc).__name__}: {exc}', 'traceback': traceback.format_exc()[-4000:]}
            data = json.dumps(result, default=repr).encode()
            view = memoryview(data)
            while view:
                n = os.write(wfd, view)
                view = view[n:]
            os.close(wfd)
        except BaseException:  # pylint: disable=broad-except
            code = 3
        finally:
            os._exit(code)  # pylint: disable=protected-access
    # ---- parent
    os.close(wfd)
    chunks = []
    deadline = time.monotonic() + timeout
    try:
        while True:
            left = deadline - time.monotonic()
            if left <= 0:
                os.kill(pid, signal.SIGKILL)
                os.waitpid(pid, 0)
                raise ChildFailure(f'forked child timed out after {timeout}s')
            ready, _, _ = select.select([rfd], [], [], left)
            if not ready:
                continue
            chunk = os.read(rfd, 1 << 16)
            if not chunk:
                break
            chunks.append(chunk)
    finally:
        os.close(rfd)
    _, status = os.waitpid(pid, 0)
    if status != 0 or not chunks:
        raise ChildFailure(f'forked child exited with status {status} and {sum(map(len, chunks))} result bytes')
    return json.loads(b''.join(chunks))
