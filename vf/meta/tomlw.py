"""Tiny TOML writer for generated configuration layers (dict / list / str / int / float / bool trees).

Two layouts: ``inline`` (every table inline) and ``sections`` (``[a.b]`` headers for nested tables). The caller is expected
to self-check ``tomli.loads(dumps(doc)) == doc`` - the writer is harness code, not a subject of any property.
"""
import json
import math
import re

_BARE = re.compile(r'^[A-Za-z0-9_-]+$')


def key(k: str) -> str:
    return k if _BARE.match(k) else json.dumps(k, ensure_ascii=False)


def value(v) -> str:
    if isinstance(v, bool):
        return 'true' if v else 'false'
    if isinstance(v, int):
        return str(v)
    if isinstance(v, float):
        if math.isnan(v):
            return 'nan'
        if math.isinf(v):
            return 'inf' if v > 0 else '-inf'
        text = repr(v)
        return text if any(c in text for c in '.e') else text + '.0'
    if isinstance(v, str):
        return json.dumps(v, ensure_ascii=False)
    if isinstance(v, (list, tuple)):
        return '[' + ', '.join(value(x) for x in v) + ']'
    if isinstance(v, dict):
        return '{' + ', '.join(f'{key(k)} = {value(x)}' for k, x in v.items()) + '}'
    raise TypeError(f'not TOML-able: {v!r}')


def dumps(doc: dict, layout: str = 'sections') -> str:
    lines = []
    if layout == 'inline':
        for k, v in doc.items():
            lines.append(f'{key(k)} = {value(v)}')
        return '\n'.join(lines) + '\n'

    def table(path, tbl, header):
        subs = [(k, v) for k, v in tbl.items() if isinstance(v, dict)]
        plain = [(k, v) for k, v in tbl.items() if not isinstance(v, dict)]
        if header and (plain or not subs):
            lines.append('[' + '.'.join(key(p) for p in path) + ']')
        for k, v in plain:
            lines.append(f'{key(k)} = {value(v)}')
        for k, v in subs:
            table(path + [k], v, True)

    table([], doc, False)
    return '\n'.join(lines) + '\n'
