"""Helpers shared by the C18 / C20 checks (fork isolation, scratch directories, tiny TOML writer)."""
