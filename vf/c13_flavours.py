"""Actor flavours for C13, written in the style of docs/workflow/actor.rst (importable module: plain pickle needs it).

Every flavour has the hyper-parameters ``a`` and ``b`` (ints, default 0); the native and the mapped flavours also take
one positional constructor argument ``seed`` that is *not* a hyper-parameter. Behaviour is a deterministic function of
(seed, current hyper-parameters, training history, input):

    apply(x)  ==  (TAG, seed, (a, b), history, x)        history = tuple of ((a, b) at train time, features, labels)

so that the reference model in vf/checks/c13.py can predict every output exactly. An untrained stateful actor raises
RuntimeError on apply.
"""
import functools
import json
import typing

from forml import flow
from forml.pipeline import wrap


def _tuplify(obj):
    return tuple(_tuplify(o) for o in obj) if isinstance(obj, (list, tuple)) else obj


# ---- native ------------------------------------------------------------------------------------------------------------
class NativeStateless(flow.Actor):
    """Native stateless actor."""

    TAG = 'native-stateless'

    def __init__(self, seed: int = 0, *, a: int = 0, b: int = 0):
        self._seed = seed
        self._a = a
        self._b = b

    def apply(self, x):
        return self.TAG, self._seed, (self._a, self._b), (), x

    def get_params(self) -> typing.Mapping[str, typing.Any]:
        return {'a': self._a, 'b': self._b}

    def set_params(self, a: typing.Optional[int] = None, b: typing.Optional[int] = None) -> None:
        if a is not None:
            self._a = a
        if b is not None:
            self._b = b


class NativeStateful(flow.Actor):
    """Native stateful actor using the default get_state/set_state implementations."""

    TAG = 'native-stateful'

    def __init__(self, seed: int = 0, *, a: int = 0, b: int = 0):
        self._seed = seed
        self._a = a
        self._b = b
        self._history: typing.Optional[tuple] = None

    def train(self, features, labels, /) -> None:
        self._history = (self._history or ()) + (((self._a, self._b), features, labels),)

    def apply(self, x):
        if self._history is None:
            raise RuntimeError('Not trained')
        return self.TAG, self._seed, (self._a, self._b), self._history, x

    def get_params(self) -> typing.Mapping[str, typing.Any]:
        return {'a': self._a, 'b': self._b}

    def set_params(self, a: typing.Optional[int] = None, b: typing.Optional[int] = None) -> None:
        if a is not None:
            self._a = a
        if b is not None:
            self._b = b


class NativeCustomState(NativeStateful):
    """Native stateful actor with its own state encoding (the API allows any bytes accepted by the companion setter)."""

    TAG = 'native-custom-state'

    def get_state(self) -> bytes:
        if self._history is None:
            return b''
        return json.dumps(self._history).encode()

    def set_state(self, state: bytes) -> None:
        if state:
            self._history = _tuplify(json.loads(state.decode()))


class NativeGreedyState(NativeStateful):
    """Native stateful actor whose own state encoding also carries the hyper-parameters it was trained with, and whose
    setter restores them: precedence of the builder's parameters is then up to forml's state preset (SetState)."""

    TAG = 'native-greedy-state'

    def get_state(self) -> bytes:
        if self._history is None:
            return b''
        return json.dumps({'params': [self._a, self._b], 'history': self._history}).encode()

    def set_state(self, state: bytes) -> None:
        if state:
            content = json.loads(state.decode())
            self._a, self._b = content['params']
            self._history = _tuplify(content['history'])


# ---- decorated functions ---------------------------------------------------------------------------------------------------
@wrap.Actor.apply
def FnStateless(x, *, a: int = 0, b: int = 0):
    """Stateless function actor."""
    return 'fn-stateless', 0, (a, b), (), x


@wrap.Actor.train
def FnStateful(state, features, labels, *, a: int = 0, b: int = 0):
    """Train part of the stateful function actor."""
    return (state or ()) + (((a, b), features, labels),)


@FnStateful.apply
def FnStateful(state, x, *, a: int = 0, b: int = 0):  # pylint: disable=function-redefined
    """Apply part of the stateful function actor."""
    return 'fn-stateful', 0, (a, b), state, x


@wrap.Actor.train
def FnSparse(state, features, labels, *, a: int = 0, b: int = 0):
    """Stateful function actor whose learned state may be *falsy* although trained: steps without labels add nothing,
    so training on label-less batches only yields the empty history ``()`` (which is not the untrained ``None``)."""
    return (state or ()) + ((((a, b), features, labels),) if labels else ())


@FnSparse.apply
def FnSparse(state, x, *, a: int = 0, b: int = 0):  # pylint: disable=function-redefined
    """Apply part of the sparse-history function actor."""
    return 'fn-sparse-state', 0, (a, b), state, x


@wrap.Actor.train
def FnInplace(state, features, labels, *, a: int = 0, b: int = 0):
    """Stateful function actor that updates its (mutable) state *in place* and returns the same object - the style of
    forml's own tests (``state['n'] += 1; return state``) and of any incremental learner with ``partial_fit``."""
    if state is None:
        state = []
    state.append(((a, b), features, labels))
    return state


@FnInplace.apply
def FnInplace(state, x, *, a: int = 0, b: int = 0):  # pylint: disable=function-redefined
    """Apply part of the in-place function actor."""
    return 'fn-inplace-state', 0, (a, b), tuple(state), x


# ---- mapped third-party style classes --------------------------------------------------------------------------------------
class Estimator:
    """Third-party style estimator (fit/predict/get_params/set_params)."""

    TAG = 'mapped-names'

    def __init__(self, seed: int = 0, *, a: int = 0, b: int = 0):
        self.seed = seed
        self.a = a
        self.b = b
        self.history_ = None

    def fit(self, features, labels) -> None:
        self.history_ = (self.history_ or ()) + (((self.a, self.b), features, labels),)

    def predict(self, x):
        if self.history_ is None:
            raise RuntimeError('Not fitted')
        return self.TAG, self.seed, (self.a, self.b), self.history_, x

    def get_params(self) -> typing.Mapping[str, typing.Any]:
        return {'a': self.a, 'b': self.b}

    def set_params(self, **params) -> None:
        for key, value in params.items():
            if key not in {'a', 'b'}:
                raise ValueError(f'Invalid parameter {key}')
            setattr(self, key, value)


MappedNames = wrap.Actor.type(Estimator, train='fit', apply='predict')
"""Documented style: wrapper bound to a new name (the class itself is not importable under its own qualified name)."""


class Learner:
    """Third-party style class with a foreign API, mapped through callables."""

    TAG = 'mapped-callables'

    def __init__(self, seed: int = 0, *, a: int = 0, b: int = 0):
        self.seed = seed
        self.hyper = {'a': a, 'b': b}
        self.memory = None

    def learn(self, features, labels) -> None:
        self.memory = (self.memory or ()) + (((self.hyper['a'], self.hyper['b']), features, labels),)

    def run(self, x):
        if self.memory is None:
            raise RuntimeError('Not learned')
        return self.TAG, self.seed, (self.hyper['a'], self.hyper['b']), self.memory, x


def _learner_train(learner, features, labels):
    return learner.learn(features, labels)


def _learner_apply(learner, x):
    return learner.run(x)


def _learner_get_params(learner):
    return dict(learner.hyper)


def _learner_set_params(learner, **params):
    learner.hyper.update(params)


MappedCallables = wrap.Actor.type(
    Learner, train=_learner_train, apply=_learner_apply, get_params=_learner_get_params, set_params=_learner_set_params
)


@wrap.Actor.type(apply='transform')
class MappedStateless:
    """Decorator style mapping of a class without any training method: a stateless actor importable by its name."""

    TAG = 'mapped-stateless'

    def __init__(self, seed: int = 0, *, a: int = 0, b: int = 0):
        self.seed = seed
        self.a = a
        self.b = b

    def transform(self, x):
        return self.TAG, self.seed, (self.a, self.b), (), x

    def get_params(self) -> typing.Mapping[str, typing.Any]:
        return {'a': self.a, 'b': self.b}

    def set_params(self, **params) -> None:
        for key, value in params.items():
            setattr(self, key, value)


@wrap.Actor.type(train='fit', apply='predict')
class MappedDecorated(Estimator):
    """Decorator style mapping with method names: importable by its qualified name."""

    TAG = 'mapped-decorated'


@wrap.Actor.type(train='fit', apply='predict')
class MappedRequiredArg(Estimator):
    """Like MappedDecorated, but the positional constructor argument has no default (e.g. sklearn's ColumnTransformer)."""

    TAG = 'mapped-required-arg'

    def __init__(self, seed: int, *, a: int = 0, b: int = 0):
        super().__init__(seed, a=a, b=b)


class traced:  # pylint: disable=invalid-name
    """Class-based method decorator (a descriptor object, as used for tracing / validation / caching decorators written
    as classes): on the class the attribute is this callable object, not a plain function."""

    def __init__(self, method):
        self.method = method

    def __get__(self, instance, owner=None):
        return self if instance is None else functools.partial(self.method, instance)

    def __call__(self, *args, **kwargs):
        return self.method(*args, **kwargs)


@wrap.Actor.type(train='fit', apply='predict')
class MappedTracedMethod(Estimator):
    """Method-name mapping onto a class whose training method is wrapped by a class-based decorator."""

    TAG = 'mapped-traced-method'

    @traced
    def fit(self, features, labels) -> None:
        self.history_ = (self.history_ or ()) + (((self.a, self.b), features, labels),)


@wrap.Actor.type
class MappedBare:
    """Documented parameterless use of the decorator: the class already speaks the actor method names."""

    TAG = 'mapped-bare'

    def __init__(self, seed: int = 0, *, a: int = 0, b: int = 0):
        self.seed = seed
        self.a = a
        self.b = b
        self.history_ = None

    def train(self, features, labels) -> None:
        self.history_ = (self.history_ or ()) + (((self.a, self.b), features, labels),)

    def apply(self, x):
        if self.history_ is None:
            raise RuntimeError('Not fitted')
        return self.TAG, self.seed, (self.a, self.b), self.history_, x

    def get_params(self) -> typing.Mapping[str, typing.Any]:
        return {'a': self.a, 'b': self.b}

    def set_params(self, **params) -> None:
        for key, value in params.items():
            if key not in {'a', 'b'}:
                raise ValueError(f'Invalid parameter {key}')
            setattr(self, key, value)


def _flavour(cls, stateful, seeded=True, importable=True, defaults=True, required=False, greedy=False):
    return {
        'cls': cls,  # the actor class
        'stateful': stateful,  # has a training implementation
        'seeded': seeded,  # takes the positional (non hyper-parameter) constructor argument
        'importable': importable,  # reachable under its qualified name (plain pickle can reference it)
        'defaults': defaults,  # get_params reports defaults of parameters not supplied explicitly
        'required': required,  # the positional constructor argument has no default
        'greedy': greedy,  # its own set_state overwrites the hyper-parameters (state import only via SetState)
    }


FLAVOURS = {
    'native-stateless': _flavour(NativeStateless, False),
    'native-stateful': _flavour(NativeStateful, True),
    'native-custom-state': _flavour(NativeCustomState, True),
    'native-greedy-state': _flavour(NativeGreedyState, True, greedy=True),
    'fn-stateless': _flavour(FnStateless, False, seeded=False, defaults=False),
    'fn-stateful': _flavour(FnStateful, True, seeded=False, defaults=False),
    'fn-sparse-state': _flavour(FnSparse, True, seeded=False, defaults=False),
    'fn-inplace-state': _flavour(FnInplace, True, seeded=False, defaults=False),
    'mapped-names': _flavour(MappedNames, True, importable=False),
    'mapped-callables': _flavour(MappedCallables, True, importable=False),
    'mapped-stateless': _flavour(MappedStateless, False),
    'mapped-decorated': _flavour(MappedDecorated, True),
    'mapped-bare': _flavour(MappedBare, True),
    'mapped-traced-method': _flavour(MappedTracedMethod, True),
    'mapped-required-arg': _flavour(MappedRequiredArg, True, required=True),
}
