"""CLI: python -m vf.run <ID> <quick|thorough> | <ID> --replay <file> | <ID> --shrink <key>"""
import importlib
import json
import os
import sys
import time
import traceback

from vf.core import ctx as ctxmod
from vf.core import hyp


def load_known(root: str, pid: str):
    doc = {'findings': [], 'fixed': []}
    for path in (os.path.join(root, 'known_findings.json'), os.path.join(root, 'known_findings.d', f'{pid}.json')):
        if os.path.exists(path):
            with open(path) as fh:
                part = json.load(fh)
            doc['findings'] += part.get('findings', [])
            doc['fixed'] += part.get('fixed', [])
    known = [f for f in doc.get('findings', []) if f['property'] == pid]
    fixed = [f for f in doc.get('fixed', []) if f['property'] == pid]
    return known, fixed


def default_explore(mod, ctx, shard: int, nshards: int) -> None:
    for i, camp in enumerate(mod.campaigns(ctx)):
        n = camp.quick if ctx.tier == 'quick' else camp.thorough
        if n <= 0:
            continue
        hyp.run_campaign(ctx, camp, n, ctx.seed * 1000 + shard * 17 + i)
    extra = getattr(mod, 'enumerate_extra', None)
    if extra is not None:
        extra(ctx, shard, nshards)


def exec_replay(mod, ctx, doc) -> None:
    camps = {c.name: c for c in mod.campaigns(ctx)}
    name = doc.get('campaign', 'main')
    ctx.campaign = name
    if name in camps:
        camps[name].fn(ctx, doc['spec'])
    else:
        mod.replay(ctx, name, doc['spec'])


def main(argv) -> int:
    pid = argv[0].upper()
    mode = argv[1]
    seed = int(os.environ.get('VERIF_SEED', '1') or 1)
    root = os.environ.get('VERIF_ROOT', '/verif')
    mod = importlib.import_module(f'vf.checks.{pid.lower()}')
    if not hasattr(mod, 'explore'):
        mod.explore = lambda c, s, n: default_explore(mod, c, s, n)
    tier = mode if mode in ('quick', 'thorough') else 'quick'
    ctx = ctxmod.Ctx(pid, tier, seed, getattr(mod, 'LEVEL', 'exploration'))
    ctx.rule = mod.RULE
    ctx.assumptions = list(getattr(mod, 'ASSUMPTIONS', []))
    known, fixed = load_known(root, pid)
    known_keys = {k: f for f in known for k in f['keys']}

    if mode == '--replay':
        with open(argv[2]) as fh:
            doc = json.load(fh)
        exec_replay(mod, ctx, doc)
        bad = 0
        for key, fails in ctx.buckets().items():
            if key in known_keys:
                print(f"KNOWN-FINDING: property={pid} {known_keys[key]['what']}")
            else:
                bad += 1
                print(f'VIOLATION property={pid} replay={os.path.abspath(argv[2])}')
                print(f'  bucket: {key}\n  detail: {fails[0].detail}')
        if not ctx.failures:
            print(f'replay did not reproduce any failure ({ctx.evaluations} case(s) executed)')
        return 1 if bad else 0

    if mode == '--shrink':
        key = argv[2]
        for i, camp in enumerate(mod.campaigns(ctx)):
            n = camp.quick
            spec = hyp.shrink(ctx, camp, key, max(n, 200), seed * 1000 + i, float(os.environ.get('VERIF_SHRINK_S', 120)))
            if spec is not None:
                print(json.dumps({'property': pid, 'campaign': camp.name, 'key': key, 'spec': spec}, indent=1, default=repr))
                return 0
        print('bucket not found')
        return 1

    # ---- 1. committed replays first -----------------------------------------------------------------------------
    reproduced: dict[str, bool] = {}
    for f in known:
        ok = False
        for rp in f.get('replays', []):
            sub = ctxmod.Ctx(pid, tier, seed, ctx.level)
            with open(os.path.join(root, rp)) as fh:
                exec_replay(mod, sub, json.load(fh))
            keys = {x.key for x in sub.failures}
            if keys & set(f['keys']):
                ok = True
            for x in sub.failures:  # anything else the replay shows goes through the normal triage
                if x.key not in f['keys']:
                    ctx.failures.append(x)
                    ctx._fail_count[x.key] = ctx._fail_count.get(x.key, 0) + 1
        reproduced[f['id']] = ok
    for f in fixed:
        for rp in f.get('replays', []):
            with open(os.path.join(root, rp)) as fh:
                exec_replay(mod, ctx, json.load(fh))
    ctx.extra['replays_executed'] = ctx.evaluations
    replay_evals = ctx.evaluations

    # ---- 2. generated search ------------------------------------------------------------------------------------
    nshards = getattr(mod, 'SHARDS_THOROUGH', 16) if tier == 'thorough' else getattr(mod, 'SHARDS_QUICK', 1)
    nshards = int(os.environ.get('VERIF_SHARDS', nshards))
    hyp.shard(ctx, mod, nshards)
    ctx.extra['shards'] = nshards
    plan = getattr(mod, 'FUZZ', None)
    if plan and (tier == 'thorough' or os.environ.get('VERIF_FUZZ') == '1'):
        from vf.core import fuzz

        scale = float(os.environ.get('VERIF_FUZZ_SCALE', '1'))
        fuzz.run_all(ctx, mod, [(c, max(int(n * scale), 100), inc) for c, n, inc in plan])

    # ---- 3. triage ----------------------------------------------------------------------------------------------
    buckets = ctx.buckets()
    counts = ctx.bucket_counts()
    camps = {c.name: c for c in mod.campaigns(ctx)}
    violations = 0
    bucket_info = {}
    seen_known = set()
    for key, fails in sorted(buckets.items()):
        if key in known_keys:
            seen_known.add(known_keys[key]['id'])
            bucket_info[key] = {'count': counts.get(key, len(fails)), 'status': 'known:' + known_keys[key]['id']}
            continue
        violations += 1
        best = fails[0]
        spec = best.spec
        camp = camps.get(best.campaign)
        if camp is not None and camp.shrinkable and os.environ.get('VERIF_NOSHRINK') != '1':
            try:
                n = camp.quick if tier == 'quick' else camp.thorough
                small = hyp.shrink(ctx, camp, key, max(n, 100), seed * 1000 + list(camps).index(camp.name), 45.0)
                if small is not None and len(ctxmod.jdump(small)) < len(ctxmod.jdump(spec)):
                    spec = small
            except Exception:  # shrinking is best effort
                traceback.print_exc()
        rdir = os.path.join(root, 'replays')
        os.makedirs(rdir, exist_ok=True)
        rpath = os.path.join(rdir, f'{pid}-{ctxmod.digest(key)}.json')
        with open(rpath, 'w') as fh:
            json.dump(
                {'property': pid, 'campaign': best.campaign, 'key': key, 'detail': best.detail, 'spec': spec},
                fh,
                indent=1,
                default=repr,
            )
        bucket_info[key] = {'count': counts.get(key, len(fails)), 'status': 'violation', 'replay': rpath, 'detail': best.detail[:500]}
        print(f'VIOLATION property={pid} replay={rpath}')
        print(f'  bucket: {key}\n  detail: {best.detail[:600]}')
    reported = []
    for f in known:
        if reproduced.get(f['id']) or f['id'] in seen_known:
            print(f"KNOWN-FINDING: property={pid} {f['what']}")
            reported.append(f['id'])

    # ---- 4. generator health -------------------------------------------------------------------------------------
    rc = 1 if violations else 0
    floors = getattr(mod, 'FLOORS', {})
    total = max(ctx.evaluations - replay_evals, 1)
    for cls, frac in floors.items():
        have = ctx.classes.get(cls, 0) / total
        if have < frac:
            print(f'HARNESS: generator degenerate: class {cls!r} is {have:.3f} of cases, floor {frac}', file=sys.stderr)
            rc = rc or 2
    if len(ctx.nontrivial) < 2:
        print('HARNESS: fewer than 2 distinct non-trivial cases', file=sys.stderr)
        rc = rc or 2
    path = ctx.write_evidence(violations, reported, bucket_info)
    print(
        f'{pid} {tier} seed={seed}: {ctx.evaluations} cases, {len(ctx.nontrivial)} distinct non-trivial, '
        f'{violations} violation bucket(s), {len(reported)} known finding(s), {time.time() - ctx.t0:.1f}s -> {path}'
    )
    return rc


if __name__ == '__main__':
    try:
        sys.exit(main(sys.argv[1:]))
    except SystemExit:
        raise
    except BaseException:  # harness error, never a VIOLATION
        traceback.print_exc()
        sys.exit(2)
