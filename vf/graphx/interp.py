"""Interpreter of abstract construction histories for C11.

A history is a JSON list of abstract ops with integer arguments taken modulo the current universe. ``resolve`` turns an
abstract op into a concrete one (node/segment/trunk indexes), ``expect`` computes from the abstract model alone what the
property demands of that call, ``Real`` executes it through the public forml.flow API.
"""
import gc

from forml import flow
from forml.flow._graph import port as portmod  # port *types* only: to read Subscription.port values

from . import actors
from .model import L, Model, T


# ---- resolution of abstract ops -----------------------------------------------------------------------------------------
def _pick(seq, k):
    return seq[k % len(seq)] if seq else None


def _ref(m: Model, ref, need_in1: bool):
    """Resolve a node-or-segment reference ['n', k] | ['s', k] | None -> ('n', node) | ('s', seg index) | None | False."""
    if ref is None:
        return None
    kind, k = ref
    if kind == 's':
        if not m.segments:
            return False
        idx = k % len(m.segments)
        head = m.segments[idx][0]
        if need_in1 and m.nodes[head]['i'] != 1:
            return False
        return ('s', idx)
    cands = [i for i, n in enumerate(m.nodes) if (n['i'] == 1 if need_in1 else n['i'] <= 1)]
    if not cands:
        return False
    return ('n', _pick(cands, k))


def resolve(m: Model, op, history):
    """Concrete op or None when the universe offers no valid argument (the call is then not made)."""
    kind = op['op']
    if kind == 'retry':
        done = [h for h in history if h is not None]
        return dict(_pick(done, op['of'])) if done else None
    if kind == 'worker':
        i, o = op['i'] % 3, op['o'] % 3
        if i == 0 and o == 0:
            o = 1
        return {'op': 'worker', 'st': bool(op['st']), 'i': i, 'o': o}
    if kind == 'future':
        return {'op': 'future', 'sz': 1 + op['sz'] % 2}
    if kind == 'fork':
        w = _pick(m.workers(), op['w'])
        return None if w is None else {'op': 'fork', 'w': w}
    subs = [i for i, n in enumerate(m.nodes) if n['i'] > 0]
    pubs = [i for i, n in enumerate(m.nodes) if n['o'] > 0]
    if kind == 'subscribe':

        def narrow(cands, which):  # optional restriction of the argument to workers / placeholders
            sel = [i for i in cands if m.nodes[i]['k'] == which]
            return sel or cands

        sub = _pick(narrow(subs, op.get('sk', 'a')), op['sub'])
        pub = _pick(narrow(pubs, op.get('pk', 'a')), op['pub'])
        if sub is None or pub is None:
            return None
        return {
            'op': 'subscribe',
            'sub': sub,
            'sport': op['sport'] % m.nodes[sub]['i'],
            'pub': pub,
            'pport': op['pport'] % m.nodes[pub]['o'],
        }
    if kind == 'train':
        w = _pick([i for i in m.workers() if m.nodes[i]['st']], op['w'])
        if w is None or not pubs:
            return None
        pt, pl = _pick(pubs, op['pubT'][0]), _pick(pubs, op['pubL'][0])
        return {
            'op': 'train',
            'w': w,
            'pubT': [pt, op['pubT'][1] % m.nodes[pt]['o']],
            'pubL': [pl, op['pubL'][1] % m.nodes[pl]['o']],
        }
    if kind == 'segment':
        head = _pick([i for i, n in enumerate(m.nodes) if n['i'] <= 1], op['head'])
        if head is None:
            return None
        tail = None if op.get('tail') is None else op['tail'] % len(m.nodes)
        return {'op': 'segment', 'head': head, 'tail': tail}
    if kind == 'extend':
        if not m.segments:
            return None
        seg = op['seg'] % len(m.segments)
        right = _ref(m, op.get('right'), True)
        if right is False:
            return None
        if right is not None and m.nodes[m.segments[seg][1]]['o'] != 1:
            return None
        tail = None if op.get('tail') is None else op['tail'] % len(m.nodes)
        return {'op': 'extend', 'seg': seg, 'right': None if right is None else list(right), 'tail': tail}
    if kind == 'copy':
        if not m.segments:
            return None
        return {'op': 'copy', 'seg': op['seg'] % len(m.segments)}
    if kind in ('trunk', 'tuse', 'textend'):
        out = {'op': kind}
        if kind != 'trunk':
            if not m.trunks:
                return None
            out['trunk'] = op['trunk'] % len(m.trunks)
        for pos, name in enumerate(('apply', 'train', 'label')):
            ref = _ref(m, op.get(name), kind == 'textend')
            if ref is False:
                return None
            if kind == 'textend' and ref is not None and m.nodes[m.trunks[out['trunk']][pos][1]]['o'] != 1:
                return None
            out[name] = None if ref is None else list(ref)
        return out
    if kind == 'composition':
        if not m.trunks:
            return None
        idxs = [t % len(m.trunks) for t in op['trunks']][:3]
        for a, b in zip(idxs, idxs[1:]):
            for pos in range(3):
                if m.nodes[m.trunks[a][pos][1]]['o'] != 1 or m.nodes[m.trunks[b][pos][0]]['i'] != 1:
                    return None
        return {'op': 'composition', 'trunks': idxs}
    raise ValueError(f'unknown op {kind}')


# ---- expectation from the model ----------------------------------------------------------------------------------------
class Expect:
    """What the property demands of one concrete call.

    verdict: 'legal' (must succeed), 'illegal' (must raise TopologyError, nothing changes), 'te' (must raise
    TopologyError; connections legally made earlier in the same call stay), 'either' (not fixed by the property),
    'ambiguous' / 'unspec' (legality of the connection itself is not fixed by the property).
    """

    def __init__(self, model: Model):
        self.m = model.clone()
        self.verdict = 'legal'
        self.reason = ''
        self.tags = set()
        self.nlinks = 0
        self.either = False
        self.links_after_either = False
        self.link_either = False  # a connection whose acceptance the property does not fix
        self.link_fail = None  # (verdict, reason) of the connection that ends the call
        self.ring = False
        self.done = False
        self.unknown = False  # the model cannot follow a successful outcome (e.g. unknown traced tail)
        self.new_nodes = []  # model node indexes created by a successful call, in adoption order
        self.register = None  # ('segment', (h, t)) | ('trunk', (..)) registered on success
        self.copy = None  # (orig nodes, links) for a copy

    # -- steps
    def link(self, links, train_w=None) -> bool:
        if self.done or self.unknown:
            return False
        verdict, reason = self.m.judge(links, train_w)
        if verdict in ('legal', 'either'):
            if self.either:
                self.links_after_either = True
            if verdict == 'either':  # may be refused or accepted; if it is refused nothing of it may stay
                self.either = True
                self.link_either = True
                self.reason = self.reason or reason
                if self.nlinks:
                    self.links_after_either = True  # a refusal would leave an undetermined mix
            self.m.apply(links)
            self.nlinks += len(links)
            return True
        self.done = True
        self.verdict, self.reason = verdict, reason
        self.link_fail = (verdict, reason)
        self.ring = self.m.closes_future_ring(links)  # the refused connection would (also) close a ring of placeholders
        if any(not self.m.is_w(n) for sub, pub in links for n in (sub[0], pub[0])):
            self.tags.add('via-future')
        if verdict == 'illegal' and reason == 'self-feed':
            # a placeholder subscribed to itself is a different shape than a worker reaching itself (through placeholders)
            direct = any(sub[0] == pub[0] and not self.m.is_w(sub[0]) for sub, pub in links)
            self.tags.add('placeholder-self' if direct else 'worker-self')
        if verdict == 'illegal' and self.nlinks:
            self.tags.add('partial')
        return False

    def trace(self, head, tail):
        if self.done or self.unknown:
            return None
        verdict, reason, found = self.m.trace(head, tail)
        if verdict == 'illegal':
            self.done = True
            self.verdict, self.reason = 'te', reason
            return None
        if verdict == 'either':
            self.either = True
            self.reason = self.reason or reason
            if found is None:
                self.unknown = True
        return found

    def finish(self):
        if self.either and self.verdict in ('legal', 'te', 'illegal'):
            # some earlier step may or may not have raised: only "raises TopologyError or not" remains decidable
            self.verdict = 'either' if self.verdict == 'legal' else 'te-unknown'
        return self

    @property
    def te_state_known(self) -> bool:
        return not self.links_after_either


def _extend(e: Expect, seg, right, tail):
    """Model of ``Segment.extend``; returns the new (head, tail) or None."""
    head0, tail0 = seg
    if right is not None:
        if right[0] == 'n':
            rhead = right[1]
            rtail = e.trace(rhead, None)
        elif right[0] == 'i':  # inline (head, tail) pair
            rhead, rtail = right[1]
        else:
            rhead, rtail = e.m.segments[right[1]]
        if e.done or e.unknown:
            return None
        if not e.link([((rhead, 0), (tail0, 0))]):
            return None
        if tail is None:
            tail = rtail
    elif tail is None:
        tail = e.trace(tail0, None)
    if e.done or e.unknown or tail is None:
        return None
    final = e.trace(head0, tail)
    if e.done or e.unknown or final is None:
        return None
    return (head0, final)


def expect(model: Model, rop) -> Expect:
    e = Expect(model)
    m = e.m
    kind = rop['op']
    if kind == 'worker':
        e.new_nodes.append(m.add_worker(rop['st'], rop['i'], rop['o']))
    elif kind == 'future':
        e.new_nodes.append(m.add_future(rop['sz']))
    elif kind == 'fork':
        e.new_nodes.append(m.fork(rop['w']))
    elif kind == 'subscribe':
        e.link([((rop['sub'], rop['sport']), (rop['pub'], rop['pport']))])
    elif kind == 'train':
        w = rop['w']
        links = [((w, T), tuple(rop['pubT'])), ((w, L), tuple(rop['pubL']))]
        if not e.link(links, train_w=w) and e.verdict == 'illegal':
            if model.judge(links[:1], train_w=w)[0] != 'illegal':
                e.tags.add('label-link')
    elif kind == 'segment':
        tail = e.trace(rop['head'], rop['tail'])
        if tail is not None:
            e.register = ('segment', (rop['head'], tail))
    elif kind == 'extend':
        seg = _extend(e, m.segments[rop['seg']], rop['right'] and tuple(rop['right']), rop['tail'])
        if seg is not None:
            e.register = ('segment', seg)
    elif kind == 'copy':
        head, tail = m.segments[rop['seg']]
        verdict, reason, nodes, links = m.copy_plan(head, tail)
        if verdict == 'illegal':
            e.done, e.verdict, e.reason = True, 'te', reason
        elif verdict == 'either':
            e.either, e.reason, e.unknown = True, reason, True
        else:
            mapping = {}
            for n in nodes:
                mapping[n] = m.fork(n)
                e.new_nodes.append(mapping[n])
            for a, b, x, key in sorted(links, key=repr):
                m.pub[(mapping[x], key)] = (mapping[a], b)
            e.copy = (nodes, mapping)
            e.register = ('segment', (mapping[head], mapping[tail]))
    elif kind in ('trunk', 'tuse'):
        base = m.trunks[rop['trunk']] if kind == 'tuse' else (None, None, None)
        segs = []
        for pos, name in enumerate(('apply', 'train', 'label')):
            ref = rop[name]
            if ref is None:
                if base[pos] is not None:
                    segs.append(base[pos])
                else:
                    fut = m.add_future(1)
                    e.new_nodes.append(fut)
                    segs.append((fut, fut))
            elif ref[0] == 'n':
                tail = e.trace(ref[1], None)
                segs.append((ref[1], tail))
            else:
                segs.append(m.segments[ref[1]])
        if not (e.done or e.unknown) and all(s[1] is not None for s in segs):
            e.register = ('trunk', tuple(segs))
    elif kind == 'textend':
        base = m.trunks[rop['trunk']]
        segs = []
        for pos, name in enumerate(('apply', 'train', 'label')):
            ref = rop[name]
            if ref is None:
                segs.append(base[pos])
            else:
                segs.append(_extend(e, base[pos], tuple(ref), None))
        if not (e.done or e.unknown) and all(s is not None for s in segs):
            e.register = ('trunk', tuple(segs))
    elif kind == 'composition':
        cur = list(m.trunks[rop['trunks'][0]])
        for t in rop['trunks'][1:]:
            for pos in range(3):
                if cur[pos] is None:
                    continue
                cur[pos] = _extend(e, cur[pos], ('i', m.trunks[t][pos]), None)
        if not (e.done or e.unknown):
            placeholder = False
            for pos in (0, 1):
                if cur[pos] is None:
                    e.unknown = True
                    break
                head, tail = cur[pos]
                phys = e.trace(tail, None)
                if e.done or e.unknown or phys is None:
                    break
                final = e.trace(head, phys)
                if e.done or e.unknown or final is None:
                    break
                info = m.explore(head, final, mappers=False)
                if info['cycle'] or info['overflow']:
                    e.either = True
                if not m.is_w(head) and head != final:
                    placeholder = True
                    break
            if placeholder and not e.done:
                e.done, e.verdict, e.reason = True, 'te', 'placeholder'
                e.unknown = False
    else:
        raise ValueError(kind)
    return e.finish()


# ---- the real graph ------------------------------------------------------------------------------------------------------
def portkey(p) -> str:
    if isinstance(p, portmod.Train):
        return T
    if isinstance(p, portmod.Label):
        return L
    return str(int(p))


class Collector(flow.Visitor):
    def __init__(self):
        self.nodes = []

    def visit_node(self, node):
        if not any(node is n for n in self.nodes):
            self.nodes.append(node)


class Real:
    """Universe of real forml.flow objects driven through the public API."""

    def __init__(self):
        self.nodes = []
        self.segments = []
        self.trunks = []
        self._ids = {}

    def add(self, node) -> int:
        self._ids[id(node)] = len(self.nodes)
        self.nodes.append(node)
        return len(self.nodes) - 1

    def idx(self, node):
        return self._ids.get(id(node))

    def _noderef(self, ref):
        if ref is None:
            return None
        return self.nodes[ref[1]] if ref[0] == 'n' else self.segments[ref[1]]

    def execute(self, rop):
        """Perform one concrete call; returns the object it produced (if any)."""
        kind = rop['op']
        n = self.nodes
        if kind == 'worker':
            actor = actors.Stateful if rop['st'] else actors.Stateless
            return flow.Worker(actor.builder(), rop['i'], rop['o'])
        if kind == 'future':
            return flow.Future(rop['sz'], rop['sz'])
        if kind == 'fork':
            return n[rop['w']].fork()
        if kind == 'subscribe':
            return n[rop['sub']][rop['sport']].subscribe(n[rop['pub']][rop['pport']])
        if kind == 'train':
            return n[rop['w']].train(n[rop['pubT'][0]][rop['pubT'][1]], n[rop['pubL'][0]][rop['pubL'][1]])
        if kind == 'segment':
            if rop['tail'] is None:
                return flow.Segment(n[rop['head']])
            return flow.Segment(n[rop['head']], n[rop['tail']])
        if kind == 'extend':
            tail = None if rop['tail'] is None else n[rop['tail']]
            return self.segments[rop['seg']].extend(self._noderef(rop['right']), tail)
        if kind == 'copy':
            return self.segments[rop['seg']].copy()
        if kind == 'trunk':
            return flow.Trunk(*(self._noderef(rop[k]) for k in ('apply', 'train', 'label')))
        if kind == 'tuse':
            return self.trunks[rop['trunk']].use(*(self._noderef(rop[k]) for k in ('apply', 'train', 'label')))
        if kind == 'textend':
            return self.trunks[rop['trunk']].extend(*(self._noderef(rop[k]) for k in ('apply', 'train', 'label')))
        if kind == 'composition':
            return flow.Composition(*(actors.Fixed(self.trunks[t]) for t in rop['trunks']))
        raise ValueError(kind)

    # -- observation through public accessors
    def outputs(self, node):
        res = []
        for subs in node.output:
            port = []
            for s in subs:
                i = self.idx(s.node)
                port.append([i if i is not None else 'unknown', portkey(s.port)])
            res.append(sorted(port, key=repr))
        return res

    def observe(self, i, deep: bool):
        node = self.nodes[i]
        rec = {'out': self.outputs(node)}
        if isinstance(node, flow.Worker):
            rec['in'] = sorted(portkey(p) for p in node.input)
            rec['trained'] = bool(node.trained)
            rec['derived'] = bool(node.derived)
            rec['group'] = sorted(j for j in (self.idx(m) for m in node.group) if j is not None)
        elif deep:
            try:
                rec['subscribed'] = [bool(node.subscribed(p)) for p in self.nodes if p is not node]
            except RecursionError:  # a placeholder registered (directly or not) on itself: the accessor never returns
                rec['subscribed'] = 'RecursionError'
            # the placeholder's registrations are state too (a later call collapses all of them again); ``subscribed`` only
            # tells whether *some* registration reaches a node, so a second registration of the same publisher left
            # behind by a refused call would be invisible through it
            rec['registered'] = sorted(
                (self.idx(pub._node), pub._index, port)  # pylint: disable=protected-access
                for pub, port in getattr(node, '_input', {}).items()
                if self.idx(pub._node) is not None  # pylint: disable=protected-access
            )
        return rec

    def snapshot(self, deep: bool = True):
        return [self.observe(i, deep) for i in range(len(self.nodes))]

    def edges(self):
        res = set()
        unknown = False
        for i, node in enumerate(self.nodes):
            if not isinstance(node, flow.Worker):
                continue
            for j, subs in enumerate(node.output):
                for s in subs:
                    x = self.idx(s.node)
                    if x is None:
                        unknown = True
                        continue
                    res.add((i, j, x, portkey(s.port)))
        return res, unknown

    def invariants(self):
        """The five invariants of the property read from the real accessors only: list of (kind, detail)."""
        bad = []
        edges, _ = self.edges()
        pubs = {}
        for a, j, x, key in sorted(edges):
            pubs.setdefault((x, key), []).append((a, j))
            if a == x:
                bad.append(('self-feed', f'node {a} output {j} feeds its own port {key}'))
        for (x, key), lst in sorted(pubs.items()):
            if len(lst) > 1:
                bad.append(('second-publisher', f'input port {key} of node {x} has publishers {lst}'))
        for i, node in enumerate(self.nodes):
            if not isinstance(node, flow.Worker):
                for j, subs in enumerate(node.output):
                    if any(s.node is node for s in subs):
                        bad.append(('self-feed', f'placeholder {i} subscribed to itself'))
                continue
            keys = {portkey(p) for p in node.input}
            if keys & {T, L} and keys - {T, L}:
                bad.append(('train-apply', f'node {i} subscribed on {sorted(keys)}'))
            if node.trained and any(node.output):
                bad.append(('trained-publishing', f'trained node {i} publishes {self.outputs(node)}'))
            if sum(1 for m in node.group if m.trained) > 1:
                bad.append(('group-trained', f'group of node {i} has several trained members'))
        return bad


def reset_forml() -> None:
    """forml keeps a process-global registry of subscribed ports keyed by node: start every universe from an empty one."""
    portmod.Subscription._PORTS.clear()  # pylint: disable=protected-access


_CASES = 0


def housekeeping() -> None:
    global _CASES
    _CASES += 1
    reset_forml()
    if _CASES % 200 == 0:
        gc.collect()
        reset_forml()


def _quiet_unraisable(unraisable, _default=__import__('sys').unraisablehook) -> None:
    """Subscription.__del__ of a *previous* universe finds its registry entry gone (we emptied the registry) and trips
    over ``{}.discard`` (or runs while the stack is exhausted by a placeholder cycle); that finalizer noise is irrelevant."""
    kind = unraisable.exc_type
    if kind is RecursionError:  # finalizers running while a placeholder cycle has exhausted the stack
        return
    if kind is AttributeError and getattr(unraisable.object, '__qualname__', '') == 'Subscription.__del__':
        return
    _default(unraisable)


__import__('sys').unraisablehook = _quiet_unraisable
