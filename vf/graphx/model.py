"""Abstract task-graph model for C11: decides from the property text whether a construction call is legal.

No forml import. State: nodes (workers with shape/statefulness/group, futures with a square shape), a map
``input port -> publisher port`` (a future's input port ``i`` feeds its output port ``i``), segments and trunks.
Placeholders are transparent: the worker->worker connections are obtained by following publisher chains through futures.
"""
import itertools

T, L = 'T', 'L'
PRIORITY = ('second-publisher', 'train-apply', 'group-trained', 'self-feed', 'trained-publishing')


class Model:
    def __init__(self):
        self.nodes = []  # {'k': 'w'|'f', 'i': szin, 'o': szout, 'st': bool, 'g': group id}
        self.pub = {}  # (node, key) -> (publisher node, output index); key: int apply index | 'T' | 'L'
        self.ngroups = 0
        self.segments = []  # (head, tail)
        self.trunks = []  # ((h, t), (h, t), (h, t))  apply, train, label

    def clone(self) -> 'Model':
        other = Model()
        other.nodes = [dict(n) for n in self.nodes]
        other.pub = {k: (list(v) if isinstance(v, list) else v) for k, v in self.pub.items()}
        other.ngroups = self.ngroups
        other.segments = list(self.segments)
        other.trunks = list(self.trunks)
        return other

    # ---- universe -----------------------------------------------------------------------------------------------
    def add_worker(self, st: bool, i: int, o: int, g=None) -> int:
        if g is None:
            g = self.ngroups
            self.ngroups += 1
        self.nodes.append({'k': 'w', 'i': i, 'o': o, 'st': bool(st), 'g': g})
        return len(self.nodes) - 1

    def add_future(self, sz: int) -> int:
        self.nodes.append({'k': 'f', 'i': sz, 'o': sz, 'st': False, 'g': None})
        return len(self.nodes) - 1

    def fork(self, n: int) -> int:
        node = self.nodes[n]
        if node['k'] == 'f':
            return self.add_future(node['i'])
        return self.add_worker(node['st'], node['i'], node['o'], node['g'])

    def is_w(self, n: int) -> bool:
        return self.nodes[n]['k'] == 'w'

    def workers(self):
        return [i for i, n in enumerate(self.nodes) if n['k'] == 'w']

    def futures(self):
        return [i for i, n in enumerate(self.nodes) if n['k'] == 'f']

    def members(self, n: int):
        g = self.nodes[n]['g']
        return [i for i, x in enumerate(self.nodes) if x['k'] == 'w' and x['g'] == g]

    def trained(self, n: int, pub=None) -> bool:
        pub = self.pub if pub is None else pub
        return (n, T) in pub or (n, L) in pub

    def derived(self, n: int) -> bool:
        return self.nodes[n]['st'] and any(self.trained(m) for m in self.members(n) if m != n)

    def inputs(self, n: int):
        return sorted((str(k) for (x, k) in self.pub if x == n))

    # ---- connections ----------------------------------------------------------------------------------------------
    # ``pub``: (worker, key) -> one publisher port; (placeholder, index) -> *list* of publisher ports. A placeholder is
    # transparent: what counts is which worker output ports finally reach a worker input port.
    def closure(self, m: int, j: int, pub=None):
        """All publisher ports upstream of output port (m, j), itself included; second value: a placeholder cycle."""
        pub = self.pub if pub is None else pub
        ports, state = set(), {'cyc': False}

        def rec(port, path):
            if port in path:
                state['cyc'] = True
                return
            ports.add(port)
            if self.is_w(port[0]):
                return
            for up in pub.get(port, ()):
                rec(up, path | {port})

        rec((m, j), frozenset())
        return ports, state['cyc']

    def future_ring(self, start: int, pub=None) -> bool:
        """A ring of placeholders at *node* level (whatever the ports): forml collapses placeholders per node."""
        pub = self.pub if pub is None else pub
        ups = {}
        for (n, _), v in pub.items():
            if isinstance(v, list):
                ups.setdefault(n, set()).update(m for m, _ in v if not self.is_w(m))
        seen, stack = set(), list(ups.get(start, ()))
        while stack:
            cur = stack.pop()
            if cur == start:
                return True
            if cur in seen:
                continue
            seen.add(cur)
            stack.extend(ups.get(cur, ()))
        return False

    def closes_future_ring(self, links) -> bool:
        """Would these connections leave some placeholder on a ring of placeholders (node level)?"""
        pub2 = {k: (list(v) if isinstance(v, list) else v) for k, v in self.pub.items()}
        for (n, key), up in links:
            if not self.is_w(n):
                pub2.setdefault((n, key), []).append(up)
        return any(not self.is_w(n) and self.future_ring(n, pub2) for (n, _), _ in links)

    def sources(self, m: int, j: int, pub=None):
        """Worker output ports that reach output port (m, j)."""
        return sorted(p for p in self.closure(m, j, pub)[0] if self.is_w(p[0]))

    def out_subs(self, pub=None):
        """node -> {(output index, subscribed worker, its input key)}; placeholders carry what passes through them."""
        pub = self.pub if pub is None else pub
        res = {i: set() for i in range(len(self.nodes))}
        for (x, key), up in pub.items():
            if not self.is_w(x):
                continue
            for a, b in self.closure(*up, pub)[0]:
                res[a].add((b, x, key))
        return res

    def edges(self, pub=None):
        """Worker -> worker connections {(publisher, out index, subscriber, input key)} of the direct wiring."""
        pub = self.pub if pub is None else pub
        res = set()
        for (x, key), up in pub.items():
            if self.is_w(x):
                for a, b in self.sources(*up, pub):
                    res.add((a, b, x, str(key)))
        return res

    def depth(self) -> int:
        """Largest number of chained placeholders between two connected workers."""
        best = 0

        def rec(port, n, path):
            nonlocal best
            if port in path:
                return
            if self.is_w(port[0]):
                best = max(best, n)
                return
            for up in self.pub.get(port, ()):
                rec(up, n + 1, path | {port})

        for (x, _), up in self.pub.items():
            if self.is_w(x):
                rec(up, 0, frozenset())
        return best

    # ---- legality of new connections ---------------------------------------------------------------------------
    def judge(self, links, train_w=None):
        """Decide a set of new connections [((sub, key), (pub, index))] made by one call.

        Returns (verdict, reason): 'legal' | 'illegal' (one of the five invariants would break) | 'either' (a further
        publisher registered on a placeholder port without any worker port getting two publishers - the property does
        not fix whether that is refused) | 'ambiguous' (trained worker wired to a dangling placeholder) | 'unspec'
        (placeholder-only cycle).
        """
        reasons = set()
        pub2 = {k: (list(v) if isinstance(v, list) else v) for k, v in self.pub.items()}
        multi = False
        for (n, key), up in links:
            if self.is_w(n):
                if (n, key) in pub2:
                    reasons.add('second-publisher')
                else:
                    pub2[(n, key)] = up
            else:
                if pub2.get((n, key)):
                    multi = True
                pub2.setdefault((n, key), []).append(up)
            if n == up[0]:
                reasons.add('self-feed')
        osubs = self.out_subs()
        if train_w is not None:
            if any(self.trained(x) for x in self.members(train_w)):
                reasons.add('group-trained')
            if any((train_w, k) in self.pub for k in range(self.nodes[train_w]['i'])):
                reasons.add('train-apply')
            if osubs[train_w]:
                reasons.add('trained-publishing')
        else:
            for (n, key), _ in links:
                if self.is_w(n) and self.trained(n):
                    reasons.add('train-apply')

        def trained2(x):
            return x == train_w or self.trained(x)

        unspec = ambiguous = False
        if True:  # resolution through placeholders
            for (n, key), (m, j) in links:
                if self.is_w(n):
                    affected = [(n, key)] if pub2.get((n, key)) == (m, j) else []
                else:
                    affected = [(x, k) for (x, k), up in pub2.items() if self.is_w(x) and (n, key) in self.closure(*up, pub2)[0]]
                    if n != m and (self.closure(m, j, pub2)[1] or self.future_ring(n, pub2)):
                        unspec = True
                for x, k in affected:
                    srcs = self.sources(*pub2[(x, k)], pub2)
                    if len(srcs) > 1:
                        reasons.add('second-publisher')
                    for a, _ in srcs:
                        if a == x:
                            reasons.add('self-feed')
                        if trained2(a):
                            reasons.add('trained-publishing')
                if not affected and any(trained2(a) for a, _ in self.sources(m, j, pub2)):
                    ambiguous = True
            if train_w is not None and any(
                train_w == up[0] for k, v in pub2.items() if isinstance(v, list) for up in v
            ):
                ambiguous = True
        for r in PRIORITY:
            if r in reasons:
                return 'illegal', r
        if unspec:
            return 'unspec', 'future-cycle'
        if ambiguous:
            return 'ambiguous', 'trained-to-placeholder'
        if multi:
            return 'either', 'placeholder-multi-publisher'
        return 'legal', ''

    def apply(self, links) -> None:
        for (n, key), up in links:
            if self.is_w(n):
                assert (n, key) not in self.pub
                self.pub[(n, key)] = up
            else:
                self.pub.setdefault((n, key), []).append(up)

    # ---- traversals (Segment tracing) ---------------------------------------------------------------------------
    def _fut_subscribed(self, f: int, p: int, osubs, seen=None) -> bool:
        """Model of the public ``Future.subscribed(publisher)``."""
        seen = seen or set()
        if f in seen:
            return False
        seen.add(f)
        for k in range(self.nodes[f]['i']):
            for up in self.pub.get((f, k), ()):
                m = up[0]
                if m == p:
                    return True
                if self.is_w(m):
                    if any(x == m for (_, x, _) in osubs[p]):
                        return True
                elif self._fut_subscribed(m, p, osubs, seen):
                    return True
        return False

    def successors(self, n: int, osubs, mappers: bool, extra=None):
        res = sorted({x for (_, x, _) in osubs[n]})
        if mappers:
            res = [x for x in res if not self.trained(x)]
        if extra is not None and extra not in res:
            if self.is_w(extra):
                pass  # a worker is a subscriber only through a real subscription (already listed)
            elif self._fut_subscribed(extra, n, osubs):
                res.append(extra)
        return res

    def explore(self, head: int, tail=None, mappers: bool = True, stop_at_tail: bool = False):
        """DFS over (mapper) subscribers from head. Returns dict(cycle, reach, npaths, leaves)."""
        osubs = self.out_subs()
        state = {'cycle': False, 'npaths': 0, 'budget': 20000}
        reach, leaves = set(), set()

        def dfs(n, path):
            if state['budget'] <= 0:
                return
            state['budget'] -= 1
            reach.add(n)
            if stop_at_tail and n == tail:
                state['npaths'] += 1
                leaves.add(n)
                return
            succ = self.successors(n, osubs, mappers, tail)
            if not succ:
                state['npaths'] += 1
                leaves.add(n)
                return
            for s in succ:
                if s in path:
                    state['cycle'] = True
                    continue
                dfs(s, path | {s})

        dfs(head, {head})
        return {
            'cycle': state['cycle'],
            'reach': reach,
            'npaths': state['npaths'],
            'leaves': leaves,
            'overflow': state['budget'] <= 0,
        }

    def trace(self, head: int, tail=None):
        """Model of ``Segment(head, tail)``: (verdict, reason, tail node or None).

        'illegal'/'cycle' only for the full (tail-less) trace that necessarily walks into a cycle; everything the
        property does not fix (ambiguous/wide/disconnected tails, a cycle next to an explicit tail) is 'either'.
        """
        info = self.explore(head, tail)
        if info['overflow']:
            return 'either', 'overflow', None
        if tail is not None and tail != head and not self.is_w(tail) and self.out_subs()[tail]:
            # forml deliberately treats a placeholder as equal to a worker with the same output subscriptions: such a
            # tail may be "found" at that worker; what the trace then does is not fixed by the property
            return 'either', 'aliased-tail', tail if self.nodes[tail]['o'] <= 1 else None
        if tail is None:
            if info['cycle']:
                return 'illegal', 'cycle', None
            if info['npaths'] == 1:
                (leaf,) = info['leaves']
                if self.nodes[leaf]['o'] > 1:
                    return 'either', 'wide-tail', None
                return 'legal', '', leaf
            leaf = next(iter(info['leaves'])) if len(info['leaves']) == 1 else None
            if leaf is not None and self.nodes[leaf]['o'] > 1:
                leaf = None
            return 'either', 'ambiguous-tail', leaf
        if head == tail:
            if self.nodes[tail]['o'] > 1:
                return 'either', 'wide-tail', None
            return 'legal', '', tail
        if tail not in info['reach']:
            return 'either', 'disconnected', None
        if self.nodes[tail]['o'] > 1:
            return 'either', 'wide-tail', None
        if info['cycle']:
            return 'either', 'cycle-beside-tail', tail
        return 'legal', '', tail

    def copy_plan(self, head: int, tail: int):
        """Nodes (ordered) and induced connections replicated by ``segment.copy()``; verdict as in trace."""
        osubs = self.out_subs()
        info = self.explore(head, tail, mappers=True, stop_at_tail=True)
        if info['overflow']:
            return 'either', 'overflow', [], set()
        if not self.is_w(tail) and tail != head:
            return 'either', 'future-tail', [], set()
        if not self.is_w(head) and any(self.pub.get((head, k)) for k in range(self.nodes[head]['i'])):
            # a connected placeholder head compares equal to the worker feeding it (same output subscriptions, by design
            # of Node.__eq__): what the copy then takes for head/tail is not fixed by the property
            return 'either', 'aliased-head', [], set()
        if info['cycle']:
            return 'illegal', 'cycle', [], set()
        # nodes on some head -> tail mapper path
        memo = {}

        def reaches(n, path):
            if n == tail:
                return True
            if n in memo:
                return memo[n]
            res = any(reaches(s, path | {s}) for s in self.successors(n, osubs, True, tail) if s not in path)
            memo[n] = res
            return res

        nodes = [n for n in sorted(info['reach']) if reaches(n, {n})]
        if head not in nodes:
            nodes = [head]  # bootstrap copy of the single head
            return 'either', 'tail-unreachable', nodes, set()
        inside = set(nodes)
        links = {
            (a, b, x, key)
            for a in nodes
            for (b, x, key) in osubs[a]
            if x in inside and (self.is_w(a) or True)
        }
        if not self.is_w(tail) and tail != head:
            return 'either', 'future-tail', nodes, links
        return 'legal', '', nodes, links


def permutations_of(n: int):
    return [list(p) for p in itertools.permutations(range(n))]
