"""Trivial actors and a trunk-wrapping composable used by the C11 graph-construction check (importable module)."""
from forml import flow


class Stateful(flow.Actor):
    """Stateful actor (overrides train)."""

    def train(self, features, labels):  # pragma: no cover - never executed, topology only
        pass

    def apply(self, *features):  # pragma: no cover
        return features[0]


class Stateless(flow.Actor):
    """Stateless actor."""

    def apply(self, *features):  # pragma: no cover
        return features[0]


class Fixed(flow.Composable):
    """Composable whose expansion is a given, already built trunk."""

    def __init__(self, trunk: flow.Trunk):
        self._trunk = trunk

    def expand(self) -> flow.Trunk:
        return self._trunk

    def compose(self, scope: flow.Composable) -> flow.Trunk:
        return scope.expand().extend(*self._trunk)
