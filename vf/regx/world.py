"""Registry operations and observations executed in forked children (the parent never touches a registry).

Everything here is plain data in / plain data out (JSON through a pipe). Children always ``os._exit``.
"""
import datetime
import hashlib
import json
import os
import shutil
import traceback
import uuid

# imported here so that every forked child finds them loaded (the parent imports forml but never uses a registry)
import forml  # noqa: F401
from forml import project as _prj  # noqa: F401
from forml.io import asset as _asset  # noqa: F401
from forml.provider.registry.filesystem import posix as _posix, volatile as _volatile  # noqa: F401

from . import fault

EPOCH = datetime.datetime(2024, 1, 1, 12, 0, 0)
NODES = [uuid.UUID(int=i + 1) for i in range(8)]  # persistent node ids ("actor order")


# ---- plain helpers (usable in any process, no forml involved) ----------------------------------------------------------
def sha(data: bytes) -> str:
    return hashlib.sha1(data).hexdigest()


def tree(root: str) -> dict:
    """Raw content of a directory tree: relative file path -> sha1 (directories end with '/')."""
    out = {}
    if not os.path.isdir(root):
        return out
    for base, dirs, files in os.walk(root):
        dirs.sort()
        rel = os.path.relpath(base, root)
        for d in dirs:
            out[os.path.normpath(os.path.join(rel, d)) + '/'] = ''
        for f in sorted(files):
            path = os.path.join(base, f)
            with open(path, 'rb') as fh:
                out[os.path.normpath(os.path.join(rel, f))] = sha(fh.read())
    return out


def package_digest(path: str) -> str:
    """Content digest of a package (directory tree without __pycache__, or a single file)."""
    if os.path.isdir(path):
        items = {k: v for k, v in tree(path).items() if '__pycache__' not in k.split('/')}
        return 'dir:' + sha(json.dumps(items, sort_keys=True).encode())
    with open(path, 'rb') as fh:
        return 'file:' + sha(fh.read())


def isotime(seconds: int, micros: int = 0) -> str:
    return (EPOCH + datetime.timedelta(seconds=seconds, microseconds=micros)).isoformat()


def snapshot(src: str, dst: str) -> None:
    if os.path.lexists(dst):
        shutil.rmtree(dst)
    if os.path.isdir(src):
        shutil.copytree(src, dst, symlinks=True)


def restore(snap: str, dst: str) -> None:
    if os.path.lexists(dst):
        shutil.rmtree(dst)
    if os.path.isdir(snap):
        shutil.copytree(snap, dst, symlinks=True)


# ---- forking ---------------------------------------------------------------------------------------------------------------
class HarnessFault(Exception):
    """The harness itself failed inside a child."""


def in_child(fn, *args, root=None, crash=None):
    """Run ``fn(*args)`` in a forked child. Returns (status, events, result).

    status: 'ok' (result is the function's JSON-able return value) or 'crashed' (the injected crash point was hit).
    ``root`` switches the fs event recorder on; ``crash=(k, jmode)`` additionally kills the child at crash point k.
    """
    rfd, wfd = os.pipe()
    pid = os.fork()
    if pid == 0:  # ---- child
        code = 3
        try:
            os.close(rfd)

            def emit(rec, _write=os.write):
                _write(wfd, (json.dumps(rec) + '\n').encode())

            inj = None
            if root is not None:
                k, j = crash if crash is not None else (None, 'zero')
                inj = fault.Injector(root, lambda rec: emit({'ev': rec}), k, j)
                inj.install()
            res = fn(*args)
            if inj is not None:
                inj.finish()
            emit({'res': res})
            code = 0
        except BaseException:  # pylint: disable=broad-except
            try:
                os.write(wfd, (json.dumps({'fault': traceback.format_exc()}) + '\n').encode())
            except BaseException:  # pylint: disable=broad-except
                pass
        finally:
            os._exit(code)
    # ---- parent
    os.close(wfd)
    chunks = []
    while True:
        buf = os.read(rfd, 1 << 16)
        if not buf:
            break
        chunks.append(buf)
    os.close(rfd)
    _, status = os.waitpid(pid, 0)
    code = os.waitstatus_to_exitcode(status)
    events, result, fault_tb = [], None, None
    for line in b''.join(chunks).split(b'\n'):
        if not line:
            continue
        try:
            rec = json.loads(line)
        except ValueError:
            continue  # a line cut by the crash
        if 'ev' in rec:
            events.append(rec['ev'])
        elif 'res' in rec:
            result = rec['res']
        elif 'fault' in rec:
            fault_tb = rec['fault']
    if code == fault.EXIT:
        return 'crashed', events, None
    if code != 0 or fault_tb is not None:
        raise HarnessFault(f'child exit {code}: {fault_tb}')
    return 'ok', events, result


# ---- child side: forml calls ---------------------------------------------------------------------------------------------
def describe(exc: BaseException) -> dict:
    import forml
    from vf.core.ctx import forml_frame

    family = 'invalid' if isinstance(exc, forml.InvalidError) else 'missing' if isinstance(exc, forml.MissingError) else 'other'
    return {'error': f'{type(exc).__name__}@{forml_frame(exc)}', 'family': family, 'msg': str(exc)[:300]}


def clear_caches():
    """Reader-side caches of forml (needed only when an observation shares the process with earlier operations)."""
    from forml.io.asset._directory.level import major, minor

    major.ARTIFACTS.clear()
    minor.TAGS.clear()
    minor.STATES.clear()


def registry_at(root: str):
    from forml.provider.registry.filesystem import posix

    staging = os.environ.get('VF_C05_STAGING')  # an explicit staging area, possibly on another file system
    return posix.Registry(root, staging=staging) if staging else posix.Registry(root)


def build_package(base: str, name: str, version: str) -> dict:
    """Create the directory based and the zip based package of one release below ``base`` (idempotent)."""
    from forml import project as prj

    pkgname = name.replace('-', '_')
    src = os.path.join(base, f'{name}-{version}-src')
    out = {'dir': os.path.join(base, f'{name}-{version}-dir'), 'zip': os.path.join(base, f'{name}-{version}.4ml')}
    modules = {
        '__init__.py': f'"""{name} {version}."""\n',
        'source.py': 'from forml import project\nFEATURES = ("x", "y")\nLABEL = "z"\n' + f'RELEASE = "{version}"\n',
        'pipeline.py': 'import math\n\ndef scale(value):\n    return math.floor(value) * 2\n' + f'NAME = "{name}"\n',
        'evaluation.py': f'# evaluation of {name}\nMETRIC = "logloss"\n' * 3,
        os.path.join('util', '__init__.py'): '',
        os.path.join('util', 'helper.py'): 'def helper(a, b):\n    return a + b\n' * 40,
    }
    for target in (src, out['dir']):
        for rel, text in modules.items():
            path = os.path.join(target, pkgname, rel)
            os.makedirs(os.path.dirname(path), exist_ok=True)
            with open(path, 'w') as fh:
                fh.write(text)
    manifest = prj.Manifest(name=name, version=version, package=pkgname, source=f'{pkgname}.source', pipeline=f'{pkgname}.pipeline')
    manifest.write(out['dir'])
    prj.Package.create(src, manifest, out['zip'])
    return {
        kind: {
            'path': os.path.realpath(path),
            'digest': package_digest(path),
            'manifest': {
                'name': name,
                'version': version,
                'package': pkgname,
                'modules': {'source': f'{pkgname}.source', 'pipeline': f'{pkgname}.pipeline'},
            },
        }
        for kind, path in out.items()
    }


def make_tag(registry_tag, tagspec):
    """Tag template of a training run: the lifecycle's ``tag.training.trigger(ts)`` or a fully explicit tag."""
    from forml.io import asset

    stamp = EPOCH + datetime.timedelta(seconds=tagspec['ts'], microseconds=tagspec.get('us', 0))
    if tagspec['mode'] == 'trigger':
        return registry_tag.training.trigger(stamp)
    tuned = None if tagspec.get('tts') is None else EPOCH + datetime.timedelta(seconds=tagspec['tts'])
    return asset.Tag(training=asset.Tag.Training(stamp, tagspec.get('ordinal')), tuning=asset.Tag.Tuning(tuned, tagspec.get('score')))


def op_publish(registry, project: str, pkgpath: str) -> dict:
    from forml import project as prj
    from forml.io import asset

    try:
        asset.Directory(registry).get(project).put(prj.Package(pkgpath))
    except Exception as exc:  # pylint: disable=broad-except
        return describe(exc)
    return {'ok': True}


def op_train(registry, project: str, release, states: list, tagspec: dict) -> dict:
    """What a training run does with the registry: Instance -> State.dump per actor -> State.commit."""
    from forml.io import asset

    try:
        instance = asset.Instance(project, release, None, asset.Directory(registry))
        accessor = instance.state(NODES[: len(states)], make_tag(instance.tag, tagspec))
        sids = [accessor.dump(bytes.fromhex(s)) for s in states]
        accessor.commit(sids)
    except Exception as exc:  # pylint: disable=broad-except
        return describe(exc)
    return {'ok': True}


def op_train_handle(level, states: list, tagspec: dict) -> dict:
    """The same commit through a long-lived ``asset.Release`` level object (what ``State.commit`` does with the release of
    an instance that stays alive across trainings, e.g. two launchers of one process)."""
    from forml.io import asset

    try:
        try:
            base = level.get(None).tag
        except asset.Level.Listing.Empty:
            base = asset.Tag()
        tag = make_tag(base, tagspec)
        sids = [level.dump(bytes.fromhex(s)) for s in states]
        level.put(tag.replace(states=sids))
    except Exception as exc:  # pylint: disable=broad-except
        return describe(exc)
    return {'ok': True}


def tag_view(tag) -> dict:
    def iso(value):
        return None if value is None else value.isoformat() if isinstance(value, datetime.datetime) else repr(value)

    return {
        'ts': iso(tag.training.timestamp),
        'ordinal': tag.training.ordinal,
        'tts': iso(tag.tuning.timestamp),
        'score': tag.tuning.score,
        'nstates': len(tag.states),
    }


def op_read(registry, project: str, release, generation, nstates: int) -> dict:
    """What a runner does to load a model: Instance(project, release|latest, generation|latest) -> tag, State.load."""
    from forml.io import asset

    try:
        instance = asset.Instance(project, release, generation, asset.Directory(registry))
        tag = instance.tag
        accessor = instance.state(NODES[:nstates])
        return {'tag': tag_view(tag), 'states': [accessor.load(gid).hex() for gid in NODES[:nstates]]}
    except Exception as exc:  # pylint: disable=broad-except
        return describe(exc)


def observe(registry, packages: str = 'pull') -> dict:
    """Everything a fresh reader can see through asset.Directory: listings, package manifests, tags, states."""
    from forml.io import asset

    directory = asset.Directory(registry)
    out = {}
    try:
        projects = list(directory.list())
    except Exception as exc:  # pylint: disable=broad-except
        return describe(exc)
    for pkey in projects:
        project = directory.get(pkey)
        try:
            releases = list(project.list())
        except Exception as exc:  # pylint: disable=broad-except
            out[str(pkey)] = describe(exc)
            continue
        rels = out.setdefault(str(pkey), {})
        for rkey in releases:
            release = project.get(rkey)
            item = rels.setdefault(str(rkey), {})
            if packages == 'pull':
                try:
                    package = registry.pull(pkey, rkey)
                    manifest = package.manifest
                    item['manifest'] = {
                        'name': str(manifest.name),
                        'version': str(manifest.version),
                        'package': manifest.package,
                        'modules': dict(manifest.modules),
                    }
                    item['pkg'] = package_digest(str(package.path))
                except Exception as exc:  # pylint: disable=broad-except
                    item['manifest'] = describe(exc)
            else:  # volatile: no packages, the artifact is the published package itself
                try:
                    item['artifact'] = os.path.realpath(str(release.artifact.path))
                except Exception as exc:  # pylint: disable=broad-except
                    item['artifact'] = describe(exc)
            try:
                generations = list(release.list())
            except Exception as exc:  # pylint: disable=broad-except
                item['gens'] = describe(exc)
                continue
            gens = item.setdefault('gens', {})
            for gkey in generations:
                generation = release.get(gkey)
                try:
                    tag = generation.tag
                    view = tag_view(tag)
                except Exception as exc:  # pylint: disable=broad-except
                    gens[str(int(gkey))] = {'tag': describe(exc)}
                    continue
                states = []
                for idx in range(len(tag.states)):
                    try:
                        states.append(generation.get(idx).hex())
                    except Exception as exc:  # pylint: disable=broad-except
                        states.append(describe(exc))
                gens[str(int(gkey))] = {'tag': view, 'states': states}
    return out
