"""Crash-point injection on the Python-level file-system entry points (installed inside a forked child only).

Every mutating call whose target lies under the watched root is an *event*: ``mkdir``, ``rename``, ``replace``,
``unlink``, ``rmdir``, ``rmtree``, ``create`` (a file opened for writing, or the destination of ``shutil.copyfile``) and
``write`` (one ``write`` call on such a file, or the payload of a ``copyfile``). Events are streamed to ``emit`` *before*
they are performed. With a crash point ``k`` the process ``os._exit(77)``s instead of performing event ``k``; if event
``k`` is a write, the first ``j`` bytes are persisted first. Data written to a file object stays in process memory until
the file is flushed or closed (as with Python's buffered writers), so a death between ``write()`` and ``close()`` loses it.
"""
import builtins
import io
import os
import shutil
import sys

EXIT = 77
JMODES = ('zero', 'one', 'half', 'last')

_real = {
    'mkdir': os.mkdir,
    'rename': os.rename,
    'replace': os.replace,
    'unlink': os.unlink,
    'remove': os.remove,
    'rmdir': os.rmdir,
    'os_open': os.open,
    'open': builtins.open,
    'copyfile': shutil.copyfile,
    'rmtree': shutil.rmtree,
}


def role(root: str, path: str) -> str:
    """Structural role of a path inside a registry tree (no names or ids)."""
    parts = os.path.relpath(path, root).split(os.sep)
    last = parts[-1]
    if parts == ['.']:
        return 'root'
    if last == 'tag.toml':
        return 'tag'
    if last.endswith('.bin'):
        return 'staged' if '.stage' in parts else 'state'
    if last == '.stage':
        return 'stagedir'
    if 'package.4ml' in parts:
        return 'pkg' if last == 'package.4ml' else 'pkgtree'
    if '.stage' in parts:
        return 'stagetree'
    if len(parts) == 1:
        return 'prjdir'
    if len(parts) == 2:
        return 'reldir'
    if len(parts) == 3 and last.isdigit():
        return 'gendir'
    return 'other'


def jbytes(mode: str, size: int) -> int:
    if mode == 'zero':
        return 0
    if mode == 'one':
        return min(1, size)
    if mode == 'half':
        return size // 2
    return max(size - 1, 0)  # last


class _Proxy:
    """File object whose writes are crash points.

    Like Python's own buffered writers it keeps written data in process memory until ``flush``/``close`` - a process
    death in between loses it (small metadata files never exceed the buffer). The *write* event (and its partial
    variants) therefore happens at flush time, which is where the bytes really reach the file."""

    def __init__(self, inj, real, path):
        self._inj = inj
        self._real = real
        self._path = path
        self._pending = []

    def write(self, data):
        if not isinstance(data, str):
            data = bytes(data)  # memoryview etc.
        self._pending.append(data)
        return len(data)

    def writelines(self, lines):
        for line in lines:
            self.write(line)

    def flush(self):
        if self._pending:
            data = self._pending[0][:0].join(self._pending)
            self._pending = []
            self._inj.write_event(self._real, self._path, data)
        self._real.flush()

    def close(self):
        if not self._real.closed:
            self.flush()
        self._real.close()

    def __enter__(self):
        return self

    def __exit__(self, *exc):
        self.close()
        return False

    def __iter__(self):
        return iter(self._real)

    def __getattr__(self, name):
        return getattr(self._real, name)


class Injector:
    def __init__(self, root: str, emit, k=None, j='zero'):
        self.root = os.path.realpath(root)
        self.emit = emit  # callable(dict) -> None, must persist the record synchronously
        self.k = k
        self.j = j
        self.count = 0

    # ---- helpers ---------------------------------------------------------------------------------------------------
    def inside(self, path, dir_fd=None):
        if dir_fd is not None:
            return None
        try:
            full = os.path.realpath(os.fspath(path))
        except TypeError:
            return None
        if isinstance(full, bytes):
            full = os.fsdecode(full)
        if full == self.root or full.startswith(self.root + os.sep):
            return full
        return None

    @staticmethod
    def func() -> str:
        """Innermost forml function on the stack, as 'module.function'."""
        frame = sys._getframe(2)
        while frame is not None:
            path = frame.f_code.co_filename.replace(os.sep, '/')
            if '/forml/' in path and '/verif/' not in path:
                return f"{os.path.basename(path)[:-3]}.{frame.f_code.co_name}"
            frame = frame.f_back
        return 'harness'

    def event(self, fsop: str, path: str, size=None) -> bool:
        """Announce an event; returns True when the process has to die *inside* it (writes only)."""
        idx = self.count
        self.count += 1
        rec = {'i': idx, 'fsop': fsop, 'role': role(self.root, path), 'func': self.func()}
        if size is not None:
            rec['size'] = size
        self.emit(rec)
        if self.k is not None and idx == self.k:
            if fsop == 'write':
                return True
            os._exit(EXIT)
        return False

    def finish(self):
        """Called after the operation returned: crash point 'after the last event'."""
        if self.k is not None and self.k >= self.count:
            os._exit(EXIT)

    def write_event(self, real, path, data):
        size = len(data)
        if self.event('write', path, size):
            real.write(data[: jbytes(self.j, size)])
            real.flush()
            os._exit(EXIT)
        out = real.write(data)
        real.flush()
        return out

    # ---- wrappers --------------------------------------------------------------------------------------------------
    def install(self):
        inj = self

        def one(name, fsop):
            real = _real[name]

            def wrapper(path, *args, **kwargs):
                full = inj.inside(path, kwargs.get('dir_fd'))
                if full is not None and fsop == 'mkdir' and (os.path.lexists(full) or not os.path.isdir(os.path.dirname(full))):
                    full = None  # going to fail without changing anything (pathlib's parents/exist_ok protocol): not an event
                if full is not None:
                    inj.event(fsop, full)
                return real(path, *args, **kwargs)

            wrapper.__name__ = name
            return wrapper

        def two(name, fsop):
            real = _real[name]

            def wrapper(src, dst, *args, **kwargs):
                full = None
                if kwargs.get('src_dir_fd') is None and kwargs.get('dst_dir_fd') is None:
                    full = inj.inside(dst) or inj.inside(src)
                if full is not None:
                    inj.event(fsop, full)
                return real(src, dst, *args, **kwargs)

            wrapper.__name__ = name
            return wrapper

        def opener(file, mode='r', *args, **kwargs):
            full = inj.inside(file) if not isinstance(file, int) else None
            if full is None or not set(mode) & set('wax+'):
                return _real['open'](file, mode, *args, **kwargs)
            if 'w' in mode or 'x' in mode or not os.path.exists(full):
                inj.event('create', full)
            return _Proxy(inj, _real['open'](file, mode, *args, **kwargs), full)

        def os_open(path, flags, *args, **kwargs):
            full = inj.inside(path, kwargs.get('dir_fd'))
            if full is not None and flags & (os.O_WRONLY | os.O_RDWR) and flags & (os.O_CREAT | os.O_TRUNC):
                inj.event('create', full)
            return _real['os_open'](path, flags, *args, **kwargs)

        def copyfile(src, dst, *, follow_symlinks=True):
            full = inj.inside(dst)
            if full is None:
                return _real['copyfile'](src, dst, follow_symlinks=follow_symlinks)
            with _real['open'](src, 'rb') as fh:
                data = fh.read()
            inj.event('create', full)
            with _real['open'](dst, 'wb') as out:
                inj.write_event(out, full, data)
            return dst

        def rmtree(path, *args, **kwargs):
            full = inj.inside(path, kwargs.get('dir_fd'))
            if full is not None:
                inj.event('rmtree', full)
            # the nested unlink/rmdir calls are fd-relative and therefore not counted separately
            return _real['rmtree'](path, *args, **kwargs)

        os.mkdir = one('mkdir', 'mkdir')
        os.unlink = one('unlink', 'unlink')
        os.remove = one('remove', 'unlink')
        os.rmdir = one('rmdir', 'rmdir')
        os.rename = two('rename', 'rename')
        os.replace = two('replace', 'replace')
        os.open = os_open
        builtins.open = opener
        io.open = opener
        shutil.copyfile = copyfile
        shutil.rmtree = rmtree
