"""Run context shared by all checks: case accounting, failure collection, bucketing, evidence.

A check never raises on an oracle mismatch; it calls ``ctx.fail(...)`` and goes on, so that a shallow defect does not
hide what lies behind it. After the campaign the failures are grouped into buckets by ``key`` and compared with the
committed ``known_findings.json``.
"""
import hashlib
import json
import os
import time
import traceback
import typing


def jdump(obj) -> str:
    return json.dumps(obj, sort_keys=True, default=repr, separators=(',', ':'))


def digest(obj) -> str:
    return hashlib.sha1(jdump(obj).encode()).hexdigest()[:16]


def forml_frame(exc: BaseException) -> str:
    """Innermost frame of the traceback that lies inside the forml package, as 'file:function' (no line numbers)."""
    frame = 'unknown'
    for fs in traceback.extract_tb(exc.__traceback__):
        path = fs.filename.replace(os.sep, '/')
        if '/forml/' in path and '/verif/' not in path:
            frame = f"{path.split('/forml/', 1)[1]}:{fs.name}"
    return frame


class Failure(typing.NamedTuple):
    key: str  # bucket key
    spec: typing.Any  # JSON-able case
    detail: str  # human readable observation
    campaign: str  # campaign that produced it (for shrinking)


class Ctx:
    """Accounting for one run of one property."""

    def __init__(self, pid: str, tier: str, seed: int, level: str = 'exploration'):
        self.pid = pid
        self.tier = tier
        self.seed = seed
        self.level = level
        self.root = os.environ.get('VERIF_ROOT', '/verif')
        self.scratch = os.environ.get('VERIF_SCRATCH', '/tmp')
        self.t0 = time.time()
        self.evaluations = 0
        self.nontrivial: set[str] = set()
        self.classes: dict[str, int] = {}
        self.samples: list = []
        self.sample_cap = 8
        self.failures: list[Failure] = []
        self.masked: dict[str, int] = {}  # cases whose verdict was hidden by a known crash, per bucket key
        self.rule = ''
        self.assumptions: list[str] = []
        self.extra: dict[str, typing.Any] = {}
        self.campaign = 'main'
        self.inconclusive: list[str] = []
        self.fail_cap = 400  # per key
        self._fail_count: dict[str, int] = {}
        self.exhaustive = False
        self._per_campaign: dict[str, int] = {}

    # ---- accounting ----------------------------------------------------------------------------------------------
    def case(self, spec, nontrivial: bool = False, classes: typing.Iterable[str] = (), dig: str | None = None) -> None:
        """Register one executed case."""
        self.evaluations += 1
        for c in classes:
            self.classes[c] = self.classes.get(c, 0) + 1
        if nontrivial:
            d = dig or digest(spec)
            if d not in self.nontrivial:
                self.nontrivial.add(d)
                n = self._per_campaign.get(self.campaign, 0)
                if n < 3 and len(self.nontrivial) % 7 == 1:
                    self._per_campaign[self.campaign] = n + 1
                    self.samples.append({'campaign': self.campaign, 'case': spec})

    def klass(self, *classes: str) -> None:
        for c in classes:
            self.classes[c] = self.classes.get(c, 0) + 1

    def fail(self, spec, clause: str, kind: str, detail: str = '', tags: typing.Iterable[str] = ()) -> str:
        """Record an oracle mismatch; returns the bucket key."""
        key = '|'.join([clause, kind, ','.join(sorted(set(tags)))])
        n = self._fail_count.get(key, 0)
        self._fail_count[key] = n + 1
        if n < self.fail_cap:
            self.failures.append(Failure(key, spec, detail[:2000], self.campaign))
        return key

    def fail_exc(self, spec, clause: str, exc: BaseException, tags: typing.Iterable[str] = ()) -> str:
        kind = f'{type(exc).__name__}@{forml_frame(exc)}'
        return self.fail(spec, clause, kind, f'{type(exc).__name__}: {exc}', tags)

    def mask(self, key: str) -> None:
        self.masked[key] = self.masked.get(key, 0) + 1

    # ---- merge (sharded runs) ------------------------------------------------------------------------------------
    def export(self) -> dict:
        return {
            'evaluations': self.evaluations,
            'nontrivial': sorted(self.nontrivial),
            'classes': self.classes,
            'samples': self.samples,
            'failures': [tuple(f) for f in self.failures],
            'fail_count': self._fail_count,
            'masked': self.masked,
            'inconclusive': self.inconclusive,
            'extra': self.extra,
        }

    def merge(self, other: dict) -> None:
        self.evaluations += other['evaluations']
        self.nontrivial.update(other['nontrivial'])
        for k, v in other['classes'].items():
            self.classes[k] = self.classes.get(k, 0) + v
        for s in other['samples']:
            if len(self.samples) < 16:
                self.samples.append(s)
        for f in other['failures']:
            self.failures.append(Failure(*f))
        for k, v in other['fail_count'].items():
            self._fail_count[k] = self._fail_count.get(k, 0) + v
        for k, v in other['masked'].items():
            self.masked[k] = self.masked.get(k, 0) + v
        self.inconclusive.extend(other['inconclusive'])
        for k, v in other.get('extra', {}).items():
            if isinstance(v, (int, float)) and isinstance(self.extra.get(k, 0), (int, float)):
                self.extra[k] = self.extra.get(k, 0) + v
            else:
                self.extra.setdefault(k, v)

    # ---- buckets -------------------------------------------------------------------------------------------------
    def buckets(self) -> dict[str, list[Failure]]:
        out: dict[str, list[Failure]] = {}
        for f in self.failures:
            out.setdefault(f.key, []).append(f)
        for k in out:
            out[k].sort(key=lambda f: len(jdump(f.spec)))
        return out

    def bucket_counts(self) -> dict[str, int]:
        return dict(self._fail_count)

    # ---- evidence ------------------------------------------------------------------------------------------------
    def write_evidence(self, violations: int, known: list[str], bucket_info: dict) -> str:
        path = os.path.join(self.root, 'evidence', f'{self.pid}.json')
        os.makedirs(os.path.dirname(path), exist_ok=True)
        samples = self.samples[:16]
        cov = {
            'evaluations': self.evaluations,
            'distinct_nontrivial': len(self.nontrivial),
            'rule': self.rule,
            'samples': samples,
            'classes': dict(sorted(self.classes.items())),
            'buckets': bucket_info,
            'known_findings_reported': known,
            'masked_by_known_crash': self.masked,
            'inconclusive': self.inconclusive,
            'exhaustive': self.exhaustive,
        }
        cov.update(self.extra)
        doc = {
            'property_id': self.pid,
            'tier': self.tier,
            'seed': self.seed,
            'level': self.level,
            'coverage': cov,
            'assumptions': self.assumptions,
            'wall_s': round(time.time() - self.t0, 2),
            'violations': violations,
        }
        tmp = path + '.tmp'
        with open(tmp, 'w') as fh:
            json.dump(doc, fh, indent=1, sort_keys=True, default=repr)
        os.replace(tmp, path)
        return path
