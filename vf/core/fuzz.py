"""Coverage-guided campaign: atheris (libFuzzer) driving a check's Hypothesis campaign through ``fuzz_one_input``.

Run as a fresh process (coverage instrumentation has to be in place before forml is imported, and libFuzzer ends the
process itself)::

    python -m vf.core.fuzz <ID> <campaign> <runs> <seed> <outdir> <include-prefix>[,<include-prefix>...]

The fuzzer's bytes are Hypothesis' choice sequence, so the very same strategy and the very same collect-mode property
function are explored, only the search is guided by branch coverage of the instrumented forml modules instead of being
random. Failures and counters are streamed to ``<outdir>`` (libFuzzer exits without running Python clean-up); the parent
check merges them into its own context, so triage (buckets, known findings, VIOLATION lines) is the usual one.
"""
import importlib
import json
import os
import subprocess
import sys
import time


def _main(argv):
    pid, campaign, runs, seed, outdir, includes = argv[0], argv[1], int(argv[2]), int(argv[3]), argv[4], argv[5].split(',')
    import atheris

    with atheris.instrument_imports(include=includes):
        import forml  # noqa: F401  pylint: disable=unused-import

        mod = importlib.import_module(f'vf.checks.{pid.lower()}')
    import hypothesis

    from vf.core import ctx as ctxmod
    from vf.core import hyp

    ctx = ctxmod.Ctx(pid, 'thorough', seed, getattr(mod, 'LEVEL', 'exploration'))
    camp = {c.name: c for c in mod.campaigns(ctx)}[campaign]
    ctx.campaign = campaign
    os.makedirs(outdir, exist_ok=True)
    fail_path = os.path.join(outdir, 'failures.jsonl')
    stat_path = os.path.join(outdir, 'stats.json')
    state = {'flushed': 0, 'last': time.time()}

    def flush(force=False):
        new = ctx.failures[state['flushed'] :]
        if new:
            with open(fail_path, 'a') as fh:
                for f in new:
                    fh.write(json.dumps(list(f), default=repr) + '\n')
            state['flushed'] = len(ctx.failures)
        if force or time.time() - state['last'] > 2:
            state['last'] = time.time()
            doc = ctx.export()
            doc.pop('failures')
            tmp = stat_path + '.tmp'
            with open(tmp, 'w') as fh:
                json.dump(doc, fh, default=repr)
            os.replace(tmp, stat_path)

    @hypothesis.settings(hyp.settings(1))
    @hypothesis.given(camp.strategy)
    def test(spec):
        camp.fn(ctx, spec)
        flush()

    corpus = os.path.join(outdir, 'corpus')
    os.makedirs(corpus, exist_ok=True)
    argv = [sys.argv[0], f'-runs={runs}', f'-seed={seed or 1}', '-max_len=2048', '-print_final_stats=0', '-verbosity=0', corpus]
    atheris.Setup(argv, test.hypothesis.fuzz_one_input)
    try:
        atheris.Fuzz()
    finally:
        flush(force=True)


def spawn(scratch: str, pid: str, seed: int, campaign: str, runs: int, includes, timeout_s: int = 900):
    """Run one fuzz process to completion; returns (info, exported-context-or-None)."""
    outdir = os.path.join(scratch, f'fuzz-{pid}-{campaign}-{seed}')
    cmd = [sys.executable, '-W', 'ignore', '-m', 'vf.core.fuzz', pid, campaign, str(runs), str(seed), outdir, ','.join(includes)]
    started = time.time()
    try:
        proc = subprocess.run(cmd, capture_output=True, text=True, timeout=timeout_s, check=False)
        status = f'exit {proc.returncode}'
        tail = (proc.stderr or '')[-400:]
    except subprocess.TimeoutExpired:
        status, tail = 'timeout', ''
    info = {'campaign': campaign, 'runs_requested': runs, 'instrumented': list(includes), 'status': status, 'wall_s': round(time.time() - started, 1)}
    stat_path = os.path.join(outdir, 'stats.json')
    if not os.path.exists(stat_path):
        info['error'] = tail[-200:]
        return info, None
    with open(stat_path) as fh:
        part = json.load(fh)
    part['failures'] = []
    fail_path = os.path.join(outdir, 'failures.jsonl')
    if os.path.exists(fail_path):
        with open(fail_path) as fh:
            part['failures'] = [tuple(json.loads(line)) for line in fh]
    info['evaluations'] = part['evaluations']
    corpus = os.path.join(outdir, 'corpus')
    info['corpus_files'] = len(os.listdir(corpus)) if os.path.isdir(corpus) else 0
    return info, part


def run_all(ctx, mod, plan) -> None:
    """``plan`` = [(campaign, runs, [include prefixes]), ...]; processes run in parallel, results merged in plan order."""
    import concurrent.futures

    with concurrent.futures.ThreadPoolExecutor(max(len(plan), 1)) as pool:
        jobs = [pool.submit(spawn, ctx.scratch, mod.ID, ctx.seed, c, n, inc) for c, n, inc in plan]
        results = [j.result() for j in jobs]
    for info, part in results:
        if part is None:
            ctx.inconclusive.append(f"coverage-guided {info['campaign']}: no statistics written ({info['status']}) {info.get('error', '')}")
        else:
            ctx.merge(part)
        ctx.extra.setdefault('coverage_guided', []).append(info)


if __name__ == '__main__':
    _main(sys.argv[1:])
