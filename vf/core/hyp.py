"""Hypothesis plumbing: seeded collect-mode campaigns over JSON-able specs, bucket-directed shrinking, sharding."""
import dataclasses
import multiprocessing
import os
import time
import typing

import hypothesis
from hypothesis import strategies as st

from . import ctx as ctxmod


@dataclasses.dataclass
class Campaign:
    """One generated-input search: ``fn(ctx, spec)`` is executed for specs drawn from ``strategy``.

    ``fn`` must be a pure function of the spec and the code under test, must register the case with ``ctx.case`` and
    report oracle mismatches with ``ctx.fail``; it never raises for a mismatch.
    """

    name: str
    strategy: typing.Any
    fn: typing.Callable
    quick: int
    thorough: int  # per shard
    shrinkable: bool = True


class HarnessError(Exception):
    """Something is wrong with the harness itself (exit code 2)."""


def settings(n: int, shrink: bool = False) -> hypothesis.settings:
    phases = [hypothesis.Phase.generate] + ([hypothesis.Phase.shrink] if shrink else [])
    return hypothesis.settings(
        max_examples=n,
        database=None,
        deadline=None,
        derandomize=False,
        report_multiple_bugs=False,
        print_blob=False,
        phases=phases,
        suppress_health_check=list(hypothesis.HealthCheck),
        verbosity=hypothesis.Verbosity.quiet,
    )


def run_campaign(ctx: ctxmod.Ctx, camp: Campaign, n: int, seed: int) -> None:
    ctx.campaign = camp.name

    @hypothesis.seed(seed)
    @hypothesis.settings(settings(n))
    @hypothesis.given(camp.strategy)
    def test(spec):
        camp.fn(ctx, spec)

    test()


class _Found(Exception):
    pass


class _Stop(Exception):
    pass


def shrink(ctx: ctxmod.Ctx, camp: Campaign, key: str, n: int, seed: int, budget_s: float = 60.0):
    """Search again at the same seed for a case landing in bucket ``key`` and let Hypothesis shrink it.

    Returns the minimal spec found (or None). The time budget is enforced by refusing new failing candidates once it
    is used up while still confirming the already seen ones, so that Hypothesis never reports flakiness.
    """
    t0 = time.time()
    seen: dict[str, typing.Any] = {}
    order: list[str] = []

    def probe(spec) -> bool:
        sub = ctxmod.Ctx(ctx.pid, ctx.tier, ctx.seed, ctx.level)
        sub.campaign = camp.name
        camp.fn(sub, spec)
        return any(f.key == key for f in sub.failures)

    @hypothesis.seed(seed)
    @hypothesis.settings(settings(n, shrink=True))
    @hypothesis.given(camp.strategy)
    def test(spec):
        d = ctxmod.digest(spec)
        hit = d in seen or (time.time() - t0 <= budget_s and probe(spec))
        if hit:  # a single raise site: Hypothesis identifies a failure by exception type and location
            if d not in seen:
                seen[d] = spec
                order.append(d)
            raise _Found()
        if time.time() - t0 > budget_s:
            raise _Stop()  # budget used up: end the (possibly long) generation phase quickly

    try:
        test()
    except (_Found, _Stop):
        pass
    except Exception:  # flaky or other library complaint: fall back on the smallest seen
        pass
    if not seen:
        return None
    return min(seen.values(), key=lambda s: len(ctxmod.jdump(s)))


def _shard_entry(args):
    modname, tier, seed, shard, nshards, out = args
    import importlib
    import pickle

    mod = importlib.import_module(modname)
    sub = ctxmod.Ctx(mod.ID, tier, seed, getattr(mod, 'LEVEL', 'exploration'))
    sub.extra['shard'] = shard
    try:
        mod.explore(sub, shard, nshards)
    finally:
        cleanup = getattr(mod, 'cleanup', None)  # a forked shard leaves through os._exit: no atexit handlers
        if cleanup is not None:
            cleanup()
    sub.extra.pop('shard', None)
    with open(out + '.tmp', 'wb') as fh:
        pickle.dump(sub.export(), fh, protocol=4)
    os.replace(out + '.tmp', out)


def shard(ctx: ctxmod.Ctx, mod, nshards: int) -> None:
    """Run ``mod.explore(ctx, shard, nshards)`` in ``nshards`` forked (non-daemonic: shards may start their own worker
    processes) processes, at most one per core at a time, and merge the results in shard order."""
    import pickle

    if nshards <= 1:
        mod.explore(ctx, 0, 1)
        return
    mp = multiprocessing.get_context('fork')
    width = min(nshards, os.cpu_count() or 1)
    outs = [os.path.join(ctx.scratch, f'shard-{mod.ID}-{k}.pkl') for k in range(nshards)]
    pending = list(range(nshards))
    running: dict[int, typing.Any] = {}
    failed = []
    while pending or running:
        while pending and len(running) < width:
            k = pending.pop(0)
            proc = mp.Process(target=_shard_entry, args=((mod.__name__, ctx.tier, ctx.seed, k, nshards, outs[k]),), daemon=False)
            proc.start()
            running[k] = proc
        for k, proc in list(running.items()):
            proc.join(0.2)
            if proc.exitcode is not None:
                del running[k]
                if proc.exitcode != 0 or not os.path.exists(outs[k]):
                    failed.append((k, proc.exitcode))
    if failed:
        raise HarnessError(f'shard(s) failed: {failed}')
    for out in outs:
        with open(out, 'rb') as fh:
            ctx.merge(pickle.load(fh))
        os.remove(out)


__all__ = ['Campaign', 'HarnessError', 'run_campaign', 'shrink', 'shard', 'st']
