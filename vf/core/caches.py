"""Clearing forml's memoisation between cases without depending on *where* the code under test keeps it.

A check that is not about a cache must start every case from a cold one; naming the cached callables one by one
(``io.Importer.match.cache_clear()``) makes the harness break (exit 2) as soon as a change moves or removes the decorator -
which is exactly the kind of change that has to be *judged*, not tripped over (seeded change C09-5). ``clear`` walks the
given classes / modules and clears every ``functools`` cache it finds (functions, methods, nested classes one level down).
"""
import inspect
import types


def _clear_one(obj) -> int:
    fn = getattr(obj, 'cache_clear', None)
    if callable(fn):
        try:
            fn()
            return 1
        except Exception:  # pylint: disable=broad-except
            return 0
    return 0


def clear(*targets, depth: int = 2) -> int:
    """Clear every lru_cache/cache found on the targets (classes, modules, callables). Returns the number cleared."""
    seen, count = set(), 0

    def visit(obj, level):
        nonlocal count
        if id(obj) in seen:
            return
        seen.add(id(obj))
        count += _clear_one(obj)
        if level <= 0:
            return
        if inspect.isclass(obj):
            for klass in obj.__mro__:
                if klass.__module__.split('.')[0] != 'forml':
                    continue
                for attr in list(vars(klass).values()):
                    inner = getattr(attr, '__func__', attr)
                    if isinstance(attr, property):
                        inner = attr.fget
                    if inspect.isclass(inner):
                        if inner.__module__.split('.')[0] == 'forml':
                            visit(inner, level - 1)
                    else:
                        count += _clear_one(inner)
            meta = type(obj)
            if meta is not type and meta.__module__.split('.')[0] == 'forml':
                visit(meta, level - 1)
        elif isinstance(obj, types.ModuleType):
            for attr in list(vars(obj).values()):
                mod = getattr(attr, '__module__', None)
                if isinstance(mod, str) and mod.split('.')[0] == 'forml' and (inspect.isclass(attr) or callable(attr)):
                    visit(attr, level - 1)

    for target in targets:
        visit(target, depth)
    return count
